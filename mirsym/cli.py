import argparse
import importlib
import json
import os
import sys
import traceback

from . import session, explore


def main():
    sys.setrecursionlimit(20000)
    ap = argparse.ArgumentParser()
    ap.add_argument('prop')
    ap.add_argument('rest', nargs='*')
    ap.add_argument('--tier', default=os.environ.get('VERIF_TIER', 'quick'))
    a = ap.parse_args()
    if a.prop == 'replay':
        from . import replaycmd
        sys.exit(replaycmd.main(a.rest))
    if a.prop == 'setup':
        from . import setupcmd
        sys.exit(setupcmd.main())
    tier = a.tier if a.tier in ('quick', 'thorough') else 'quick'
    seed = int(os.environ.get('VERIF_SEED', '0') or 0)
    prop = a.prop.upper()
    S = session.Session(prop, tier, seed)
    try:
        mod = importlib.import_module('units.%s' % prop.lower())
        code = mod.run(S)
    except explore.Inconclusive as e:
        S.inconclusive.append(str(e))
        S.log('INCONCLUSIVE: %s' % e)
        try:
            code = S.finish(level='other', explanation='run aborted: %s' % e)
        except Exception:
            traceback.print_exc()
            code = 2
        code = code or 2
    except Exception:
        traceback.print_exc()
        print('INCONCLUSIVE property=%s: internal error in the checker' % prop)
        code = 2
    sys.exit(code)


if __name__ == '__main__':
    main()
