"""Parser for rustc's textual MIR (`-Zunpretty=mir`).

Only the subset of syntax that occurs in typstyle's dumps is understood.  Any
line inside a function body that is not understood raises MirSyntaxError when
the function is *used* (parsing is lazy per function), never silently skipped.
"""
import re
import hashlib


class MirSyntaxError(Exception):
    pass


# ---------------------------------------------------------------------------
# low level scanning helpers


def _skip_string(s, i):
    """s[i] == '"'; return index just after the closing quote."""
    assert s[i] == '"'
    i += 1
    n = len(s)
    while i < n:
        c = s[i]
        if c == '\\':
            i += 2
            continue
        if c == '"':
            return i + 1
        i += 1
    raise MirSyntaxError("unterminated string in %r" % s)


def _char_lit_end(s, i):
    """If a char literal starts at s[i] == "'", return the index after it, else None."""
    n = len(s)
    if i + 2 < n and s[i + 1] == '\\':
        # escape: '\n' '\'' '\\' '\u{..}' '\x7f'
        j = i + 2
        if s[j] == 'u' and j + 1 < n and s[j + 1] == '{':
            k = s.index('}', j)
            if k + 1 < n and s[k + 1] == "'":
                return k + 2
            return None
        if s[j] == 'x':
            if j + 3 < n and s[j + 3] == "'":
                return j + 4
            return None
        if j + 1 < n and s[j + 1] == "'":
            return j + 2
        return None
    if i + 2 < n and s[i + 2] == "'" and s[i + 1] != "'":
        return i + 3
    return None


OPEN = '([{<'
CLOSE = ')]}>'


def scan_balanced(s, i, stops):
    """Scan from i until a char in `stops` is met at nesting depth 0.

    Handles string and char literals, `->`/`=>` arrows and bracket nesting of
    ()[]{}<>.  Returns the index of the stop char (or len(s))."""
    depth = 0
    n = len(s)
    while i < n:
        c = s[i]
        if c == '"':
            i = _skip_string(s, i)
            continue
        if c == "'":
            e = _char_lit_end(s, i)
            if e is not None:
                i = e
                continue
            i += 1
            continue
        if c == 'b' and i + 1 < n and s[i + 1] == '"' and (i == 0 or not (s[i - 1].isalnum() or s[i - 1] == '_')):
            i = _skip_string(s, i + 1)
            continue
        if depth == 0 and c in stops:
            return i
        if c in '([{':
            depth += 1
        elif c in ')]}':
            depth -= 1
            if depth < 0:
                return i
        elif c == '<':
            # generic bracket unless it is a comparison (never in MIR text) or `<<`
            depth += 1
        elif c == '>':
            if i > 0 and s[i - 1] in '-=':
                pass  # arrow
            else:
                depth -= 1
                if depth < 0:
                    return i
        i += 1
    return n


def split_top(s, sep=','):
    """Split s at top-level separators."""
    out = []
    i = 0
    start = 0
    n = len(s)
    while i <= n:
        j = scan_balanced(s, i, sep)
        if j >= n:
            out.append(s[start:].strip())
            break
        if s[j] == sep:
            out.append(s[start:j].strip())
            start = j + 1
            i = j + 1
        else:
            # unbalanced close: treat as part of text
            i = j + 1
    if len(out) == 1 and out[0] == '':
        return []
    return out


# ---------------------------------------------------------------------------
# AST


class Place:
    __slots__ = ('local', 'proj')

    def __init__(self, local, proj=()):
        self.local = local
        self.proj = tuple(proj)

    def __repr__(self):
        return 'Place(_%d%s)' % (self.local, ''.join(repr(p) for p in self.proj))


class Operand:
    __slots__ = ('kind', 'place', 'const')
    # kind: 'copy' | 'move' | 'const'

    def __init__(self, kind, place=None, const=None):
        self.kind = kind
        self.place = place
        self.const = const

    def __repr__(self):
        return 'Op(%s %r)' % (self.kind, self.place if self.place is not None else self.const)


class Const:
    """kind: int(val, ty) | bool | char | str | bytes | unit | zst(ty) | path(text) | promoted(idx) | fnitem(text)"""
    __slots__ = ('kind', 'val', 'ty', 'text')

    def __init__(self, kind, val=None, ty=None, text=None):
        self.kind = kind
        self.val = val
        self.ty = ty
        self.text = text

    def __repr__(self):
        return 'Const(%s,%r,%r)' % (self.kind, self.val, self.ty or self.text)


class Rvalue:
    __slots__ = ('kind', 'a', 'b', 'c')

    def __init__(self, kind, a=None, b=None, c=None):
        self.kind = kind
        self.a = a
        self.b = b
        self.c = c

    def __repr__(self):
        return 'Rv(%s,%r,%r,%r)' % (self.kind, self.a, self.b, self.c)


class Stmt:
    __slots__ = ('kind', 'place', 'rv', 'text')

    def __init__(self, kind, place=None, rv=None, text=None):
        self.kind = kind  # assign | setdiscr | nop
        self.place = place
        self.rv = rv
        self.text = text


class Term:
    __slots__ = ('kind', 'func', 'args', 'dest', 'target', 'unwind', 'op', 'targets', 'otherwise', 'cond', 'expected', 'msg', 'place', 'text')

    def __init__(self, kind, **kw):
        self.kind = kind
        for k in self.__slots__[1:]:
            setattr(self, k, kw.get(k))


class Block:
    __slots__ = ('stmts', 'term', 'cleanup')

    def __init__(self):
        self.stmts = []
        self.term = None
        self.cleanup = False


class Fn:
    def __init__(self, name, header, lines, is_const=False):
        self.name = name
        self.header = header
        self.raw_lines = lines
        self.is_const = is_const
        self._parsed = False
        self.params = []
        self.ret_ty = None
        self.locals = {}
        self.debug = {}
        self.blocks = {}

    @property
    def sha(self):
        h = hashlib.sha256()
        h.update(self.header.encode())
        for l in self.raw_lines:
            h.update(l.encode())
        return h.hexdigest()[:16]

    def ensure_parsed(self):
        if not self._parsed:
            _parse_fn_body(self)
            self._parsed = True
        return self


# ---------------------------------------------------------------------------
# place / operand / rvalue parsing

_INT_TYS = ('usize', 'isize', 'u8', 'u16', 'u32', 'u64', 'u128', 'i8', 'i16', 'i32', 'i64', 'i128')
_INT_RE = re.compile(r'^(-?\d+)_(%s)$' % '|'.join(_INT_TYS))
_FLOAT_RE = re.compile(r'^(-?[0-9.eE+-]+)(f32|f64)$')


def parse_place(s, i=0):
    """Parse a place starting at s[i]; return (Place, next index)."""
    n = len(s)
    if s[i] == '_' and i + 1 < n and s[i + 1].isdigit():
        j = i + 1
        while j < n and s[j].isdigit():
            j += 1
        pl = Place(int(s[i + 1:j]))
        i = j
    elif s[i] == '(':
        if s[i + 1] == '*':
            inner, j = parse_place(s, i + 2)
            if s[j] != ')':
                raise MirSyntaxError('deref place: %r' % s[i:])
            pl = Place(inner.local, inner.proj + (('deref',),))
            i = j + 1
        else:
            inner, j = parse_place(s, i + 1)
            if s[j] == '.':
                k = j + 1
                while s[k].isdigit():
                    k += 1
                idx = int(s[j + 1:k])
                if s[k:k + 2] != ': ':
                    raise MirSyntaxError('field place: %r' % s[i:])
                e = scan_balanced(s, k + 2, ')')
                ty = s[k + 2:e]
                pl = Place(inner.local, inner.proj + (('field', idx, ty),))
                i = e + 1
            elif s[j:j + 4] == ' as ':
                e = scan_balanced(s, j + 4, ')')
                var = s[j + 4:e]
                pl = Place(inner.local, inner.proj + (('downcast', var),))
                i = e + 1
            else:
                raise MirSyntaxError('paren place: %r' % s[i:])
    else:
        raise MirSyntaxError('place: %r' % s[i:])
    # index projections
    while i < n and s[i] == '[':
        e = s.index(']', i)
        inside = s[i + 1:e]
        m = re.match(r'^_(\d+)$', inside)
        if m:
            pl = Place(pl.local, pl.proj + (('index', int(m.group(1))),))
        else:
            m = re.match(r'^(-?)(\d+) of (\d+)$', inside)
            if m:
                pl = Place(pl.local, pl.proj + (('constindex', int(m.group(2)), bool(m.group(1)), int(m.group(3))),))
            else:
                m = re.match(r'^(\d+):(-?)(\d*)$', inside) or re.match(r'^(\d+)\.\.(-?)(\d*)$', inside)
                if m:
                    pl = Place(pl.local, pl.proj + (('subslice', int(m.group(1)), bool(m.group(2)), int(m.group(3) or 0)),))
                else:
                    raise MirSyntaxError('index projection: %r' % s[i:])
        i = e + 1
    return pl, i


def _unescape(body, is_bytes=False):
    out = []
    i = 0
    n = len(body)
    while i < n:
        c = body[i]
        if c == '\\':
            d = body[i + 1]
            if d == 'n':
                out.append(10); i += 2
            elif d == 'r':
                out.append(13); i += 2
            elif d == 't':
                out.append(9); i += 2
            elif d == '0':
                out.append(0); i += 2
            elif d == '\\':
                out.append(92); i += 2
            elif d == '"':
                out.append(34); i += 2
            elif d == "'":
                out.append(39); i += 2
            elif d == 'x':
                out.append(int(body[i + 2:i + 4], 16)); i += 4
            elif d == 'u':
                e = body.index('}', i)
                out.append(int(body[i + 3:e], 16)); i = e + 1
            else:
                raise MirSyntaxError('escape %r' % body[i:i + 4])
        else:
            out.append(ord(c))
            i += 1
    return out


def parse_const(text):
    t = text.strip()
    if t == 'true':
        return Const('bool', True)
    if t == 'false':
        return Const('bool', False)
    if t == '()':
        return Const('unit')
    m = _INT_RE.match(t)
    if m:
        return Const('int', int(m.group(1)), m.group(2))
    m = _FLOAT_RE.match(t)
    if m:
        return Const('float', float(m.group(1)), m.group(2))
    if t.startswith('"'):
        e = _skip_string(t, 0)
        if e != len(t):
            raise MirSyntaxError('const str trailing: %r' % t)
        return Const('str', _unescape(t[1:-1]))
    if t.startswith('b"'):
        return Const('bytes', _unescape(t[2:-1], True))
    if t.startswith("'"):
        e = _char_lit_end(t, 0)
        if e == len(t):
            v = _unescape(t[1:-1])
            assert len(v) == 1
            return Const('char', v[0])
    if t.startswith('ZeroSized: '):
        return Const('zst', ty=t[len('ZeroSized: '):])
    m = re.search(r'::promoted\[(\d+)\]$', t)
    if m:
        return Const('promoted', int(m.group(1)), text=t)
    return Const('path', text=t)


def parse_operand(text):
    t = text.strip()
    if t.startswith('no_retag '):
        t = t[len('no_retag '):]
    if t.startswith('copy '):
        pl, j = parse_place(t, 5)
        if j != len(t):
            raise MirSyntaxError('operand trailing: %r' % t)
        return Operand('copy', pl)
    if t.startswith('move '):
        pl, j = parse_place(t, 5)
        if j != len(t):
            raise MirSyntaxError('operand trailing: %r' % t)
        return Operand('move', pl)
    if t.startswith('const '):
        return Operand('const', const=parse_const(t[6:]))
    # bare function item / path
    return Operand('const', const=Const('fnitem', text=t))


_BINOPS = {'Add', 'Sub', 'Mul', 'Div', 'Rem', 'BitXor', 'BitAnd', 'BitOr', 'Shl', 'Shr', 'Eq', 'Lt', 'Le', 'Ne', 'Ge', 'Gt',
           'Cmp', 'Offset', 'AddWithOverflow', 'SubWithOverflow', 'MulWithOverflow', 'AddUnchecked', 'SubUnchecked',
           'MulUnchecked', 'ShlUnchecked', 'ShrUnchecked'}
_UNOPS = {'Not', 'Neg', 'PtrMetadata'}

_CAST_RE = re.compile(r'^(.*) as (.*) \(([A-Za-z]+(?:\(.*\))?)\)$')


def parse_rvalue(text):
    t = text.strip()
    if t.startswith('no_retag '):
        t = t[len('no_retag '):]
    # references
    if t.startswith('&'):
        rest = t[1:]
        mut = False
        if rest.startswith('raw const '):
            rest = rest[len('raw const '):]
            kind = 'rawptr'
        elif rest.startswith('raw mut '):
            rest = rest[len('raw mut '):]
            kind = 'rawptr'
            mut = True
        else:
            kind = 'ref'
            if rest.startswith('mut '):
                mut = True
                rest = rest[4:]
            elif rest.startswith('fake shallow '):
                rest = rest[len('fake shallow '):]
            elif rest.startswith('fake '):
                rest = rest[len('fake '):]
        pl, j = parse_place(rest, 0)
        if j != len(rest):
            raise MirSyntaxError('ref trailing: %r' % t)
        return Rvalue(kind, pl, mut)
    if t.startswith('discriminant(') and t.endswith(')'):
        pl, j = parse_place(t, len('discriminant('))
        if j == len(t) - 1:
            return Rvalue('discr', pl)
    if t.startswith('Len(') and t.endswith(')'):
        pl, j = parse_place(t, 4)
        return Rvalue('len', pl)
    # casts
    if t.startswith(('copy ', 'move ', 'const ')) and ' as ' in t and t.endswith(')'):
        # find ' as ' at top level after the operand
        j = scan_top_for(t, ' as ')
        if j is not None:
            opnd = t[:j]
            rest = t[j + 4:]
            # rest = "<ty> (<CastKind>)"
            k = rest.rfind(' (')
            # CastKind may contain nested parens: PointerCoercion(Unsize, Implicit)
            k = _cast_kind_start(rest)
            ty = rest[:k].strip()
            ck = rest[k + 1:].strip()[1:-1]
            return Rvalue('cast', parse_operand(opnd), ty, ck)
    if t.startswith(('copy ', 'move ', 'const ')):
        return Rvalue('use', parse_operand(t))
    # binop / unop
    m = re.match(r'^([A-Za-z]+)\(', t)
    if m and t.endswith(')'):
        name = m.group(1)
        if name in _BINOPS:
            args = split_top(t[len(name) + 1:-1])
            if len(args) == 2:
                return Rvalue('binop', name, parse_operand(args[0]), parse_operand(args[1]))
        if name in _UNOPS:
            return Rvalue('unop', name, parse_operand(t[len(name) + 1:-1]))
    # tuple aggregate
    if t.startswith('(') and t.endswith(')') and scan_balanced(t, 1, '') >= len(t) - 1:
        inner = t[1:-1]
        parts = split_top(inner)
        if inner.strip().endswith(','):
            parts = [p for p in parts if p != '']
        return Rvalue('tuple', [parse_operand(p) for p in parts])
    # array aggregate / repeat
    if t.startswith('[') and t.endswith(']'):
        inner = t[1:-1]
        j = scan_balanced(inner, 0, ';')
        if j < len(inner):
            return Rvalue('repeat', parse_operand(inner[:j]), inner[j + 1:].strip())
        parts = split_top(inner)
        return Rvalue('array', [parse_operand(p) for p in parts])
    # struct-like aggregate:  Path { f: op, ... }   (also closures)
    j = scan_balanced(t, 0, '') if False else None
    b = _find_top_brace(t)
    if b is not None and t.endswith('}'):
        path = t[:b].strip()
        inner = t[b + 1:-1].strip()
        fields = []
        for part in split_top(inner):
            if not part:
                continue
            k = part.index(':')
            fields.append((part[:k].strip(), parse_operand(part[k + 1:])))
        return Rvalue('adt_struct', path, fields)
    # tuple-like variant / struct:  Path(op, ...)
    if t.endswith(')'):
        p = _find_last_top_paren(t)
        if p is not None and p > 0:
            path = t[:p].strip()
            args = split_top(t[p + 1:-1])
            return Rvalue('adt_tuple', path, [parse_operand(a) for a in args])
    # unit variant / unit struct / closure without captures
    if re.match(r'^[A-Za-z_<{]', t):
        return Rvalue('adt_unit', t)
    raise MirSyntaxError('rvalue: %r' % t)


def scan_top_for(t, needle):
    """Find needle at nesting depth 0 (respecting literals); return index or None."""
    i = 0
    n = len(t)
    depth = 0
    while i < n:
        c = t[i]
        if c == '"':
            i = _skip_string(t, i)
            continue
        if c == "'":
            e = _char_lit_end(t, i)
            if e is not None:
                i = e
                continue
        if depth == 0 and t.startswith(needle, i):
            return i
        if c in '([{':
            depth += 1
        elif c in ')]}':
            depth -= 1
        elif c == '<':
            depth += 1
        elif c == '>' and not (i > 0 and t[i - 1] in '-='):
            depth -= 1
        i += 1
    return None


def _cast_kind_start(rest):
    # rest ends with "(Kind)" or "(Kind(a, b))"; find the space before the top-level last paren group
    depth = 0
    i = len(rest) - 1
    while i >= 0:
        c = rest[i]
        if c == ')':
            depth += 1
        elif c == '(':
            depth -= 1
            if depth == 0:
                return i - 1
        i -= 1
    raise MirSyntaxError('cast kind: %r' % rest)


def _find_top_brace(t):
    """Index of a top-level '{' that opens a struct body (preceded by a space), not a {closure@..} type."""
    i = 0
    n = len(t)
    depth = 0
    while i < n:
        c = t[i]
        if c == '"':
            i = _skip_string(t, i)
            continue
        if c == "'":
            e = _char_lit_end(t, i)
            if e is not None:
                i = e
                continue
        if c == '{':
            if depth == 0 and i > 0 and t[i - 1] == ' ' and not t.startswith('{closure', i) and not t.startswith('{constant', i):
                return i
            depth += 1
        elif c in '([':
            depth += 1
        elif c in ')]}':
            depth -= 1
        elif c == '<':
            depth += 1
        elif c == '>' and not (i > 0 and t[i - 1] in '-='):
            depth -= 1
        i += 1
    return None


def _find_last_top_paren(t):
    """t ends with ')': return index of the matching '(' if that group is at top level, else None."""
    i = 0
    n = len(t)
    depth = 0
    last = None
    while i < n:
        c = t[i]
        if c == '"':
            i = _skip_string(t, i)
            continue
        if c == 'b' and i + 1 < n and t[i + 1] == '"' and (i == 0 or not (t[i - 1].isalnum() or t[i - 1] == '_')):
            i = _skip_string(t, i + 1)
            continue
        if c == "'":
            e = _char_lit_end(t, i)
            if e is not None:
                i = e
                continue
        if c == '(':
            if depth == 0:
                last = i
            depth += 1
        elif c in '[{':
            depth += 1
        elif c in ')]}':
            depth -= 1
            if c == ')' and depth == 0 and i == n - 1:
                return last
        elif c == '<':
            depth += 1
        elif c == '>' and not (i > 0 and t[i - 1] in '-='):
            depth -= 1
        i += 1
    return None


# ---------------------------------------------------------------------------
# statements & terminators

_TARGETS_RE = re.compile(r' -> (\[[^\[\]]*\]|unwind [a-z() ]+|bb\d+)$')


def _parse_targets(txt):
    """'[return: bb1, unwind continue]' -> dict"""
    d = {}
    if txt.startswith('['):
        for part in txt[1:-1].split(', '):
            k, _, v = part.partition(': ')
            if not _:
                # 'unwind continue'
                k, _, v = part.partition(' ')
            d[k] = v
    elif txt.startswith('unwind'):
        d['unwind'] = txt[len('unwind '):]
    else:
        d['return'] = txt
    return d


def _bb(v):
    if v is None:
        return None
    m = re.match(r'^bb(\d+)$', v)
    return int(m.group(1)) if m else None


def parse_statement_or_terminator(line):
    """line has no leading/trailing whitespace and ends with ';'."""
    assert line.endswith(';'), line
    t = line[:-1]
    if t == 'return':
        return Term('return')
    if t == 'unreachable':
        return Term('unreachable')
    if t == 'resume':
        return Term('resume')
    if t.startswith('goto -> '):
        return Term('goto', target=_bb(t[len('goto -> '):]))
    if t.startswith('switchInt('):
        m = _TARGETS_RE.search(t)
        op = parse_operand(t[len('switchInt('):m.start() - 1])
        targets = []
        otherwise = None
        for part in m.group(1)[1:-1].split(', '):
            k, _, v = part.partition(': ')
            if k == 'otherwise':
                otherwise = _bb(v)
            else:
                targets.append((int(k), _bb(v)))
        return Term('switch', op=op, targets=targets, otherwise=otherwise)
    if t.startswith('drop('):
        m = _TARGETS_RE.search(t)
        pl, j = parse_place(t, 5)
        d = _parse_targets(m.group(1))
        return Term('drop', place=pl, target=_bb(d.get('return')), unwind=d.get('unwind'))
    if t.startswith('assert('):
        m = _TARGETS_RE.search(t)
        inner = t[len('assert('):m.start() - 1]
        parts = split_top(inner)
        c = parts[0]
        expected = True
        if c.startswith('!'):
            expected = False
            c = c[1:]
        d = _parse_targets(m.group(1))
        return Term('assert', cond=parse_operand(c), expected=expected, msg=parts[1] if len(parts) > 1 else '',
                    args=[p for p in parts[2:]], target=_bb(d.get('success')), unwind=d.get('unwind'))
    if t.startswith(('StorageLive(', 'StorageDead(', 'FakeRead(', 'PlaceMention(', 'AscribeUserType(', 'Coverage', 'nop', 'ConstEvalCounter', 'Retag(', 'BackwardIncompatibleDropHint(')):
        return Stmt('nop', text=t)
    if t.startswith('discriminant(') and ') = ' in t:
        pl, j = parse_place(t, len('discriminant('))
        if t[j:j + 4] == ') = ':
            return Stmt('setdiscr', place=pl, rv=int(t[j + 4:]))
    # assignment or call
    pl, j = parse_place(t, 0)
    if t[j:j + 3] != ' = ':
        raise MirSyntaxError('statement: %r' % t)
    rhs = t[j + 3:]
    m = _TARGETS_RE.search(rhs)
    if m and rhs[:m.start()].endswith(')') and not rhs.startswith(('copy ', 'move ', 'const ', '&')):
        body = rhs[:m.start()]
        p = _find_last_top_paren(body)
        if p is None:
            raise MirSyntaxError('call: %r' % t)
        func = body[:p].strip()
        args = [parse_operand(a) for a in split_top(body[p + 1:-1])]
        d = _parse_targets(m.group(1))
        return Term('call', func=func, args=args, dest=pl, target=_bb(d.get('return')), unwind=d.get('unwind'), text=t)
    return Stmt('assign', place=pl, rv=parse_rvalue(rhs), text=t)


_LET_RE = re.compile(r'^let (mut )?_(\d+): (.*);$')
_DEBUG_RE = re.compile(r'^debug (\S+) => (.*);$')
_BB_RE = re.compile(r'^bb(\d+)( \(cleanup\))?: \{$')


def _parse_header(fn):
    h = fn.header
    if fn.is_const:
        # const NAME: TY = {
        return
    # fn NAME(_1: T, _2: U) -> R {
    # find the param list: last top-level paren group before ' -> ' or ' {'
    body = h[3:].rstrip()
    assert body.endswith('{'), h
    body = body[:-1].rstrip()
    # return type
    ret = '()'
    k = _find_sig_arrow(body)
    if k is not None:
        ret = body[k + 4:].strip()
        body = body[:k]
    p = _find_last_top_paren(body)
    params = split_top(body[p + 1:-1])
    for prm in params:
        m = re.match(r'^_(\d+): (.*)$', prm)
        if not m:
            raise MirSyntaxError('param %r in %r' % (prm, h))
        fn.params.append((int(m.group(1)), m.group(2)))
        fn.locals[int(m.group(1))] = m.group(2)
    fn.ret_ty = ret


def _find_sig_arrow(body):
    # the ' -> ' following the top-level parameter list
    i = 0
    n = len(body)
    depth = 0
    last = None
    while i < n:
        c = body[i]
        if c in '([{':
            depth += 1
        elif c in ')]}':
            depth -= 1
        elif c == '<':
            depth += 1
        elif c == '>' and not (i > 0 and body[i - 1] in '-='):
            depth -= 1
        elif depth == 0 and body.startswith(' -> ', i) and i > 0 and body[i - 1] == ')':
            last = i
            break
        i += 1
    return last


def _parse_fn_body(fn):
    _parse_header(fn)
    cur = None
    for raw in fn.raw_lines:
        line = raw.strip()
        if not line or line == '}':
            continue
        if line.startswith('scope ') and line.endswith('{'):
            continue
        m = _LET_RE.match(line)
        if m:
            fn.locals[int(m.group(2))] = m.group(3)
            continue
        m = _DEBUG_RE.match(line)
        if m:
            fn.debug[m.group(1)] = m.group(2)
            continue
        m = _BB_RE.match(line)
        if m:
            cur = Block()
            cur.cleanup = bool(m.group(2))
            fn.blocks[int(m.group(1))] = cur
            continue
        if cur is None:
            raise MirSyntaxError('line outside block in %s: %r' % (fn.name, line))
        if cur.cleanup:
            # cleanup blocks are never executed by the engine (panics end the path)
            continue
        # a call that never returns: `_5 = f(..) -> unwind continue;` or `-> bbN`
        node = parse_statement_or_terminator(line)
        if isinstance(node, Term):
            cur.term = node
        else:
            cur.stmts.append(node)


# ---------------------------------------------------------------------------
# module level

_FN_HDR = re.compile(r'^fn (.*)$')
_CONST_HDR = re.compile(r'^(?:const|static) (.*)$')


def _fn_name_from_header(h):
    body = h[3:].rstrip()
    body = body[:-1].rstrip()
    k = _find_sig_arrow(body)
    if k is not None:
        body = body[:k]
    p = _find_last_top_paren(body)
    return body[:p].strip()


class Module:
    def __init__(self, text, crate):
        self.crate = crate
        self.fns = {}        # def name -> Fn  (duplicates get '#2' suffix)
        self.consts = {}     # def name -> Fn (const body)
        self.closures_by_loc = {}
        self.static_allocs = {}     # alloc id -> name of the static item it holds
        for mm in re.finditer(r'^(alloc\d+) \(static: ([^,)]+)', text, re.M):
            self.static_allocs[mm.group(1)] = mm.group(2).strip()
        self._split(text)

    def _split(self, text):
        lines = text.split('\n')
        i = 0
        n = len(lines)
        while i < n:
            l = lines[i]
            if l.startswith('fn ') and l.rstrip().endswith('{'):
                j = i + 1
                while j < n and lines[j] != '}':
                    j += 1
                name = _fn_name_from_header(l)
                fn = Fn(name, l, lines[i + 1:j])
                if name in self.fns:
                    k = 2
                    while '%s#%d' % (name, k) in self.fns:
                        k += 1
                    name = '%s#%d' % (name, k)
                    fn.name = name
                self.fns[name] = fn
                i = j + 1
                continue
            m = re.match(r'^const (\S+): (\S+) = const (.+);$', l)
            if m:
                # a literal constant dumped on one line: `const NAME: f32 = const 0.6f32;`  -> a body that returns the literal
                name = m.group(1)
                fn = Fn(name, l, ['    let mut _0: %s;' % m.group(2), '', '    bb0: {', '        _0 = const %s;' % m.group(3), '        return;', '    }'], is_const=True)
                fn.ret_ty = m.group(2)
                self.consts[name] = fn
                i += 1
                continue
            m = re.match(r'^(?:const|static(?: mut)?) (.*): (.*) = \{$', l)
            if m:
                j = i + 1
                while j < n and lines[j] != '}':
                    j += 1
                name = m.group(1)
                fn = Fn(name, l, lines[i + 1:j], is_const=True)
                fn.ret_ty = m.group(2)
                self.consts[name] = fn
                i = j + 1
                continue
            i += 1
        # closures by location
        for name, fn in self.fns.items():
            if '{closure#' in name.rsplit('::', 1)[-1]:
                m = re.search(r'\{closure@([^}]*)\}', fn.header.split('(', 1)[1] if '(' in fn.header else '')
                m = re.search(r'_1: (?:&mut |&)?\{closure@([^}]*)\}', fn.header)
                if m:
                    self.closures_by_loc[m.group(1)] = fn


def load(path, crate):
    with open(path) as f:
        return Module(f.read(), crate)
