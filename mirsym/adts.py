"""Struct / enum layout information (field order, variant order) read from Rust sources.

MIR text addresses fields by index and variants by name/discriminant while
aggregates are built by field *name*, so the encoder needs declaration order.
It is read from the current sources on every run (typstyle's own crates from
/repo, typst-syntax & friends from the vendored registry copy).
"""
import glob
import os
import re

REPO = os.environ.get('VERIF_REPO', '/repo')


def _strip_comments(src):
    src = re.sub(r'//[^\n]*', '', src)
    src = re.sub(r'/\*.*?\*/', '', src, flags=re.S)
    return src


def _match_brace(s, i, open_c='{', close_c='}'):
    depth = 0
    n = len(s)
    while i < n:
        c = s[i]
        if c == open_c:
            depth += 1
        elif c == close_c:
            depth -= 1
            if depth == 0:
                return i
        i += 1
    raise ValueError('unbalanced')


def _split_top(s):
    out = []
    depth = 0
    cur = []
    for i, c in enumerate(s):
        if c in '([{<':
            depth += 1
        elif c in ')]}':
            depth -= 1
        elif c == '>' and not (i > 0 and s[i - 1] in '-='):
            depth -= 1
        if c == ',' and depth == 0:
            out.append(''.join(cur).strip())
            cur = []
        else:
            cur.append(c)
    t = ''.join(cur).strip()
    if t:
        out.append(t)
    return out


def _strip_attrs(s):
    # remove #[...] attributes (possibly nested brackets)
    out = []
    i = 0
    n = len(s)
    while i < n:
        if s[i] == '#' and i + 1 < n and s[i + 1] == '[':
            j = _match_brace(s, i + 1, '[', ']')
            i = j + 1
            continue
        out.append(s[i])
        i += 1
    return ''.join(out)


class Adts:
    def __init__(self):
        self.structs = {}   # name -> [field names]  (tuple structs: ['0','1',..])
        self.struct_field_tys = {}
        self.enums = {}     # name -> [(variant, kind, [field names], discr)]

    def scan_file(self, path):
        try:
            src = open(path, encoding='utf-8').read()
        except OSError:
            return
        src = _strip_comments(src)
        for m in re.finditer(r'\b(struct|enum)\s+([A-Za-z_][A-Za-z0-9_]*)', src):
            kind, name = m.group(1), m.group(2)
            i = m.end()
            # skip generics / where clause up to '{', '(' or ';'
            depth = 0
            n = len(src)
            while i < n:
                c = src[i]
                if c == '<':
                    depth += 1
                elif c == '>' and src[i - 1] not in '-=':
                    depth -= 1
                elif depth == 0 and c in '{(;':
                    break
                i += 1
            if i >= n:
                continue
            if kind == 'struct':
                if src[i] == '{':
                    j = _match_brace(src, i)
                    body = _strip_attrs(src[i + 1:j])
                    names = []
                    tys = []
                    for part in _split_top(body):
                        mm = re.match(r'^(?:pub(?:\([a-z ]+\))?\s+)?([A-Za-z_][A-Za-z0-9_]*)\s*:\s*(.*)$', part, flags=re.S)
                        if mm:
                            names.append(mm.group(1))
                            tys.append(mm.group(2).strip())
                    self.structs.setdefault(name, names)
                    self.struct_field_tys.setdefault(name, tys)
                elif src[i] == '(':
                    j = _match_brace(src, i, '(', ')')
                    body = _strip_attrs(src[i + 1:j])
                    parts = _split_top(body)
                    self.structs.setdefault(name, [str(k) for k in range(len(parts))])
                else:
                    self.structs.setdefault(name, [])
            else:
                if src[i] != '{':
                    continue
                j = _match_brace(src, i)
                body = _strip_attrs(src[i + 1:j])
                variants = []
                nextd = 0
                for part in _split_top(body):
                    mm = re.match(r'^([A-Za-z_][A-Za-z0-9_]*)\s*(.*)$', part, flags=re.S)
                    if not mm:
                        continue
                    vname, rest = mm.group(1), mm.group(2).strip()
                    fields = []
                    vkind = 'unit'
                    if rest.startswith('('):
                        k = _match_brace(rest, 0, '(', ')')
                        fields = [str(x) for x in range(len(_split_top(rest[1:k])))]
                        vkind = 'tuple'
                        rest = rest[k + 1:].strip()
                    elif rest.startswith('{'):
                        k = _match_brace(rest, 0)
                        for fp in _split_top(rest[1:k]):
                            fm = re.match(r'^(?:pub\s+)?([A-Za-z_][A-Za-z0-9_]*)\s*:', fp)
                            if fm:
                                fields.append(fm.group(1))
                        vkind = 'struct'
                        rest = rest[k + 1:].strip()
                    if rest.startswith('='):
                        try:
                            nextd = int(rest[1:].strip().replace('_', ''), 0)
                        except ValueError:
                            pass
                    variants.append((vname, vkind, fields, nextd))
                    nextd += 1
                if name in self.enums and [v[0] for v in self.enums[name]] != [v[0] for v in variants]:
                    # same name defined twice (function-local enums): keep both
                    k = 2
                    while '%s#%d' % (name, k) in self.enums:
                        k += 1
                    self.enums['%s#%d' % (name, k)] = variants
                else:
                    self.enums.setdefault(name, variants)

    # -- queries -----------------------------------------------------------
    def variant_index(self, enum, variant):
        for i, v in enumerate(self.enums[enum]):
            if v[0] == variant:
                return i
        raise KeyError('%s::%s' % (enum, variant))

    def variant_discr(self, enum, variant):
        for v in self.enums[enum]:
            if v[0] == variant:
                return v[3]
        raise KeyError('%s::%s' % (enum, variant))

    def variant_by_discr(self, enum, d):
        for v in self.enums[enum]:
            if v[3] == d:
                return v
        return None

    def resolve_enum(self, name, variant):
        """name of the enum definition called `name` that has `variant` (function-local enums may share a name)"""
        if name in self.enums and any(v[0] == variant for v in self.enums[name]):
            return name
        k = 2
        while '%s#%d' % (name, k) in self.enums:
            alt = '%s#%d' % (name, k)
            if any(v[0] == variant for v in self.enums[alt]):
                return alt
            k += 1
        return None

    def is_c_like(self, enum):
        return all(v[1] == 'unit' for v in self.enums[enum])

    def find_enum_of_variant(self, variant, hint=None):
        cands = [e for e, vs in self.enums.items() if any(v[0] == variant for v in vs)]
        if hint and hint in cands:
            return hint
        if len(cands) == 1:
            return cands[0]
        return None


_BUILTIN_ENUMS = {
    'Option': [('None', 'unit', [], 0), ('Some', 'tuple', ['0'], 1)],
    'Result': [('Ok', 'tuple', ['0'], 0), ('Err', 'tuple', ['0'], 1)],
    'ControlFlow': [('Continue', 'tuple', ['0'], 0), ('Break', 'tuple', ['0'], 1)],
    'Ordering': [('Less', 'unit', [], -1), ('Equal', 'unit', [], 0), ('Greater', 'unit', [], 1)],
    'Position': [('First', 'unit', [], 0), ('Middle', 'unit', [], 1), ('Last', 'unit', [], 2), ('Only', 'unit', [], 3)],
}
_BUILTIN_STRUCTS = {
    'Range': ['start', 'end'],
    'RangeTo': ['end'],
    'RangeFrom': ['start'],
    'RangeFull': [],
    'RangeInclusive': ['start', 'end', 'exhausted'],
    'RangeToInclusive': ['end'],
}


def _registry_dir(prefix):
    pats = glob.glob(os.path.expanduser('~/.cargo/registry/src/*/%s' % prefix))
    return sorted(pats)[-1] if pats else None


def load_adts(lock_versions=None):
    a = Adts()
    for f in sorted(glob.glob(os.path.join(REPO, 'crates/typstyle-core/src/**/*.rs'), recursive=True)):
        a.scan_file(f)
    for f in sorted(glob.glob(os.path.join(REPO, 'crates/typstyle/src/**/*.rs'), recursive=True)):
        a.scan_file(f)
    ts = _registry_dir('typst-syntax-0.13.1')
    if ts:
        for f in ('kind.rs', 'ast.rs', 'node.rs'):
            a.scan_file(os.path.join(ts, 'src', f))
    lg = _registry_dir('log-0.4.26') or _registry_dir('log-0.4.*')
    if lg:
        a.scan_file(os.path.join(lg, 'src', 'lib.rs'))
    for k, v in _BUILTIN_ENUMS.items():
        a.enums[k] = v
    for k, v in _BUILTIN_STRUCTS.items():
        a.structs[k] = v
    return a
