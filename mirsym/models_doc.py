"""Document algebra mirroring the `pretty` constructors typstyle uses.

The renderer itself stays uninterpreted; observers below (`atoms`, `nests`, `layout_at`) interpret a
Doc under pretty's documented semantics: a group is laid out flat as a whole or broken at its own
level; flat_alt(a, b) shows a when broken and b when flat; nest adds to the indentation used after a
hardline; align sets the indentation to the current column; text is emitted verbatim.
"""
from .values import *
from .machine import EncoderGap, head_ident
from .models_std import STD, reg, Str, OStr, _s, drain, get_iter, into_iter


class Doc:
    __slots__ = ('k', 'a', 'b')

    def __init__(self, k, a=None, b=None):
        self.k = k
        self.a = a
        self.b = b

    def mir_field(self, i):
        # DocBuilder(allocator, doc): field 0 is the arena
        return Opaque('arena', ()) if i == 0 else self

    def __repr__(self):
        if self.k in ('nil', 'hardline'):
            return self.k
        if self.k == 'text':
            return 'text(%r)' % (self.a,)
        if self.k == 'cat':
            return '%r + %r' % (self.a, self.b)
        if self.b is None:
            return '%s(%r)' % (self.k, self.a)
        return '%s(%r, %r)' % (self.k, self.a, self.b)


NIL = Doc('nil')
HARDLINE = Doc('hardline')


def text(s):
    if isinstance(s, str):
        s = Str.lit(s)
    return Doc('text', s)


SPACE = text(' ')
LINE = Doc('flat_alt', HARDLINE, SPACE)      # pretty: line()  = hardline.flat_alt(" ")
LINE_ = Doc('flat_alt', HARDLINE, NIL)       # pretty: line_() = hardline.flat_alt(nil)
SOFTLINE = Doc('group', LINE)
SOFTLINE_ = Doc('group', LINE_)


def cat(a, b):
    if a.k == 'nil':
        return b
    if b.k == 'nil':
        return a
    return Doc('cat', a, b)


def opaque_doc(tag, deps=()):
    return Doc('opaque', tag, tuple(deps))


def to_doc(m, v):
    x = m.load(v) if isinstance(v, Ref) else v
    if isinstance(x, Doc):
        return x
    if isinstance(x, (Str, OStr)):
        return Doc('text', x)
    if isinstance(x, Agg) and x.ty == 'Option':
        return to_doc(m, x.fields[0]) if x.variant == 'Some' else NIL
    if isinstance(x, Opaque) and x.tag == 'doc':
        return Doc('opaque', 'doc', x.deps)
    raise EncoderGap('not a document: %r' % (x,))


# -- allocator ------------------------------------------------------------------------

def _const(d):
    def f(m, a, ci):
        return d
    return f


for _n, _d in (('nil', NIL), ('hardline', HARDLINE), ('space', SPACE), ('line', LINE), ('line_', LINE_),
               ('softline', SOFTLINE), ('softline_', SOFTLINE_)):
    STD.table['DocAllocator::' + _n] = _const(_d)


@reg('DocAllocator::text', 'DocAllocator::as_string')
def doc_text(m, a, ci):
    return Doc('text', _s(m, a[1]))


@reg('DocAllocator::concat')
def doc_concat(m, a, ci):
    d = NIL
    for x in drain(m, get_iter(m, into_iter(m, [a[1]], ci))):
        d = cat(d, to_doc(m, x))
    return d


@reg('DocAllocator::intersperse')
def doc_intersperse(m, a, ci):
    sep = to_doc(m, a[2])
    d = NIL
    for i, x in enumerate(drain(m, get_iter(m, into_iter(m, [a[1]], ci)))):
        if i:
            d = cat(d, sep)
        d = cat(d, to_doc(m, x))
    return d


@reg('Arena::new')
def arena_new(m, a, ci):
    return Opaque('arena', ())


# -- builder ---------------------------------------------------------------------------

@reg('DocBuilder.Add::add', 'DocBuilder::append')
def doc_add(m, a, ci):
    return cat(to_doc(m, a[0]), to_doc(m, a[1]))


@reg('DocBuilder.AddAssign::add_assign')
def doc_add_assign(m, a, ci):
    m.store(a[0], cat(to_doc(m, a[0]), to_doc(m, a[1])))
    return UNIT


@reg('DocBuilder::group')
def doc_group(m, a, ci):
    return Doc('group', to_doc(m, a[0]))


@reg('DocBuilder::nest')
def doc_nest(m, a, ci):
    return Doc('nest', a[1], to_doc(m, a[0]))


@reg('DocBuilder::align')
def doc_align(m, a, ci):
    return Doc('align', to_doc(m, a[0]))


@reg('DocBuilder::hang')
def doc_hang(m, a, ci):
    # pretty: hang(n) = nest(n).align()
    return Doc('align', Doc('nest', a[1], to_doc(m, a[0])))


@reg('DocBuilder::indent')
def doc_indent(m, a, ci):
    raise EncoderGap('DocBuilder::indent')


@reg('DocBuilder::flat_alt')
def doc_flat_alt(m, a, ci):
    return Doc('flat_alt', to_doc(m, a[0]), to_doc(m, a[1]))


@reg('DocBuilder::enclose')
def doc_enclose(m, a, ci):
    return cat(cat(to_doc(m, a[1]), to_doc(m, a[0])), to_doc(m, a[2]))


def _wrap(l, r):
    def f(m, a, ci):
        return cat(cat(text(l), to_doc(m, a[0])), text(r))
    return f


STD.table['DocBuilder::parens'] = _wrap('(', ')')
STD.table['DocBuilder::brackets'] = _wrap('[', ']')
STD.table['DocBuilder::braces'] = _wrap('{', '}')
STD.table['DocBuilder::angles'] = _wrap('<', '>')


@reg('DocBuilder.Clone::clone')
def doc_clone(m, a, ci):
    return to_doc(m, a[0])


@reg('DocBuilder.Deref::deref')
def doc_deref(m, a, ci):
    return to_doc(m, a[0])


@reg('Doc::pretty', 'DocBuilder::pretty')
def doc_pretty(m, a, ci):
    return Opaque('render', (to_doc(m, a[0]), a[1]))


@reg('PrettyFmt.ToString::to_string')
def prettyfmt_to_string(m, a, ci):
    r = m.load(a[0]) if isinstance(a[0], Ref) else a[0]
    return OStr(('render', r))


# -- observers ---------------------------------------------------------------------------

def atoms(d, flat, out=None):
    """sequence of atoms when every group is laid out flat (flat=True) or every group broken (flat=False).

    atoms: ('t', Str|OStr) | ('nl',) | ('o', tag, deps)"""
    if out is None:
        out = []
    k = d.k
    if k == 'nil':
        pass
    elif k == 'text':
        out.append(('t', d.a))
    elif k == 'hardline':
        out.append(('nl',))
    elif k == 'cat':
        atoms(d.a, flat, out)
        atoms(d.b, flat, out)
    elif k == 'group':
        atoms(d.a, flat, out)
    elif k == 'nest':
        atoms(d.b, flat, out)
    elif k == 'align':
        atoms(d.a, flat, out)
    elif k == 'flat_alt':
        atoms(d.b if flat else d.a, flat, out)
    elif k == 'opaque':
        out.append(('o', d.a, d.b))
    else:
        raise EncoderGap('atoms of %s' % k)
    return out


def nest_offsets(d, out=None):
    """all nest offsets occurring in a doc"""
    if out is None:
        out = []
    if d.k == 'nest':
        out.append(d.a)
        nest_offsets(d.b, out)
    elif d.k in ('cat', 'flat_alt'):
        nest_offsets(d.a, out)
        nest_offsets(d.b, out)
    elif d.k in ('group', 'align'):
        nest_offsets(d.a, out)
    return out


def indent_nest_offsets(d, out=None):
    """nest offsets that are indentation: hang(n) = align(nest(n, ..)) of comment.rs is alignment relative to the comment start and is skipped"""
    if out is None:
        out = []
    if d.k == 'nest':
        out.append(d.a)
        indent_nest_offsets(d.b, out)
    elif d.k in ('cat', 'flat_alt'):
        indent_nest_offsets(d.a, out)
        indent_nest_offsets(d.b, out)
    elif d.k == 'group':
        indent_nest_offsets(d.a, out)
    elif d.k == 'align':
        inner = d.a
        if inner.k == 'nest':
            inner = inner.b
        indent_nest_offsets(inner, out)
    return out


def layout_broken(d, col, indent=0):
    """Lay a doc out with every group broken, starting at column `col` (python int) with the given
    indentation.  Text atoms must be Str; columns are counted in code points (the texts laid out by
    the harnesses that use this have symbolic content but the observer only needs positions of
    hardlines).  Returns (list of lines as lists of pieces, end column) where a piece is a Str or
    ('indent', n)."""
    lines = [[]]
    state = {'col': col}

    def go(d, indent):
        k = d.k
        if k == 'nil':
            return
        if k == 'text':
            lines[-1].append(d.a)
            state['col'] += len(d.a)
        elif k == 'hardline':
            lines.append([('indent', indent)])
            state['col'] = indent
        elif k == 'cat':
            go(d.a, indent)
            go(d.b, indent)
        elif k == 'group':
            go(d.a, indent)
        elif k == 'nest':
            n = simp(d.a)
            if is_sym(n):
                raise EncoderGap('layout with symbolic nest')
            n = to_signed(n, 64)
            go(d.b, indent + n)
        elif k == 'align':
            go(d.a, state['col'])
        elif k == 'flat_alt':
            go(d.a, indent)
        else:
            raise EncoderGap('layout of %s' % k)
    go(d, indent)
    return lines, state['col']
