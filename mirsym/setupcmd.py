"""./check setup — build everything offline and validate the contract tables natively."""
import sys
import time

from . import session, explore
from .models_std import WS_RANGES


def main():
    S = session.Session('SETUP', 'quick', 0)
    try:
        S.core  # forces the MIR dump
        d = S.driver
        r = d.call('ping')
        assert r == ['ok'], r
        # White_Space table == char::is_whitespace on all scalar values
        r = d.call('ws_table')
        real = sorted(int(x, 16) for x in r[1:])
        mine = sorted(c for a, b in WS_RANGES for c in range(a, b + 1))
        if real != mine:
            print('SETUP FAILED: White_Space table differs from char::is_whitespace: %r vs %r' % (real, mine))
            return 1
        from .models_typst import TYPST_NEWLINES
        r = d.call('newline_table')
        if sorted(int(x, 16) for x in r[1:]) != sorted(TYPST_NEWLINES):
            print('SETUP FAILED: typst_syntax::is_newline table differs from the contract: %r' % (r[1:],))
            return 1
        S.cli
        d.close()
    except explore.Inconclusive as e:
        print('SETUP FAILED: %s' % e)
        return 1
    print('setup ok in %.1fs' % (time.time() - S.t0))
    return 0
