"""./check replay <file> — print a recorded counterexample and re-run its native reproduction"""
import json
import sys

from . import session


def main(rest):
    if not rest:
        print('usage: ./check replay <file>')
        return 2
    d = json.load(open(rest[0]))
    print(json.dumps(d, indent=1, ensure_ascii=True))
    rp = d.get('replay') or {}
    api = rp.get('api')
    S = session.Session('REPLAY', 'quick', 0)
    if api and api.get('api', '').startswith('Typstyle::format_content'):
        r = S.driver.call('format', session.hexs(api['source']), api.get('width', 80), api.get('tab', 2), api.get('reorder', 0))
        print('native format_content ->', r[0], repr(session.unhexs(r[1])) if len(r) > 1 else '')
    S.driver.close()
    return 0
