"""Symbolic interpreter for parsed MIR."""
import re
import z3

from . import mirparse
from .mirparse import Place, Operand, Const, Rvalue, Stmt, Term, scan_balanced, split_top
from .values import *
from .explore import Inconclusive, PathEnd, Panic, Ambient


class EncoderGap(Inconclusive):
    pass


# ---------------------------------------------------------------------------
# ambient state: everything a format call could observe besides its arguments (C17)

_INTERIOR = re.compile(r'\b(Atomic(?:[A-Z][A-Za-z0-9]*)?|Mutex|RwLock|RefCell|Cell|UnsafeCell|OnceLock|OnceCell|LazyLock|LazyCell|Once|LocalKey|LazyStorage|Condvar|Barrier)\b')
_AMBIENT_CALLS = [
    ('thread-local', re.compile(r'\bLocalKey::<')),
    ('clock', re.compile(r'\b(Instant|SystemTime)::now\b|\bUNIX_EPOCH\b')),
    ('environment', re.compile(r'\benv::(var|var_os|vars|vars_os|args|args_os|current_dir|current_exe|temp_dir|home_dir)\b')),
    ('thread-identity', re.compile(r'\bthread::current\b|\bThreadId\b|\bprocess::id\b|\bavailable_parallelism\b|\bthread::(spawn|scope|Builder)\b')),
    ('address', re.compile(r'::(addr|expose_provenance|expose_addr)\b')),
    ('random', re.compile(r'\bRandomState::new\b|\bgetrandom\b|\brand::|\bthread_rng\b|\bfastrand\b|\bDefaultHasher::new\b')),
    ('lazy-static', re.compile(r'<(std::sync::)?(LazyLock|Lazy)<.*> as (std::ops::)?Deref>::deref')),
]
_HASH_ITER = re.compile(r'\b(HashMap|HashSet)::<(.*)>::(iter|iter_mut|keys|values|values_mut|into_keys|into_values|drain|retain|extract_if)\b'
                        r'|<&?(mut )?(std::collections::)?(hash_map::|hash_set::)?(HashMap|HashSet)<(.*)> as (std::iter::)?IntoIterator>::into_iter')


def ambient_of(func):
    """classify a foreign call that reads or writes state outside the call's arguments"""
    for kind, rx in _AMBIENT_CALLS:
        if rx.search(func):
            return kind
    m = _HASH_ITER.search(func)
    if m and 'FxBuildHasher' not in func and 'BuildHasherDefault' not in func:
        return 'hash-order'
    return None


def gap_or_ambient(func, what='foreign call'):
    k = ambient_of(func)
    if k:
        return Ambient(k, func[:200])
    return EncoderGap('no contract for %s `%s`' % (what, func))


# ---------------------------------------------------------------------------
# type text helpers


def strip_ref(ty):
    ty = ty.strip()
    changed = True
    while changed:
        changed = False
        for p in ('&mut ', '&', '*const ', '*mut '):
            if ty.startswith(p):
                ty = ty[len(p):].strip()
                changed = True
                m = re.match(r"^'[A-Za-z_][A-Za-z0-9_]*\s+", ty)
                if m:
                    ty = ty[m.end():]
                if ty.startswith('mut '):
                    ty = ty[4:]
                break
    return ty


def deref_ty(ty):
    ty = ty.strip()
    for p in ('&mut ', '&', '*const ', '*mut '):
        if ty.startswith(p):
            ty = ty[len(p):].strip()
            m = re.match(r"^'[A-Za-z_][A-Za-z0-9_]*\s+", ty)
            if m:
                ty = ty[m.end():]
            if ty.startswith('mut '):
                ty = ty[4:]
            return ty
    m = re.match(r'^(?:std::boxed::)?Box<(.*)>$', ty)
    if m:
        return m.group(1)
    return ty


def split_path(p):
    """split a rust path at top-level '::'"""
    out = []
    i = 0
    start = 0
    n = len(p)
    depth = 0
    while i < n:
        c = p[i]
        if c in '([{':
            depth += 1
        elif c in ')]}':
            depth -= 1
        elif c == '<':
            depth += 1
        elif c == '>' and not (i > 0 and p[i - 1] in '-='):
            depth -= 1
        elif c == ':' and depth == 0 and p.startswith('::', i):
            out.append(p[start:i])
            i += 2
            start = i
            continue
        i += 1
    out.append(p[start:])
    return out


_HI = {}


def head_ident(ty):
    r = _HI.get(ty)
    if r is None:
        r = _HI[ty] = _head_ident(ty)
    return r


def _head_ident(ty):
    """normalised head identifier of a type: std::option::Option<&str> -> Option"""
    ty = strip_ref(ty)
    if ty.startswith('{closure@'):
        return 'closure@' + ty[len('{closure@'):-1]
    if ty.startswith('('):
        return 'tuple' if ty != '()' else 'unit'
    if ty.startswith('['):
        return 'array' if ';' in ty else 'slice'
    if ty.startswith('dyn '):
        return 'dyn'
    if ty.startswith('impl '):
        return 'impl'
    if ty.startswith('fn('):
        return 'fnptr'
    segs = [s for s in split_path(ty) if not s.startswith('<') or s.startswith('<impl')]
    last = segs[-1] if segs else ty
    m = re.match(r'^([A-Za-z_][A-Za-z0-9_]*)', last)
    return m.group(1) if m else last


def generic_args(text):
    """generic args of the last path segment: 'a::b::<X, Y>' -> ['X','Y'] ; 'Option<&str>' -> ['&str']"""
    text = text.strip()
    if not text.endswith('>'):
        return []
    depth = 0
    i = len(text) - 1
    while i >= 0:
        c = text[i]
        if c == '>' and not (i > 0 and text[i - 1] in '-='):
            depth += 1
        elif c == '<':
            depth -= 1
            if depth == 0:
                return split_top(text[i + 1:-1])
        i -= 1
    return []


def int_info(ty):
    ty = ty.strip()
    if ty in INT_BITS:
        return INT_BITS[ty], ty in SIGNED
    if ty == 'bool':
        return 1, False
    return None


# ---------------------------------------------------------------------------


class CallInfo:
    __slots__ = ('text', 'key', 'T', 'trait', 'method', 'generics', 'dest_ty', 'caller', 'arg_tys')

    def __init__(self, text):
        self.text = text
        self.T = None
        self.trait = None
        self.method = None
        self.generics = []
        self.dest_ty = None
        self.caller = None
        self.arg_tys = None


_PCN = {}


def parse_call_name(text):
    t = _PCN.get(text)
    if t is None:
        t = _PCN[text] = _parse_call_name(text)
    ci = CallInfo(text)
    ci.T, ci.trait, ci.method, ci.generics = t.T, t.trait, t.method, t.generics
    return ci


def _parse_call_name(text):
    ci = CallInfo(text)
    t = text.strip()
    if t.startswith('<'):
        e = scan_balanced(t, 1, '>') if False else _match_angle(t, 0)
        inner = t[1:e]
        rest = t[e + 1:]
        k = mirparse.scan_top_for(inner, ' as ')
        if k is not None:
            ci.T = inner[:k].strip()
            ci.trait = inner[k + 4:].strip()
        else:
            ci.T = inner.strip()
        segs = [s for s in split_path(rest) if s]
    else:
        segs = split_path(t)
    # trailing generic segment(s)
    while len(segs) > 1 and segs[-1].startswith('<'):
        ci.generics = split_top(segs[-1][1:-1])
        segs = segs[:-1]
    ci.method = segs[-1] if segs else None
    segs = segs[:-1]
    if ci.T is None and segs:
        # look for an <impl ..> segment
        for idx_ in reversed(range(len(segs))):
            s = segs[idx_]
            if s.startswith('<impl'):
                # `Peekable::<impl Iterator<..>>::peek`: an `impl Trait` generic argument of the type before it, not an impl block
                if idx_ > 0 and re.match(r'^[A-Z][A-Za-z0-9_]*$', segs[idx_ - 1]) and mirparse.scan_top_for(s[1:-1], ' for ') is None \
                        and not s.startswith('<impl at '):
                    continue
                inner = s[1:-1][len('impl'):].strip()
                k = mirparse.scan_top_for(inner, ' for ')
                if k is not None:
                    ci.trait = inner[:k].strip()
                    ci.T = inner[k + 5:].strip()
                else:
                    ci.T = inner
                break
        else:
            tsegs = [s for s in segs if not s.startswith('<')]
            if tsegs:
                ci.T = '::'.join(tsegs)
    return ci


def _match_angle(t, i):
    depth = 0
    n = len(t)
    while i < n:
        c = t[i]
        if c in '<':
            depth += 1
        elif c == '>' and not (i > 0 and t[i - 1] in '-='):
            depth -= 1
            if depth == 0:
                return i
        elif c in '([{':
            # skip nested group
            j = scan_balanced(t, i + 1, '')
            i = j
            continue
        i += 1
    raise mirparse.MirSyntaxError('angle: %r' % t)


class DefIndex:
    """index of in-crate function definitions for resolving call paths"""

    def __init__(self, module, repo):
        self.module = module
        for _f in list(module.fns.values()) + list(module.consts.values()):
            _f.module = module
        module.defindex = self
        self.by_method = {}
        self.cache = {}
        self.pty_cache = {}
        self._src = {}
        self.repo = repo
        for name, fn in module.fns.items():
            segs = split_path(name)
            if any(s.startswith('{closure#') or s.startswith('{constant#') for s in segs):
                continue
            method = segs[-1].split('#')[0]
            T = None
            trait = None
            for s in segs[:-1]:
                if s.startswith('<impl at '):
                    T, trait = self._impl_info(s)
            self.by_method.setdefault(method, []).append((T, trait, fn, segs))

    def _impl_info(self, seg):
        m = re.match(r'^<impl at (.*?):(\d+):(\d+): (\d+):(\d+)>$', seg)
        if not m:
            return None, None
        path, l1, c1, l2, c2 = m.group(1), int(m.group(2)), int(m.group(3)), int(m.group(4)), int(m.group(5))
        lines = self._lines(path)
        if not lines or l1 > len(lines):
            return None, None
        line = lines[l1 - 1]
        if line.lstrip().startswith('#[') and 'derive' in line:
            trait = line[c1 - 1:c2 - 1]
            # find the type name below
            for k in range(l1, min(l1 + 12, len(lines))):
                mm = re.search(r'\b(?:struct|enum)\s+([A-Za-z_][A-Za-z0-9_]*)', lines[k])
                if mm:
                    return mm.group(1), trait
            return None, trait
        text = ' '.join(lines[l1 - 1:l2])
        mm = re.match(r'^\s*(?:unsafe\s+)?impl(?:<[^{]*?>)?\s+(.*?)\s*(?:\{|where|$)', text)
        if not mm:
            return None, None
        body = mm.group(1)
        k = mirparse.scan_top_for(body, ' for ')
        if k is not None:
            return head_ident(body[k + 5:]), head_ident(body[:k])
        return head_ident(body), None

    def _lines(self, path):
        if path not in self._src:
            try:
                import os
                self._src[path] = open(os.path.join(self.repo, path), encoding='utf-8').read().split('\n')
            except OSError:
                self._src[path] = None
        return self._src[path]

    def resolve(self, ci):
        cands = self.by_method.get(ci.method)
        if not cands:
            return None
        T = head_ident(ci.T) if ci.T else None
        trait = head_ident(ci.trait) if ci.trait else None
        if T is None:
            c2 = [c for c in cands if c[0] is None]
            if len(c2) == 1:
                return c2[0][2]
            if len(c2) > 1:
                raise EncoderGap('ambiguous free fn %s' % ci.text)
            return None
        c2 = [c for c in cands if c[0] == T]
        if trait is not None:
            c3 = [c for c in c2 if c[1] == trait]
            if c3:
                c2 = c3
            else:
                c2 = []
        else:
            c3 = [c for c in c2 if c[1] is None]
            if c3:
                c2 = c3
        if len(c2) > 1 and len({c[2].name.split('#')[0] for c in c2}) == 1:
            c2 = c2[:1]      # `const fn`s are dumped twice (const-eval and runtime bodies)
        if len(c2) == 1:
            return c2[0][2]
        if len(c2) > 1:
            raise EncoderGap('ambiguous method %s -> %s' % (ci.text, [c[2].name for c in c2]))
        # module-qualified free function: utils::trim_range
        if ci.trait is None:
            c2 = [c for c in cands if c[0] is None]
            tl = ci.T.split('::')[-1] if ci.T else None
            if len(c2) == 1 and tl and tl[0].islower() and not ci.T.startswith(('std', 'core', 'alloc')):
                return c2[0][2]
        return None


class Frame:
    __slots__ = ('fn', 'locals', 'name', 'steps')

    def __init__(self, fn):
        self.fn = fn
        self.locals = {}
        self.name = fn.name.rsplit('::', 1)[-1]
        self.steps = 0


class Machine:
    max_depth = 60          # call depth bound (harnesses over deep trees raise it)

    def __init__(self, module, adts, contracts, ctx, repo='/repo', overrides=None, max_steps=200000, defindex=None, extra_modules=()):
        self.extra_modules = list(extra_modules)   # modules whose functions may be entered when neither the calling crate nor a contract knows the callee
        self.module = module
        self.adts = adts
        self.contracts = contracts
        self.ctx = ctx
        self.overrides = overrides or {}
        self.defs = defindex or DefIndex(module, repo)
        self.heap = Heap()
        self.max_steps = max_steps
        self.steps = 0
        self.used_fns = {}        # name -> sha
        self.used_contracts = {}  # key -> count
        self.depth = 0
        self.stack = []
        self.trace = None
        self.generic_stack = []     # instantiations of type parameters of the generic functions being executed
        self._pty = self.defs.pty_cache

    # -- memory -------------------------------------------------------------
    stack = None
    ambient_label = None     # set by the C17 session: Ambient at the outermost call becomes an obligation
    case = None              # harness: what is being executed (source text, ...) for the report
    case_model = None        # harness: model -> dict (configuration of the counterexample)

    def load(self, ref):
        if not isinstance(ref, Ref):
            return ref
        try:
            v = ref.frame.locals[ref.local]
        except KeyError:
            v = self._zst_local(ref.frame, ref.local)
        for p in ref.proj:
            v = self._project(v, p)
        return v

    def _zst_local(self, frame, n):
        """zero-sized locals (capture-less closures, unit structs) are never initialised by MIR statements"""
        ty = getattr(frame, 'fn', None) and frame.fn.locals.get(n)
        if ty and ty.startswith('{closure@'):
            v = Agg(head_ident(ty), None, (), ())
            frame.locals[n] = v
            return v
        if ty == '()':
            frame.locals[n] = UNIT
            return UNIT
        raise EncoderGap('read of unassigned _%s in %s' % (n, getattr(getattr(frame, 'fn', None), 'name', '?')))

    def store(self, ref, val):
        root = ref.frame.locals.get(ref.local)
        ref.frame.locals[ref.local] = self._update(root, ref.proj, val)

    def _project(self, v, p):
        k = p[0]
        if k == 'field':
            if isinstance(v, Agg):
                return v.fields[p[1]]
            if hasattr(v, 'mir_field'):
                return v.mir_field(p[1])
            raise EncoderGap('field projection on %r' % (v,))
        if k == 'downcast':
            if isinstance(v, Agg) and v.variant is not None and v.variant != p[1]:
                raise EncoderGap('downcast %s of %r' % (p[1], v))
            return v
        if k == 'elem':
            if isinstance(v, tuple):
                return v[p[1]]
            if hasattr(v, 'elem'):
                return v.elem(p[1])
            from .models_std import seq_view
            return seq_view(self, v)[0](p[1])
        if k == 'deref':
            return self.load(v)
        raise EncoderGap('projection %r' % (p,))

    def _update(self, v, proj, val):
        if not proj:
            return val
        p = proj[0]
        k = p[0]
        if k == 'field':
            if isinstance(v, Agg):
                return v.with_field(p[1], self._update(v.fields[p[1]], proj[1:], val))
            if hasattr(v, 'with_mir_field'):
                return v.with_mir_field(p[1], self._update(v.mir_field(p[1]), proj[1:], val))
            raise EncoderGap('field update on %r' % (v,))
        if k == 'downcast':
            return self._update(v, proj[1:], val)
        if k == 'elem':
            return v.with_elem(p[1], self._update(v.elem(p[1]), proj[1:], val))
        if k == 'deref':
            inner = v
            if isinstance(inner, Ref):
                self.store(Ref(inner.frame, inner.local, inner.proj + tuple(proj[1:])), val)
                return v
            return self._update(v, proj[1:], val)
        raise EncoderGap('update projection %r' % (p,))

    def place_ref(self, frame, place):
        """resolve a place to a Ref (following derefs)"""
        cur = Ref(frame, place.local, ())
        for p in place.proj:
            k = p[0]
            if k == 'deref':
                v = self.load(cur)
                if isinstance(v, Ref):
                    cur = v
                else:
                    # by-value model reference (e.g. &str, &SyntaxNode): stays in place
                    cur = Ref(cur.frame, cur.local, cur.proj + (('deref',),))
            elif k == 'field':
                cur = Ref(cur.frame, cur.local, cur.proj + (('field', p[1]),))
            elif k == 'downcast':
                cur = Ref(cur.frame, cur.local, cur.proj + (('downcast', p[1]),))
            elif k == 'index':
                idx = frame.locals[p[1]]
                cur = self._index_ref(cur, idx)
            elif k == 'constindex':
                if p[2]:
                    raise EncoderGap('constindex from end')
                cur = self._index_ref(cur, p[1])
            else:
                raise EncoderGap('place projection %r' % (p,))
        return cur

    def _index_ref(self, cur, idx):
        v = self.load(cur)
        idx = simp(idx)
        if is_sym(idx):
            raise EncoderGap('symbolic index')
        if isinstance(v, Agg):  # array
            return Ref(cur.frame, cur.local, cur.proj + (('field', idx),))
        return Ref(cur.frame, cur.local, cur.proj + (('elem', idx),))

    def read_place(self, frame, place):
        if not place.proj:
            try:
                return frame.locals[place.local]
            except KeyError:
                return self._zst_local(frame, place.local)
        return self.load(self.place_ref(frame, place))

    def write_place(self, frame, place, val):
        if not place.proj:
            frame.locals[place.local] = val
            return
        self.store(self.place_ref(frame, place), val)

    # -- types ----------------------------------------------------------------
    def place_ty(self, fn, place):
        if not place.proj:
            return fn.locals[place.local]
        key = (id(fn), id(place))
        r = self._pty.get(key)
        if r is None:
            r = self._pty[key] = self._place_ty(fn, place)
        return r

    def _place_ty(self, fn, place):
        ty = fn.locals[place.local]
        for p in place.proj:
            k = p[0]
            if k == 'deref':
                ty = deref_ty(ty)
            elif k == 'field':
                ty = p[2]
            elif k in ('index', 'constindex'):
                t = strip_ref(ty)
                if t.startswith('['):
                    inner = t[1:-1]
                    j = scan_balanced(inner, 0, ';')
                    ty = inner[:j].strip()
                else:
                    ty = '?'
        return ty

    def operand_ty(self, fn, op):
        if op.kind == 'const':
            c = op.const
            if c.kind == 'int':
                return c.ty
            if c.kind == 'bool':
                return 'bool'
            if c.kind == 'char':
                return 'char'
            if c.kind == 'str':
                return '&str'
            return '?'
        return self.place_ty(fn, op.place)

    # -- constants ------------------------------------------------------------
    def eval_const(self, frame, c, dest_ty=None):
        k = c.kind
        if k == 'int':
            return norm(c.val, INT_BITS[c.ty])
        if k == 'bool':
            return c.val
        if k == 'char':
            return c.val
        if k == 'unit':
            return UNIT
        if k == 'str':
            return self.contracts.make_str(c.val)
        if k == 'bytes':
            return Opaque('bytes', (bytes(c.val),))
        if k == 'float':
            # IEEE value of the literal (z3 floating-point theory)
            return z3.FPVal(c.val, z3.Float32() if c.ty == 'f32' else z3.Float64())
        if k == 'zst':
            ty = c.ty
            if ty.startswith('{closure@'):
                return Agg(head_ident(ty), None, (), ())
            return FnItem(ty)
        if k == 'fnitem':
            return FnItem(c.text)
        if k == 'promoted':
            base = frame.fn.name
            name = '%s::promoted[%d]' % (base, c.val)
            cf = getattr(frame.fn, 'module', self.module).consts.get(name)
            if cf is None:
                raise EncoderGap('promoted const %s not found' % name)
            return self.eval_const_body(cf)
        if k == 'path':
            return self.eval_const_path(frame, c.text, dest_ty)
        raise EncoderGap('const kind %s' % k)

    def eval_const_body(self, cf):
        cf.ensure_parsed()
        fr = Frame(cf)
        fr.locals = {}
        v = self.run_blocks(fr)
        # promoted consts return references to their own locals; keep the frame alive
        return v

    def eval_const_path(self, frame, text, dest_ty):
        ms = re.match(r'^\{alloc\d+: (.*)\}$', text)
        if ms:
            # reference to a static item.  A static that can change (interior mutability, lazily initialised, `static mut`) is state that
            # outlives the call.
            if _INTERIOR.search(ms.group(1)) or ms.group(1).startswith(('*mut', '&mut')):
                raise Ambient('static', ms.group(1)[:160])
            # an immutable static with plain data: evaluate its initialiser like a constant
            mod = getattr(frame.fn, 'module', self.module)
            an = re.match(r'^\{(alloc\d+):', text).group(1)
            name = getattr(mod, 'static_allocs', {}).get(an)
            if name is not None:
                for cname, cf in mod.consts.items():
                    if cname == name or cname.endswith('::' + name) or name.endswith('::' + cname):
                        if cf.header.startswith('static mut'):
                            raise Ambient('static', '%s (static mut)' % name)
                        v = self.eval_const_body(cf)
                        return v if isinstance(v, Ref) else self.heap.alloc(v)
            raise EncoderGap('reference to static allocation %s' % text[:120])
        h = self.contracts.const_path(self, text, dest_ty)
        if h is not None:
            return h
        # in-crate named const
        for name, cf in getattr(frame.fn, 'module', self.module).consts.items():
            if name == text or name.endswith('::' + text) or text.endswith('::' + name):
                if _INTERIOR.search(getattr(cf, 'ret_ty', '') or '') or cf.header.startswith('static mut'):
                    raise Ambient('thread-local' if 'LocalKey' in cf.ret_ty else 'static', '%s: %s' % (name, cf.ret_ty[:120]))
                return self.eval_const_body(cf)
        # unit variant / unit struct used as const
        segs = [s for s in split_path(text) if not s.startswith('<')]
        if len(segs) >= 2 and segs[-2] in self.adts.enums:
            return self.make_variant(segs[-2], segs[-1], ())
        if segs[-1] in self.adts.structs and not self.adts.structs[segs[-1]]:
            return Agg(segs[-1], None, (), ())
        raise EncoderGap('const path %s' % text)

    # -- aggregates -----------------------------------------------------------
    def make_variant(self, enum, variant, fields, names=None):
        if enum in self.adts.enums and self.adts.is_c_like(enum):
            bits = 8 if enum == 'SyntaxKind' else 64
            return CEnum(enum, norm(self.adts.variant_discr(enum, variant), bits), bits)
        return Agg(enum, variant, fields, names)

    def discriminant(self, v):
        if isinstance(v, CEnum):
            return v.disc
        if isinstance(v, Agg) and v.variant is not None:
            return norm(self.adts.variant_discr(v.ty, v.variant), 64)
        if hasattr(v, 'discriminant'):
            return v.discriminant(self)
        raise EncoderGap('discriminant of %r' % (v,))

    def eval_adt(self, frame, rv, dest_ty):
        kind = rv.kind
        path = rv.a
        if path.startswith('{closure@'):
            loc = head_ident(path)
            if kind == 'adt_struct':
                names = tuple(n for n, _ in rv.b)
                vals = [self.eval_operand(frame, o) for _, o in rv.b]
                return Agg(loc, None, vals, names)
            return Agg(loc, None, (), ())
        segs = [s for s in split_path(path) if not (s.startswith('<') and not s.startswith('<impl'))]
        segs = [re.match(r'^[A-Za-z_][A-Za-z0-9_]*', s).group(0) if re.match(r'^[A-Za-z_]', s) else s for s in segs]
        last = segs[-1]
        prev = segs[-2] if len(segs) >= 2 else None
        if prev is not None and prev in self.adts.enums:
            prev = self.adts.resolve_enum(prev, last) or prev
        dest_head = head_ident(dest_ty) if dest_ty else None
        if dest_head is not None and dest_head in self.adts.enums:
            dest_head = self.adts.resolve_enum(dest_head, last) or dest_head
        if kind == 'adt_struct':
            fields = rv.b
            if prev in self.adts.enums and any(v[0] == last for v in self.adts.enums[prev]):
                order = [v for v in self.adts.enums[prev] if v[0] == last][0][2]
                d = {n: self.eval_operand(frame, o) for n, o in fields}
                return Agg(prev, last, [d[n] for n in order], tuple(order))
            if last in self.adts.structs:
                order = self.adts.structs[last]
                d = {n: self.eval_operand(frame, o) for n, o in fields}
                if set(d) != set(order):
                    raise EncoderGap('struct %s fields %s vs %s' % (last, sorted(d), order))
                return Agg(last, None, [d[n] for n in order], tuple(order))
            raise EncoderGap('unknown struct %s' % path)
        if kind == 'adt_tuple':
            vals = [self.eval_operand(frame, o) for o in rv.b]
            if prev in self.adts.enums and any(v[0] == last for v in self.adts.enums[prev]):
                return Agg(prev, last, vals)
            if dest_head in self.adts.enums and any(v[0] == last for v in self.adts.enums[dest_head]):
                return Agg(dest_head, last, vals)
            if last in self.adts.structs:
                return Agg(last, None, vals, tuple(self.adts.structs[last]))
            # tuple struct of a foreign crate (e.g. std::cmp::Reverse): keep it as a plain aggregate
            return Agg(last, None, vals)
        # unit
        if prev in self.adts.enums and any(v[0] == last for v in self.adts.enums[prev]):
            return self.make_variant(prev, last, ())
        if dest_head in self.adts.enums and any(v[0] == last for v in self.adts.enums[dest_head]):
            return self.make_variant(dest_head, last, ())
        if last in self.adts.structs:
            return Agg(last, None, (), ())
        h = self.contracts.unit_value(self, path, dest_ty)
        if h is not None:
            return h
        raise EncoderGap('unknown unit adt %s (dest %s)' % (path, dest_ty))

    # -- operands & rvalues -----------------------------------------------------
    def eval_operand(self, frame, op, dest_ty=None):
        if op.kind == 'const':
            return self.eval_const(frame, op.const, dest_ty)
        return self.read_place(frame, op.place)

    def eval_rvalue(self, frame, rv, dest_ty):
        k = rv.kind
        fn = frame.fn
        if k == 'use':
            return self.eval_operand(frame, rv.a, dest_ty)
        if k in ('ref', 'rawptr'):
            pl = rv.a
            # &(*p) re-borrow of a by-value model reference yields the value itself
            r = self.place_ref(frame, pl)
            if r.proj and r.proj[-1] == ('deref',):
                return self.load(Ref(r.frame, r.local, r.proj[:-1]))
            r.mut = bool(rv.b)
            return r
        if k == 'discr':
            v = self.read_place(frame, rv.a)
            if hasattr(v, 'force'):
                # lazily typed enum over a node of symbolic kind: inspecting the variant forks over the kinds (one path per kind)
                v = v.force(self)
                self.store(self.place_ref(frame, rv.a), v)
            d = self.discriminant(v)
            info = int_info(dest_ty) if dest_ty else None
            if info and not is_sym(d):
                return norm(d, info[0])
            if info and is_sym(d) and d.size() != info[0]:
                d = z3.ZeroExt(info[0] - d.size(), d) if d.size() < info[0] else z3.Extract(info[0] - 1, 0, d)
            return d
        if k == 'binop':
            return self.eval_binop(frame, rv.a, rv.b, rv.c)
        if k == 'unop':
            a = self.eval_operand(frame, rv.b)
            if rv.a == 'Not':
                ty = self.operand_ty(fn, rv.b)
                if ty == 'bool' or isinstance(a, bool) or (is_sym(a) and z3.is_bool(a)):
                    return b_not(a)
                bits = int_info(ty)[0]
                if is_sym(a):
                    return simp(~a)
                return norm(~a, bits)
            if rv.a == 'Neg':
                bits = int_info(self.operand_ty(fn, rv.b))[0]
                if is_sym(a):
                    return simp(-a)
                return norm(-a, bits)
            if rv.a == 'PtrMetadata':
                return self.contracts.ptr_metadata(self, a)
            raise EncoderGap('unop %s' % rv.a)
        if k == 'cast':
            return self.eval_cast(frame, rv.a, rv.b, rv.c)
        if k == 'tuple':
            return Agg('tuple', None, [self.eval_operand(frame, o) for o in rv.a])
        if k == 'array':
            return Agg('array', None, [self.eval_operand(frame, o) for o in rv.a])
        if k == 'repeat':
            m = re.match(r'^(?:const )?(\d+)(?:_usize)?$', rv.b)
            if not m:
                raise EncoderGap('repeat count %s' % rv.b)
            v = self.eval_operand(frame, rv.a)
            return Agg('array', None, [v] * int(m.group(1)))
        if k in ('adt_struct', 'adt_tuple', 'adt_unit'):
            return self.eval_adt(frame, rv, dest_ty)
        if k == 'len':
            v = self.read_place(frame, rv.a)
            return self.contracts.seq_len(self, v)
        raise EncoderGap('rvalue kind %s' % k)

    def eval_binop(self, frame, op, oa, ob):
        fn = frame.fn
        a = self.eval_operand(frame, oa)
        b = self.eval_operand(frame, ob)
        ty = self.operand_ty(fn, oa)
        if ty == '?':
            ty = self.operand_ty(fn, ob)
        if isinstance(a, CEnum):
            a = a.disc
        if isinstance(b, CEnum):
            b = b.disc
        if ty == 'bool' or isinstance(a, bool) or isinstance(b, bool):
            a = as_bool(a)
            b = as_bool(b)
            if op == 'Eq':
                return i_eq(a, b)
            if op == 'Ne':
                return b_not(i_eq(a, b))
            if op == 'BitAnd':
                return b_and(a, b)
            if op == 'BitOr':
                return b_or(a, b)
            if op == 'BitXor':
                return b_not(i_eq(a, b))
            raise EncoderGap('bool binop %s' % op)
        if ty in ('f32', 'f64') or z3.is_fp(a) or z3.is_fp(b):
            rm = z3.RNE()
            if op == 'Mul':
                return z3.fpMul(rm, a, b)
            if op == 'Add':
                return z3.fpAdd(rm, a, b)
            if op == 'Sub':
                return z3.fpSub(rm, a, b)
            if op == 'Div':
                return z3.fpDiv(rm, a, b)
            if op in ('Lt', 'Le', 'Gt', 'Ge', 'Eq', 'Ne'):
                f = {'Lt': z3.fpLT, 'Le': z3.fpLEQ, 'Gt': z3.fpGT, 'Ge': z3.fpGEQ, 'Eq': z3.fpEQ, 'Ne': z3.fpNEQ}[op]
                return f(a, b)
            raise EncoderGap('float binop %s' % op)
        info = int_info(ty)
        if info is None:
            raise EncoderGap('binop %s on type %s' % (op, ty))
        bits, signed = info
        sym = is_sym(a) or is_sym(b)
        if not sym:
            a = norm(a, bits)
            b = norm(b, bits)
            sa = to_signed(a, bits) if signed else a
            sb = to_signed(b, bits) if signed else b
            if op in ('Add', 'AddUnchecked'):
                return norm(a + b, bits)
            if op in ('Sub', 'SubUnchecked'):
                return norm(a - b, bits)
            if op in ('Mul', 'MulUnchecked'):
                return norm(a * b, bits)
            if op == 'AddWithOverflow':
                r = sa + sb
                return tup(norm(r, bits), not self._in_range(r, bits, signed))
            if op == 'SubWithOverflow':
                r = sa - sb
                return tup(norm(r, bits), not self._in_range(r, bits, signed))
            if op == 'MulWithOverflow':
                r = sa * sb
                return tup(norm(r, bits), not self._in_range(r, bits, signed))
            if op == 'Eq':
                return a == b
            if op == 'Ne':
                return a != b
            if op == 'Lt':
                return sa < sb
            if op == 'Le':
                return sa <= sb
            if op == 'Gt':
                return sa > sb
            if op == 'Ge':
                return sa >= sb
            if op == 'BitAnd':
                return a & b
            if op == 'BitOr':
                return a | b
            if op == 'BitXor':
                return a ^ b
            if op == 'Div':
                if sb == 0:
                    raise EncoderGap('div by zero not guarded')
                q = abs(sa) // abs(sb)
                return norm(q if (sa < 0) == (sb < 0) else -q, bits)
            if op == 'Rem':
                q = abs(sa) // abs(sb)
                q = q if (sa < 0) == (sb < 0) else -q
                return norm(sa - q * sb, bits)
            if op in ('Shl', 'ShlUnchecked'):
                return norm(a << (b % bits), bits)
            if op in ('Shr', 'ShrUnchecked'):
                return norm((sa if signed else a) >> (b % bits), bits)
            raise EncoderGap('binop %s' % op)
        A = bv(a, bits)
        B = bv(b, bits)
        if op in ('Add', 'AddUnchecked'):
            return lite(A + B)
        if op in ('Sub', 'SubUnchecked'):
            return lite(A - B)
        if op in ('Mul', 'MulUnchecked'):
            return lite(A * B)
        if op == 'AddWithOverflow':
            ovf = z3.Not(z3.BVAddNoOverflow(A, B, signed)) if not signed else z3.Not(z3.And(z3.BVAddNoOverflow(A, B, True), z3.BVAddNoUnderflow(A, B)))
            return tup(lite(A + B), lite(ovf))
        if op == 'SubWithOverflow':
            ovf = z3.Not(z3.BVSubNoUnderflow(A, B, signed)) if not signed else z3.Not(z3.And(z3.BVSubNoOverflow(A, B), z3.BVSubNoUnderflow(A, B, True)))
            return tup(lite(A - B), lite(ovf))
        if op == 'MulWithOverflow':
            ovf = z3.Not(z3.BVMulNoOverflow(A, B, signed)) if not signed else z3.Not(z3.And(z3.BVMulNoOverflow(A, B, True), z3.BVMulNoUnderflow(A, B)))
            return tup(lite(A * B), lite(ovf))
        if op == 'Eq':
            return lite(A == B)
        if op == 'Ne':
            return lite(A != B)
        if op == 'Lt':
            return lite(A < B if signed else z3.ULT(A, B))
        if op == 'Le':
            return lite(A <= B if signed else z3.ULE(A, B))
        if op == 'Gt':
            return lite(A > B if signed else z3.UGT(A, B))
        if op == 'Ge':
            return lite(A >= B if signed else z3.UGE(A, B))
        if op == 'BitAnd':
            return lite(A & B)
        if op == 'BitOr':
            return lite(A | B)
        if op == 'BitXor':
            return lite(A ^ B)
        if op == 'Div':
            return lite(A / B if signed else z3.UDiv(A, B))
        if op == 'Rem':
            return lite(z3.SRem(A, B) if signed else z3.URem(A, B))
        if op in ('Shl', 'ShlUnchecked'):
            return lite(A << B)
        if op in ('Shr', 'ShrUnchecked'):
            return lite(A >> B if signed else z3.LShR(A, B))
        raise EncoderGap('symbolic binop %s' % op)

    @staticmethod
    def _in_range(r, bits, signed):
        if signed:
            return -(1 << (bits - 1)) <= r < (1 << (bits - 1))
        return 0 <= r < (1 << bits)

    def eval_cast(self, frame, op, ty, kind):
        v = self.eval_operand(frame, op)
        if kind == 'IntToInt':
            sty = self.operand_ty(frame.fn, op)
            if isinstance(v, CEnum):
                sbits, ssigned = v.bits, False
                v = v.disc
            else:
                si = int_info(sty)
                if si is None:
                    raise EncoderGap('IntToInt from %s' % sty)
                sbits, ssigned = si
            dbits, _ = int_info(ty)
            if isinstance(v, bool):
                v = int(v)
            if is_sym(v) and z3.is_bool(v):
                v = z3.If(v, z3.BitVecVal(1, sbits), z3.BitVecVal(0, sbits))
            if not is_sym(v):
                v = norm(v, sbits)
                if ssigned:
                    v = to_signed(v, sbits)
                return norm(v, dbits)
            if dbits == sbits:
                return v
            if dbits < sbits:
                return simp(z3.Extract(dbits - 1, 0, v))
            return simp(z3.SignExt(dbits - sbits, v) if ssigned else z3.ZeroExt(dbits - sbits, v))
        if kind.startswith('PointerCoercion'):
            if 'ClosureFnPointer' in kind or 'ReifyFnPointer' in kind:
                return v
            return v  # unsizing: arrays / concrete types behave as their own dyn / slice view
        if kind in ('IntToFloat', 'FloatToInt', 'FloatToFloat'):
            return self.contracts.float_cast(self, v, self.operand_ty(frame.fn, op), ty, kind)
        if kind in ('Transmute', 'PtrToPtr'):
            return v
        if kind.startswith('PointerExposeProvenance') or kind.startswith('PointerExposeAddress'):
            raise Ambient('address', 'pointer converted to an integer (%s)' % ty)
        raise EncoderGap('cast kind %s' % kind)

    # -- execution ---------------------------------------------------------------
    def call_fn(self, fn, args):
        fn.ensure_parsed()
        self.used_fns[fn.name] = fn.sha
        fr = Frame(fn)
        if len(args) != len(fn.params):
            # closure called through Fn* traits: (env, (a, b)) -> spread
            if len(fn.params) >= 1 and len(args) == 2 and isinstance(args[1], Agg) and args[1].ty == 'tuple' and len(args[1].fields) == len(fn.params) - 1:
                args = [args[0]] + list(args[1].fields)
            else:
                raise EncoderGap('arity mismatch calling %s with %d args' % (fn.name, len(args)))
        for (n, ty), v in zip(fn.params, args):
            fr.locals[n] = v
        self.depth += 1
        if self.depth > self.max_depth:
            raise EncoderGap('recursion depth (unbounded recursion?) at %s' % fn.name)
        self.stack.append(fn.name)
        try:
            return self.run_blocks(fr)
        except Ambient as a:
            if self.depth == 1 and self.ambient_label:
                # C17: reaching state outside the call's arguments is the violation candidate of this path
                info = dict(self.case or {}, ambient=a.kind, detail=a.detail, reached_in=getattr(a, 'where', None))
                self.ctx.must_hold(False, '%s:%s' % (self.ambient_label, a.kind), lambda mdl, info=info: dict(info, **(self.case_model(mdl) if self.case_model else {})))
                raise PathEnd()
            if not hasattr(a, 'where'):
                a.where = list(self.stack[-4:])
            raise
        finally:
            self.stack.pop()
            self.depth -= 1

    def run_blocks(self, fr):
        fn = fr.fn
        bb = 0
        while True:
            blk = fn.blocks[bb]
            for st in blk.stmts:
                self.steps += 1
                if st.kind == 'assign':
                    dty = self.place_ty(fn, st.place) if True else None
                    v = self.eval_rvalue(fr, st.rv, dty)
                    self.write_place(fr, st.place, v)
                elif st.kind == 'setdiscr':
                    raise EncoderGap('SetDiscriminant')
            if self.steps > self.max_steps:
                raise Inconclusive('step budget exhausted in %s (unwinding bound)' % fn.name)
            t = blk.term
            if t is None:
                raise EncoderGap('block without terminator bb%d in %s' % (bb, fn.name))
            k = t.kind
            if k == 'goto':
                bb = t.target
            elif k == 'return':
                return fr.locals.get(0, UNIT)
            elif k == 'switch':
                bb = self.do_switch(fr, t)
            elif k == 'call':
                dty = self.place_ty(fn, t.dest)
                args = [self.eval_operand(fr, a) for a in t.args]
                v = self.call_path(t.func, args, fr, dty, t)
                if t.target is None:
                    raise Panic('diverging call %s returned' % t.func)
                self.write_place(fr, t.dest, v)
                bb = t.target
            elif k == 'drop':
                bb = t.target
            elif k == 'assert':
                c = as_bool(self.eval_operand(fr, t.cond))
                ok_cond = c if t.expected else b_not(c)
                if not self.ctx.branch(ok_cond):
                    raise Panic('assert failed: %s in %s' % (t.msg, fn.name))
                bb = t.target
            elif k == 'unreachable':
                raise EncoderGap('reached `unreachable` in %s bb%d' % (fn.name, bb))
            else:
                raise EncoderGap('terminator %s' % k)

    def do_switch(self, fr, t):
        v = self.eval_operand(fr, t.op)
        if isinstance(v, CEnum):
            v = v.disc
        if isinstance(v, bool):
            v = int(v)
        if not is_sym(v):
            ty = self.operand_ty(fr.fn, t.op)
            info = int_info(ty)
            for val, bbn in t.targets:
                if info and norm(val, info[0]) == norm(v, info[0]):
                    return bbn
                if not info and val == v:
                    return bbn
            if t.otherwise is None:
                raise EncoderGap('switch fallthrough')
            return t.otherwise
        merged = self.try_merge_diamond(fr, t, v)
        if merged is not None:
            return merged
        if z3.is_bool(v):
            # targets are 0 / otherwise typically
            conds = []
            dests = []
            for val, bbn in t.targets:
                conds.append(v if val else z3.Not(v))
                dests.append(bbn)
            if t.otherwise is not None:
                rest = [c for c in conds]
                conds.append(z3.Not(z3.Or(*rest)) if rest else True)
                dests.append(t.otherwise)
            return dests[self.ctx.choose(conds)]
        bits = v.size()
        conds = []
        dests = []
        for val, bbn in t.targets:
            conds.append(v == z3.BitVecVal(norm(val, bits), bits))
            dests.append(bbn)
        if t.otherwise is not None:
            conds.append(z3.And(*[z3.Not(c) for c in conds]) if conds else True)
            dests.append(t.otherwise)
        return dests[self.ctx.choose(conds)]

    def try_merge_diamond(self, fr, t, v):
        """switch on a symbolic value whose arms are straight-line constant assignments meeting in one
        join block: execute all arms and merge the assigned locals with ite instead of forking"""
        fn = fr.fn
        dests = [bbn for _, bbn in t.targets]
        if t.otherwise is not None:
            dests.append(t.otherwise)
        join = None
        for bbn in set(dests):
            blk = fn.blocks[bbn]
            if blk.term is None or blk.term.kind != 'goto':
                return None
            if join is None:
                join = blk.term.target
            elif join != blk.term.target:
                return None
            for st in blk.stmts:
                if st.kind != 'assign' or st.place.proj:
                    return None
                rv = st.rv
                if rv.kind == 'use' and rv.a.kind == 'const' and rv.a.const.kind in ('bool', 'int', 'char'):
                    continue
                if rv.kind == 'adt_unit':
                    continue
                return None
        if join is None:
            return None
        # conditions per arm
        if z3.is_bool(v):
            conds = [(v if val else z3.Not(v)) for val, _ in t.targets]
        else:
            bits = v.size()
            conds = [v == z3.BitVecVal(norm(val, bits), bits) for val, _ in t.targets]
        if t.otherwise is not None:
            conds.append(z3.And(*[z3.Not(c) for c in conds]) if conds else z3.BoolVal(True))
        # evaluate arms
        results = []
        for bbn in dests:
            upd = {}
            for st in fn.blocks[bbn].stmts:
                dty = fn.locals[st.place.local]
                val = self.eval_rvalue(fr, st.rv, dty)
                if not (isinstance(val, (int, bool, CEnum)) or is_sym(val)):
                    return None
                upd[st.place.local] = val
            results.append(upd)
        keys = set()
        for u in results:
            keys |= set(u)
        for u in results:
            if set(u) != keys:
                return None
        for k in keys:
            vals = [u[k] for u in results]
            acc = vals[-1]
            for c, val in zip(reversed(conds[:-1]), reversed(vals[:-1])):
                if isinstance(val, CEnum):
                    if not isinstance(acc, CEnum) or acc.ty != val.ty:
                        return None
                    acc = CEnum(val.ty, b_ite(c, bv(val.disc, val.bits), bv(acc.disc, acc.bits)), val.bits)
                else:
                    if isinstance(acc, CEnum):
                        return None
                    acc = b_ite(c, val, acc)
            fr.locals[k] = acc
        return join

    # -- calls -----------------------------------------------------------------
    def call_path(self, func, args, frame, dest_ty, term=None):
        # call through a local holding a fn value:  `move _5(args)`
        m = re.match(r'^(?:move|copy) (_\d+)$', func)
        if m:
            f = frame.locals[int(m.group(1)[1:])]
            return self.call_value(f, args)
        ci = parse_call_name(func)
        ci.dest_ty = dest_ty
        ci.caller = frame
        if term is not None:
            ci.arg_tys = [self.operand_ty(frame.fn, a) for a in term.args]
        # harness overrides by method name / full text
        ov = self.overrides.get(func) or self.overrides.get(ci.method)
        if ov is not None:
            r = ov(self, args, ci)
            if r is not NotImplemented:
                return r
        # closure / fn-trait calls
        if ci.trait and head_ident(ci.trait) in ('Fn', 'FnMut', 'FnOnce') and ci.method in ('call', 'call_mut', 'call_once'):
            if len(args) > 1 and isinstance(args[1], Agg) and args[1].ty == 'tuple':
                spread = list(args[1].fields)
            elif len(args) > 1 and args[1] is UNIT:
                spread = []
            else:
                spread = list(args[1:])
            return self.call_value(args[0], spread)
        defs = getattr(getattr(frame.fn, 'module', self.module), 'defindex', self.defs)
        cached = defs.cache.get(func)
        if cached is None:
            fn = defs.resolve(ci)
            c = None
            if fn is None:
                c = self.contracts.lookup(ci)
                if c is None:
                    for em in self.extra_modules:
                        if em is defs.module:
                            continue
                        fn = em.defindex.resolve(ci)
                        if fn is not None:
                            break
                    if fn is None:
                        raise gap_or_ambient(func)
            cached = defs.cache[func] = (fn, c, getattr(ci, 'key', None))
        fn, c, key = cached
        if fn is not None:
            # explicit instantiation in the call text: f::<A, {closure..}>  ->  first non-lifetime argument instantiates `T`
            tys = [g for g in (ci.generics or []) if not g.startswith("'") and not g.startswith('{closure') and not g.startswith('impl ')]
            if tys and '(_' in fn.header and ' T' in fn.header or (tys and '<T' in fn.header):
                self.generic_stack.append({'T': head_ident(tys[0])})
                try:
                    return self.call_fn(fn, args)
                finally:
                    self.generic_stack.pop()
            return self.call_fn(fn, args)
        # the cache stores the resolution (key); the contract itself comes from this machine's table (harness-local forks)
        c = self.contracts.table.get(key, c)
        if c is None:
            raise gap_or_ambient(func)
        ci.key = key
        self.used_contracts[c.__name__] = self.used_contracts.get(c.__name__, 0) + 1
        try:
            return c(self, args, ci)
        except (TypeError, AttributeError) as e:
            return self.uninterpreted_app(c.__name__, args, dest_ty, e)

    def call_value(self, f, args):
        """call a closure / fn item / python stand-in with already spread args"""
        fv = self.load(f) if isinstance(f, Ref) else f
        if isinstance(fv, PyFn):
            return fv.fn(self, list(args))
        if isinstance(fv, Agg) and fv.ty.startswith('closure@'):
            loc = fv.ty[len('closure@'):]
            cf = self.module.closures_by_loc.get(loc)
            if cf is None:
                for em in self.extra_modules:
                    cf = em.closures_by_loc.get(loc)
                    if cf is not None:
                        break
            if cf is None:
                raise EncoderGap('closure body for %s not found' % loc)
            cf.ensure_parsed()
            pty = cf.params[0][1]
            env = f
            if pty.startswith('&'):
                if not isinstance(f, Ref):
                    env = self.heap.alloc(fv)
            else:
                env = fv
            return self.call_fn(cf, [env] + list(args))
        if isinstance(fv, FnItem):
            ci = parse_call_name(fv.path)
            fn = self.defs.resolve(ci)
            if fn is not None:
                return self.call_fn(fn, list(args))
            # tuple-variant constructor used as a function
            segs = [s for s in split_path(fv.path) if not s.startswith('<')]
            if len(segs) >= 2:
                e = re.match(r'^[A-Za-z_0-9]*', segs[-2]).group(0)
                if e in self.adts.enums and any(v[0] == segs[-1] for v in self.adts.enums[e]):
                    return Agg(e, segs[-1], list(args))
            c = self.contracts.lookup(ci)
            if c is None:
                raise gap_or_ambient(fv.path, 'fn item')
            return c(self, list(args), ci)
        raise EncoderGap('call of non-callable %r' % (fv,))

    def uninterpreted_app(self, name, args, dest_ty, exc):
        """a string contract applied to an opaque string: the result is an uninterpreted function of the arguments"""
        from .models_std import OStr
        vals = []
        opaque = False
        def terms_of(v):
            nonlocal opaque
            if isinstance(v, Ref):
                v = self.load(v)
            if isinstance(v, OStr):
                opaque = True
                return v.term
            if hasattr(v, 'items') and isinstance(getattr(v, 'items'), tuple):
                return tuple(terms_of(x) for x in v.items)
            if isinstance(v, tuple):
                return tuple(terms_of(x) for x in v)
            return repr(v)
        for a in args:
            vals.append(terms_of(a))
        if not opaque:
            raise exc
        h = head_ident(dest_ty) if dest_ty else ''
        if h in ('str', 'String', 'EcoString'):
            return OStr(('app', name, tuple(vals)))
        key = '%s(%r)' % (name, tuple(vals))
        if h == 'bool':
            return z3.Bool('uf_' + key)
        if h in INT_BITS:
            return z3.BitVec('uf_' + key, INT_BITS[h])
        raise EncoderGap('%s applied to an opaque string (result type %s)' % (name, dest_ty))

    def generic_lookup(self, name):
        for env in reversed(self.generic_stack):
            if name in env:
                return env[name]
        return None

    # -- panics (for contracts) ---------------------------------------------------
    def panic_if(self, cond, msg):
        if self.ctx.branch(cond):
            raise Panic(msg)
