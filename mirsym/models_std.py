"""Contracts (SMT models) for std strings, iterators, containers, Option/Result.

Strings are *path-concrete in length, symbolic in content*: a Str is a tuple
of code points, each a python int or a 32-bit z3 vector constrained to be a
Unicode scalar value.  Byte offsets are prefix sums of utf8len(c).  Operations
whose control flow depends on content fork the path (ctx.branch / choose).
"""
import re
import z3

from .values import *
from .explore import Panic, Inconclusive
from .machine import EncoderGap, head_ident, generic_args, strip_ref


# ---------------------------------------------------------------------------
# character predicates

WS_RANGES = [(0x09, 0x0D), (0x20, 0x20), (0x85, 0x85), (0xA0, 0xA0), (0x1680, 0x1680), (0x2000, 0x200A),
             (0x2028, 0x2029), (0x202F, 0x202F), (0x205F, 0x205F), (0x3000, 0x3000)]


_WS_CACHE = {}


def is_ws(c):
    if not is_sym(c):
        return any(a <= c <= b for a, b in WS_RANGES)
    r = _WS_CACHE.get(c.get_id())
    if r is None:
        r = (_is_ws(c), c)
        _WS_CACHE[c.get_id()] = r
    return r[0]


def _is_ws(c):
    terms = []
    for a, b in WS_RANGES:
        if a == b:
            terms.append(c == z3.BitVecVal(a, 32))
        else:
            terms.append(z3.And(z3.UGE(c, z3.BitVecVal(a, 32)), z3.ULE(c, z3.BitVecVal(b, 32))))
    return z3.Or(*terms)


def valid_scalar(c):
    return z3.And(z3.ULE(c, z3.BitVecVal(0x10FFFF, 32)),
                  z3.Or(z3.ULT(c, z3.BitVecVal(0xD800, 32)), z3.UGT(c, z3.BitVecVal(0xDFFF, 32))))


_U8_CACHE = {}


def utf8len(c):
    if not is_sym(c):
        return 1 if c < 0x80 else 2 if c < 0x800 else 3 if c < 0x10000 else 4
    r = _U8_CACHE.get(c.get_id())
    if r is None:
        r = (_utf8len(c), c)
        _U8_CACHE[c.get_id()] = r
    return r[0]


def _utf8len(c):
    return z3.If(z3.ULT(c, z3.BitVecVal(0x80, 32)), z3.BitVecVal(1, 64),
                 z3.If(z3.ULT(c, z3.BitVecVal(0x800, 32)), z3.BitVecVal(2, 64),
                       z3.If(z3.ULT(c, z3.BitVecVal(0x10000, 32)), z3.BitVecVal(3, 64), z3.BitVecVal(4, 64))))


def c_eq(a, b):
    return i_eq(a, b, 32)


class Str:
    """immutable string value (also used for String contents)"""
    __slots__ = ('chars', '_pre')

    def __init__(self, chars):
        self.chars = tuple(chars)
        self._pre = None

    @staticmethod
    def lit(s):
        return Str([ord(ch) for ch in s])

    def __len__(self):
        return len(self.chars)

    def prefix(self):
        """byte offset of each char boundary: list of len n+1"""
        if self._pre is None:
            pre = [0]
            for c in self.chars:
                pre.append(i_add(pre[-1], utf8len(c)))
            self._pre = pre
        return self._pre

    def byte_len(self):
        return self.prefix()[-1]

    def sub(self, i, j):
        return Str(self.chars[i:j])

    def concat(self, o):
        return Str(self.chars + o.chars)

    def is_concrete(self):
        return all(not is_sym(c) for c in self.chars)

    def concrete(self, model=None):
        out = []
        for c in self.chars:
            if is_sym(c):
                if model is None:
                    raise ValueError('symbolic char')
                v = model.eval(c, model_completion=True).as_long()
            else:
                v = c
            out.append(chr(v))
        return ''.join(out)

    def __repr__(self):
        if self.is_concrete():
            return 'Str(%r)' % self.concrete()
        return 'Str<%d>' % len(self.chars)


class OStr:
    """opaque string: identified by a hashable term; content is not modelled"""
    __slots__ = ('term',)

    def __init__(self, term):
        self.term = term

    def __repr__(self):
        return 'OStr%r' % (self.term,)

    def __eq__(self, o):
        return isinstance(o, OStr) and self.term == o.term

    def __hash__(self):
        return hash(repr(self.term))


def sym_str(ctx, name, n):
    """n fresh symbolic scalar values"""
    cs = []
    for i in range(n):
        c = z3.BitVec('%s_c%d' % (name, i), 32)
        ctx.assume(valid_scalar(c))
        cs.append(c)
    return Str(cs)


def str_eq(a, b):
    if len(a) != len(b):
        return False
    return b_and(*[c_eq(x, y) for x, y in zip(a.chars, b.chars)])


# ---------------------------------------------------------------------------
# iterator framework (lazy, may fork on each next)


class Iter:
    def next(self, m):
        raise NotImplementedError

    def next_back(self, m):
        raise EncoderGap('next_back on %s' % type(self).__name__)

    def clone(self):
        raise EncoderGap('clone of %s' % type(self).__name__)


class ListIter(Iter):
    """iterator over a python list of already materialised items (both ends)"""

    def __init__(self, items):
        self.items = list(items)
        self.i = 0
        self.j = len(self.items)

    def next(self, m):
        if self.i < self.j:
            v = self.items[self.i]
            self.i += 1
            return some(v)
        return NONE

    def next_back(self, m):
        if self.i < self.j:
            self.j -= 1
            return some(self.items[self.j])
        return NONE

    def clone(self):
        c = ListIter(self.items)
        c.i, c.j = self.i, self.j
        return c

    def remaining(self):
        return self.items[self.i:self.j]


class OpaqueIter(Iter):
    """an iterator over pieces of an opaque string (lines / split of a rendering): nothing is known about its items; adapters keep it
    opaque, collecting gives an opaque vector, joining that an opaque string - so a value computed from it differs from the string itself"""

    def __init__(self, term):
        self.term = term

    def clone(self):
        return OpaqueIter(self.term)

    def next(self, m, back=False):
        raise EncoderGap('items of an opaque string (%r)' % (self.term,))

    next_back = next


def _adapter_kinds(it):
    out = []
    while isinstance(it, Adapter):
        out.append(it.kind)
        it = it.inner
    return tuple(out)


def opaque_source(it):
    while isinstance(it, Adapter):
        it = it.inner
    return it if isinstance(it, OpaqueIter) else None


class LinesIter(Iter):
    def __init__(self, s):
        self.s = s
        self.pos = 0

    def clone(self):
        c = LinesIter(self.s)
        c.pos = self.pos
        return c

    def next(self, m):
        s = self.s
        n = len(s)
        if self.pos >= n:
            return NONE
        # find the first LF at or after pos
        j = self.pos
        while j < n:
            if m.ctx.branch(c_eq(s.chars[j], 10)):
                break
            j += 1
        start = self.pos
        if j < n:
            self.pos = j + 1
            end = j
            if end > start and m.ctx.branch(c_eq(s.chars[end - 1], 13)):
                end -= 1
            return some(s.sub(start, end))
        self.pos = n
        return some(s.sub(start, n))


class CharsIter(Iter):
    def __init__(self, s):
        self.s = s
        self.i = 0
        self.j = len(s)

    def clone(self):
        c = CharsIter(self.s)
        c.i, c.j = self.i, self.j
        return c

    def next(self, m):
        if self.i < self.j:
            c = self.s.chars[self.i]
            self.i += 1
            return some(c)
        return NONE

    def next_back(self, m):
        if self.i < self.j:
            self.j -= 1
            return some(self.s.chars[self.j])
        return NONE


class Adapter(Iter):
    def __init__(self, kind, inner, f=None, n=None):
        self.kind = kind
        self.inner = inner
        self.f = f
        self.n = n
        self.count = 0
        self.done = False
        self.peeked = None

    def clone(self):
        c = Adapter(self.kind, self.inner.clone(), self.f, self.n)
        c.count, c.done, c.peeked = self.count, self.done, self.peeked
        return c

    def _call(self, m, *args):
        return m.call_value(self.f, list(args))

    def next(self, m, back=False):
        k = self.kind
        nxt = (lambda: self.inner.next_back(m)) if back else (lambda: self.inner.next(m))
        if k == 'map':
            o = nxt()
            if o.variant == 'None':
                return NONE
            return some(self._call(m, o.fields[0]))
        if k == 'filter':
            while True:
                o = nxt()
                if o.variant == 'None':
                    return NONE
                r = self._call(m, m.heap.alloc(o.fields[0]))
                if m.ctx.branch(r):
                    return o
        if k == 'filter_map':
            while True:
                o = nxt()
                if o.variant == 'None':
                    return NONE
                r = self._call(m, o.fields[0])
                if r.variant == 'Some':
                    return r
        if k == 'enumerate':
            o = nxt()
            if o.variant == 'None':
                return NONE
            i = self.count
            self.count += 1
            return some(tup(i, o.fields[0]))
        if k == 'skip':
            while self.count < self.n:
                self.count += 1
                o = nxt()
                if o.variant == 'None':
                    return NONE
            return nxt()
        if k == 'take':
            if self.count >= self.n:
                return NONE
            self.count += 1
            return nxt()
        if k == 'take_while':
            if self.done:
                return NONE
            o = nxt()
            if o.variant == 'None':
                return NONE
            r = self._call(m, m.heap.alloc(o.fields[0]))
            if m.ctx.branch(r):
                return o
            self.done = True
            return NONE
        if k == 'skip_while':
            if self.done:
                return nxt()
            while True:
                o = nxt()
                if o.variant == 'None':
                    return NONE
                r = self._call(m, m.heap.alloc(o.fields[0]))
                if not m.ctx.branch(r):
                    self.done = True
                    return o
        if k == 'rev':
            return self.inner.next_back(m) if not back else self.inner.next(m)
        if k in ('cloned', 'copied'):
            o = nxt()
            if o.variant == 'None':
                return NONE
            return some(m.load(o.fields[0]))
        if k == 'peekable':
            if self.peeked is not None:
                o = self.peeked
                self.peeked = None
                return o
            return nxt()
        if k == 'chain':
            if not self.done:
                o = nxt()
                if o.variant == 'Some':
                    return o
                self.done = True
            return self.n.next(m)
        if k == 'from_fn':
            return self._call(m)
        if k == 'inspect':
            o = nxt()
            if o.variant == 'Some':
                self._call(m, m.heap.alloc(o.fields[0]))
            return o
        raise EncoderGap('iterator adapter %s' % k)

    def next_back(self, m):
        if self.kind in ('map', 'filter', 'filter_map', 'rev', 'cloned', 'copied'):
            return self.next(m, back=True)
        raise EncoderGap('next_back on adapter %s' % self.kind)

    def peek(self, m):
        if self.peeked is None:
            self.peeked = self.inner.next(m)
        return self.peeked


def get_iter(m, v):
    """v is an iterator object or a Ref to a place holding one"""
    it = m.load(v) if isinstance(v, Ref) else v
    if not isinstance(it, Iter):
        raise EncoderGap('not an iterator: %r' % (it,))
    return it


def drain(m, it):
    out = []
    while True:
        o = it.next(m)
        if o.variant == 'None':
            return out
        out.append(o.fields[0])


# ---------------------------------------------------------------------------
# vectors / slices


class Vec:
    """Vec / SmallVec / boxed slice: immutable python tuple of element values"""
    __slots__ = ('items', 'kind')

    def __init__(self, items=(), kind='Vec'):
        self.items = tuple(items)
        self.kind = kind

    def elem(self, i):
        return self.items[i]

    def with_elem(self, i, v):
        l = list(self.items)
        l[i] = v
        return Vec(l, self.kind)

    def __len__(self):
        return len(self.items)

    def __repr__(self):
        return '%s%r' % (self.kind, list(self.items))


class SliceRef:
    """a borrowed sub-slice: base is a Ref to a Vec/array place or a tuple of by-value items"""
    __slots__ = ('base', 'lo', 'hi')

    def __init__(self, base, lo, hi):
        self.base = base
        self.lo = lo
        self.hi = hi

    def __repr__(self):
        return 'Slice[%d..%d]' % (self.lo, self.hi)


def seq_view(m, v):
    """normalise any sequence-like value to (getter(i)->value, ref(i)->Ref or value, length)"""
    if isinstance(v, SliceRef):
        g, r, n = seq_view(m, v.base)
        lo, hi = v.lo, v.hi
        return (lambda i: g(lo + i)), (lambda i: r(lo + i)), hi - lo
    if isinstance(v, Ref):
        tgt = m.load(v)
        if isinstance(tgt, Vec):
            return (lambda i: tgt.items[i]), (lambda i: Ref(v.frame, v.local, v.proj + (('elem', i),), v.mut)), len(tgt.items)
        if isinstance(tgt, Agg) and tgt.ty == 'array':
            return (lambda i: tgt.fields[i]), (lambda i: Ref(v.frame, v.local, v.proj + (('field', i),), v.mut)), len(tgt.fields)
        if isinstance(tgt, (SliceRef, Ref, tuple)):
            return seq_view(m, tgt)
        raise EncoderGap('seq_view of ref to %r' % (tgt,))
    if isinstance(v, tuple):  # by-value immutable items (e.g. children of an abstract node)
        return (lambda i: v[i]), (lambda i: v[i]), len(v)
    if isinstance(v, Vec):
        return (lambda i: v.items[i]), (lambda i: v.items[i]), len(v.items)
    if isinstance(v, Agg) and v.ty == 'array':
        return (lambda i: v.fields[i]), (lambda i: v.fields[i]), len(v.fields)
    raise EncoderGap('seq_view of %r' % (v,))


def elem_is_byval(x):
    """elements that are themselves reference-like model values are yielded by value"""
    return not isinstance(x, (Agg, CEnum, Vec, int, bool)) and not is_sym(x)


# ---------------------------------------------------------------------------


class Contracts:
    def __init__(self):
        self.table = {}
        self.patterns = []
        self.const_paths = {}

    def fork(self):
        """independent copy for harness-local contracts"""
        c = Contracts()
        c.table = dict(self.table)
        c.const_paths = dict(self.const_paths)
        for k, v in self.__dict__.items():
            if k not in ('table', 'const_paths', 'patterns'):
                setattr(c, k, v)
        return c

    def register(self, *keys):
        def deco(f):
            for k in keys:
                self.table[k] = f
            return f
        return deco

    def make_str(self, codepoints):
        return Str(codepoints)

    def lookup(self, ci):
        T = head_ident(ci.T) if ci.T else None
        tr = head_ident(ci.trait) if ci.trait else None
        keys = []
        if T and tr:
            keys.append('%s.%s::%s' % (T, tr, ci.method))
        if tr:
            keys.append('%s::%s' % (tr, ci.method))
        if T:
            keys.append('%s::%s' % (T, ci.method))
        else:
            keys.append(ci.method)
        for k in keys:
            f = self.table.get(k)
            if f is not None:
                ci.key = k
                return f
        return None

    def const_path(self, m, text, dest_ty):
        f = self.const_paths.get(text)
        if f is not None:
            return f(m, dest_ty)
        if text == 'RangeFull':
            return Agg('RangeFull', None, (), ())
        if text == 'core::num::<impl usize>::MAX' or text == 'usize::MAX':
            return (1 << 64) - 1
        mm = re.match(r'^Option::<.*>::None$', text)
        if mm:
            return NONE
        return None

    def unit_value(self, m, path, dest_ty):
        # unit variant / unit struct of a foreign type that no modelled code inspects
        return Opaque('foreign_unit', (path,))

    def ptr_metadata(self, m, v):
        return self.seq_len(m, v)

    def seq_len(self, m, v):
        if isinstance(v, Str):
            return v.byte_len()
        return seq_view(m, v)[2]

    def float_cast(self, m, v, sty, dty, kind):
        """`as` between integers and IEEE floats, exactly as Rust defines it (round to nearest even; float -> int truncates and saturates, NaN -> 0)"""
        from .machine import int_info
        fsort = lambda t: z3.Float32() if t == 'f32' else z3.Float64()
        if kind == 'IntToFloat':
            bits, signed = int_info(sty)
            bv = v if is_sym(v) else z3.BitVecVal(v, bits)
            return z3.fpSignedToFP(z3.RNE(), bv, fsort(dty)) if signed else z3.fpUnsignedToFP(z3.RNE(), bv, fsort(dty))
        if kind == 'FloatToFloat':
            return z3.fpFPToFP(z3.RNE(), v, fsort(dty))
        bits, signed = int_info(dty)
        so = v.sort()
        if signed:
            lo, hi = -(1 << (bits - 1)), (1 << (bits - 1)) - 1
            conv = z3.fpToSBV(z3.RTZ(), v, z3.BitVecSort(bits))
        else:
            lo, hi = 0, (1 << bits) - 1
            conv = z3.fpToUBV(z3.RTZ(), v, z3.BitVecSort(bits))
        # 2^bits (or 2^(bits-1)) is exactly representable: everything at or above it saturates
        top = z3.FPVal(float(1 << (bits - 1 if signed else bits)), so)
        bot = z3.FPVal(float(lo), so)
        res = z3.If(z3.fpIsNaN(v), z3.BitVecVal(0, bits),
                    z3.If(z3.fpGEQ(v, top), z3.BitVecVal(hi & ((1 << bits) - 1), bits),
                          z3.If(z3.fpLEQ(v, bot) if signed else z3.fpLT(v, z3.FPVal(1.0, so)) if False else z3.fpIsNegative(v), z3.BitVecVal(lo & ((1 << bits) - 1), bits), conv)))
        return simp(res)


STD = Contracts()
reg = STD.register


def _s(m, v):
    """get a Str from &str / &String / String"""
    x = m.load(v) if isinstance(v, Ref) else v
    if isinstance(x, (Str, OStr)):
        return x
    if hasattr(x, 'as_str'):
        return x.as_str(m)
    raise EncoderGap('expected string, got %r' % (x,))


# -- str ----------------------------------------------------------------------

@reg('str::len', 'String::len', 'EcoString::len')
def str_len(m, a, ci):
    return _s(m, a[0]).byte_len()


@reg('str::is_empty', 'String::is_empty', 'EcoString::is_empty')
def str_is_empty(m, a, ci):
    return len(_s(m, a[0])) == 0


@reg('str::lines')
def str_lines(m, a, ci):
    s = _s(m, a[0])
    if isinstance(s, OStr):
        return OpaqueIter(('lines', s.term))
    return LinesIter(s)


@reg('str::chars')
def str_chars(m, a, ci):
    return CharsIter(_s(m, a[0]))


@reg('str::trim_end')
def str_trim_end(m, a, ci):
    s = _s(m, a[0])
    j = len(s)
    while j > 0 and m.ctx.branch(is_ws(s.chars[j - 1])):
        j -= 1
    return s.sub(0, j)


@reg('str::trim_start')
def str_trim_start(m, a, ci):
    s = _s(m, a[0])
    i = 0
    while i < len(s) and m.ctx.branch(is_ws(s.chars[i])):
        i += 1
    return s.sub(i, len(s))


@reg('str::trim')
def str_trim(m, a, ci):
    s = str_trim_start(m, a, ci)
    return str_trim_end(m, [s], ci)


def boundary_index(m, s, off, what):
    """index i with prefix[i] == off; panics (forking) if off is not a char boundary within s"""
    pre = s.prefix()
    off = simp(off)
    if not is_sym(off) and all(not is_sym(p) for p in pre):
        if off in pre:
            return pre.index(off)
        raise Panic('str index %s: byte offset %s is out of range / not a char boundary' % (what, off))
    conds = [i_eq(off, p, 64) for p in pre]
    conds.append(b_not(b_or(*conds)))
    k = m.ctx.choose(conds)
    if k == len(pre):
        raise Panic('str index %s: byte offset out of range or not on a char boundary' % what)
    return k


@reg('str.Index::index', 'String.Index::index')
def str_index(m, a, ci):
    s = _s(m, a[0])
    r = a[1]
    if not isinstance(r, Agg):
        raise EncoderGap('str index with %r' % (r,))
    if r.ty == 'Range':
        lo, hi = r.fields
        # std checks start <= end first, then boundaries
        m.panic_if(i_ult(hi, lo), 'str index: slice index starts after end')
        i = boundary_index(m, s, lo, 'start')
        j = boundary_index(m, s, hi, 'end')
        if j < i:
            raise Panic('str index: start > end')
        return s.sub(i, j)
    if r.ty == 'RangeTo':
        j = boundary_index(m, s, r.fields[0], 'end')
        return s.sub(0, j)
    if r.ty == 'RangeFrom':
        i = boundary_index(m, s, r.fields[0], 'start')
        return s.sub(i, len(s))
    if r.ty == 'RangeFull':
        return s
    raise EncoderGap('str index with %s' % r.ty)


@reg('str::is_char_boundary')
def str_is_char_boundary(m, a, ci):
    s = _s(m, a[0])
    return b_or(*[i_eq(a[1], p, 64) for p in s.prefix()])


def _pat(m, p):
    """pattern argument: char | &str -> ('char', c) | ('str', Str) | ('fn', f)"""
    x = m.load(p) if isinstance(p, Ref) else p
    if isinstance(x, Str):
        return 'str', x
    if isinstance(x, int) or is_sym(x):
        return 'char', x
    if isinstance(x, (Agg, PyFn, FnItem)):
        return 'fn', x
    raise EncoderGap('pattern %r' % (x,))


@reg('str::rfind')
def str_rfind(m, a, ci):
    s = _s(m, a[0])
    kind, p = _pat(m, a[1])
    pre = s.prefix()
    if kind == 'str':
        k = len(p)
        for i in range(len(s) - k, -1, -1):
            if m.ctx.branch(str_eq(s.sub(i, i + k), p)):
                return some(pre[i])
        return NONE
    f = char_pred(m, a[1])
    for i in range(len(s) - 1, -1, -1):
        if m.ctx.branch(f(s.chars[i])):
            return some(pre[i])
    return NONE


@reg('str::find')
def str_find(m, a, ci):
    s = _s(m, a[0])
    kind, p = _pat(m, a[1])
    pre = s.prefix()
    if kind in ('char', 'fn'):
        f = char_pred(m, a[1])
        for i in range(len(s)):
            if m.ctx.branch(f(s.chars[i])):
                return some(pre[i])
        return NONE
    if kind == 'str':
        k = len(p)
        for i in range(len(s) - k + 1):
            if m.ctx.branch(str_eq(s.sub(i, i + k), p)):
                return some(pre[i])
        return NONE
    raise EncoderGap('find with %s pattern' % kind)


@reg('str::contains')
def str_contains(m, a, ci):
    s = _s(m, a[0])
    kind, p = _pat(m, a[1])
    if kind == 'char':
        return b_or(*[c_eq(c, p) for c in s.chars])
    if kind == 'str':
        k = len(p)
        if k == 0:
            return True
        return b_or(*[str_eq(s.sub(i, i + k), p) for i in range(len(s) - k + 1)])
    f = char_pred(m, a[1])
    return b_or(*[f(c) for c in s.chars])


@reg('str::starts_with')
def str_starts_with(m, a, ci):
    s = _s(m, a[0])
    kind, p = _pat(m, a[1])
    if kind == 'char':
        return len(s) > 0 and c_eq(s.chars[0], p)
    if kind == 'str':
        return len(s) >= len(p) and str_eq(s.sub(0, len(p)), p)
    f = char_pred(m, a[1])
    if f is not None:
        return len(s) > 0 and f(s.chars[0])
    raise EncoderGap('starts_with with %s pattern' % kind)


@reg('str::ends_with')
def str_ends_with(m, a, ci):
    s = _s(m, a[0])
    kind, p = _pat(m, a[1])
    if kind == 'char':
        return len(s) > 0 and c_eq(s.chars[-1], p)
    if kind == 'str':
        return len(s) >= len(p) and str_eq(s.sub(len(s) - len(p), len(s)), p)
    f = char_pred(m, a[1])
    if f is not None:
        return len(s) > 0 and f(s.chars[-1])
    raise EncoderGap('ends_with with %s pattern' % kind)


@reg('str::repeat')
def str_repeat(m, a, ci):
    s = _s(m, a[0])
    n = simp(a[1])
    if is_sym(n):
        raise EncoderGap('repeat with symbolic count')
    return Str(s.chars * n)


@reg('str.ToString::to_string', 'ToString::to_string', 'str::to_owned', 'str::to_string', 'String.Clone::clone',
     'str.ToOwned::to_owned', 'String.From::from', 'str.Into::into', 'EcoString.Clone::clone')
def str_to_string(m, a, ci):
    x = m.load(a[0]) if isinstance(a[0], Ref) else a[0]
    if isinstance(x, (int, bool, float)) or z3.is_expr(x) or isinstance(x, Opaque):
        # Display of a number / foreign value: an opaque string determined by the value
        return OStr(('display', str(x)))
    return _s(m, a[0])


@reg('String.Deref::deref', 'EcoString.Deref::deref', 'String::as_str', 'EcoString::as_str', 'String.AsRef::as_ref',
     'String.Borrow::borrow', 'str.AsRef::as_ref')
def string_deref(m, a, ci):
    return _s(m, a[0])


@reg('String::new')
def string_new(m, a, ci):
    return Str(())


@reg('String::with_capacity')
def string_with_capacity(m, a, ci):
    return Str(())


@reg('String::push_str')
def string_push_str(m, a, ci):
    cur = _s(m, a[0])
    m.store(a[0], cur.concat(_s(m, a[1])))
    return UNIT


@reg('String::push')
def string_push(m, a, ci):
    cur = _s(m, a[0])
    m.store(a[0], Str(cur.chars + (a[1],)))
    return UNIT


@reg('String.PartialEq::eq', 'str.PartialEq::eq', 'String.PartialEq::ne', 'str.PartialEq::ne')
def string_eq(m, a, ci):
    x = _s(m, a[0])
    y = _s(m, a[1])
    if isinstance(x, OStr) or isinstance(y, OStr):
        r = m.contracts.ostr_eq(m, x, y)
    elif len(x) != len(y):
        # byte-equal strings have equal code point sequences, so different lengths differ
        r = False
    else:
        r = str_eq(x, y)
    return b_not(r) if ci.method == 'ne' else r


# -- iterators ---------------------------------------------------------------------

@reg('IntoIterator::into_iter')
def into_iter(m, a, ci):
    v = a[0]
    x = m.load(v) if isinstance(v, Ref) else v
    if isinstance(x, Iter):
        return x
    if isinstance(x, Vec):
        if isinstance(v, Ref):
            g, r, n = seq_view(m, v)
            return ListIter([r(i) for i in range(n)])
        return ListIter(list(x.items))
    if isinstance(x, Agg) and x.ty == 'Range':
        return range_iter(m, x)
    if isinstance(x, Agg) and x.ty == 'Option':
        return ListIter(list(x.fields))
    if isinstance(x, (SliceRef, tuple)) or (isinstance(x, Agg) and x.ty == 'array'):
        g, r, n = seq_view(m, v)
        return ListIter([r(i) for i in range(n)])
    raise EncoderGap('into_iter of %r' % (x,))


def concretize(m, v, cap=8, what='value'):
    """fork over the values 0..cap of a symbolic integer (one path each); a value beyond the cap is an encoder gap"""
    v = simp(v)
    if not is_sym(v):
        return v
    for k in range(cap + 1):
        if m.ctx.branch(v == z3.BitVecVal(k, v.size())):
            return k
    raise EncoderGap('%s is symbolic and may exceed %d (bound it in the harness)' % (what, cap))


def range_iter(m, r):
    lo = concretize(m, r.fields[0], what='start of an integer range')
    hi = concretize(m, r.fields[1], what='end of an integer range')
    return ListIter(list(range(lo, hi)))


@reg('Iterator::next')
def iter_next(m, a, ci):
    return get_iter(m, a[0]).next(m)


@reg('DoubleEndedIterator::next_back')
def iter_next_back(m, a, ci):
    return get_iter(m, a[0]).next_back(m)


@reg('DoubleEndedIterator::nth_back')
def iter_nth_back(m, a, ci):
    it = get_iter(m, a[0])
    n = simp(a[1])
    for _ in range(n):
        o = it.next_back(m)
        if o.variant == 'None':
            return NONE
    return it.next_back(m)


@reg('Iterator::nth')
def iter_nth(m, a, ci):
    it = get_iter(m, a[0])
    n = simp(a[1])
    for _ in range(n):
        o = it.next(m)
        if o.variant == 'None':
            return NONE
    return it.next(m)


def _adapter(kind, has_f=False, has_n=False):
    def f(m, a, ci):
        it = get_iter(m, a[0])
        fn = a[1] if has_f else None
        if fn is not None and isinstance(fn, Agg):
            fn = m.heap.alloc(fn)      # FnMut closures keep their captured state between calls
        n = simp(a[1]) if has_n else None
        if has_n and is_sym(n):
            raise EncoderGap('%s with symbolic count' % kind)
        return Adapter(kind, it, fn, n)
    f.__name__ = 'iter_' + kind
    return f


for _k, _hf, _hn in (('map', True, False), ('filter', True, False), ('filter_map', True, False), ('enumerate', False, False),
                     ('skip', False, True), ('take', False, True), ('take_while', True, False), ('skip_while', True, False),
                     ('rev', False, False), ('cloned', False, False), ('copied', False, False), ('peekable', False, False),
                     ('inspect', True, False)):
    STD.table['Iterator::' + _k] = _adapter(_k, _hf, _hn)


@reg('Iterator::chain')
def iter_chain(m, a, ci):
    return Adapter('chain', get_iter(m, a[0]), None, get_iter(m, into_iter(m, [a[1]], ci)))


@reg('from_fn', 'iter::from_fn')
def iter_from_fn(m, a, ci):
    f = a[0]
    if isinstance(f, Agg):
        f = m.heap.alloc(f)            # the closure's captured state persists between calls
    return Adapter('from_fn', None, f)


@reg('Peekable::peek')
def peekable_peek(m, a, ci):
    it = get_iter(m, a[0])
    o = it.peek(m)
    if o.variant == 'None':
        return NONE
    return some(m.heap.alloc(o.fields[0]))


@reg('Iterator::count')
def iter_count(m, a, ci):
    return len(drain(m, get_iter(m, a[0])))


@reg('Iterator::last')
def iter_last(m, a, ci):
    xs = drain(m, get_iter(m, a[0]))
    return some(xs[-1]) if xs else NONE


@reg('Iterator::all')
def iter_all(m, a, ci):
    it = get_iter(m, a[0])
    while True:
        o = it.next(m)
        if o.variant == 'None':
            return True
        if not m.ctx.branch(m.call_value(a[1], [o.fields[0]])):
            return False


@reg('Iterator::any')
def iter_any(m, a, ci):
    it = get_iter(m, a[0])
    while True:
        o = it.next(m)
        if o.variant == 'None':
            return False
        if m.ctx.branch(m.call_value(a[1], [o.fields[0]])):
            return True


@reg('Iterator::position')
def iter_position(m, a, ci):
    it = get_iter(m, a[0])
    i = 0
    while True:
        o = it.next(m)
        if o.variant == 'None':
            return NONE
        if m.ctx.branch(m.call_value(a[1], [o.fields[0]])):
            return some(i)
        i += 1


@reg('Iterator::find')
def iter_find(m, a, ci):
    it = get_iter(m, a[0])
    while True:
        o = it.next(m)
        if o.variant == 'None':
            return NONE
        if m.ctx.branch(m.call_value(a[1], [m.heap.alloc(o.fields[0])])):
            return o


@reg('Iterator::find_map')
def iter_find_map(m, a, ci):
    it = get_iter(m, a[0])
    while True:
        o = it.next(m)
        if o.variant == 'None':
            return NONE
        r = m.call_value(a[1], [o.fields[0]])
        if r.variant == 'Some':
            return r


@reg('Iterator::min')
def iter_min(m, a, ci):
    xs = drain(m, get_iter(m, a[0]))
    if not xs:
        return NONE
    best = xs[0]
    for x in xs[1:]:
        # unsigned integers only (usize) – the only use in typstyle
        best = b_ite(i_ult(x, best), x, best)
    return some(best)


@reg('Iterator::max')
def iter_max(m, a, ci):
    xs = drain(m, get_iter(m, a[0]))
    if not xs:
        return NONE
    best = xs[0]
    for x in xs[1:]:
        best = b_ite(i_ult(best, x), x, best)
    return some(best)


@reg('Iterator::sum')
def iter_sum(m, a, ci):
    return i_sum(drain(m, get_iter(m, a[0])))


@reg('Iterator::for_each')
def iter_for_each(m, a, ci):
    for x in drain(m, get_iter(m, a[0])):
        m.call_value(a[1], [x])
    return UNIT


@reg('Iterator::fold')
def iter_fold(m, a, ci):
    acc = a[1]
    it = get_iter(m, a[0])
    while True:
        o = it.next(m)
        if o.variant == 'None':
            return acc
        acc = m.call_value(a[2], [acc, o.fields[0]])


@reg('Iterator::collect', 'FromIterator::from_iter')
def iter_collect(m, a, ci):
    it0 = get_iter(m, into_iter(m, [a[0]], ci))
    src = opaque_source(it0)
    if src is not None:
        d0 = head_ident(ci.dest_ty) if ci.dest_ty else 'Vec'
        if d0 in ('String', 'EcoString'):
            return OStr(('collected', src.term, _adapter_kinds(it0)))
        return Opaque('collected', (src.term, _adapter_kinds(it0)))
    xs = drain(m, it0)
    d = head_ident(ci.dest_ty) if ci.dest_ty else 'Vec'
    if d in ('Vec', 'SmallVec'):
        return Vec(xs, d)
    if d == 'Result':
        # collect::<Result<Vec<_>, E>>(): the first Err wins
        out = []
        for x in xs:
            if isinstance(x, Agg) and x.ty == 'Result' and x.variant == 'Err':
                return x
            out.append(x.fields[0] if isinstance(x, Agg) and x.ty == 'Result' else x)
        return ok(Vec(out, 'Vec'))
    if d == 'Option':
        out = []
        for x in xs:
            if isinstance(x, Agg) and x.ty == 'Option' and x.variant == 'None':
                return NONE
            out.append(x.fields[0] if isinstance(x, Agg) and x.ty == 'Option' else x)
        return some(Vec(out, 'Vec'))
    if d in ('String', 'EcoString'):
        cs = []
        for x in xs:
            if isinstance(x, Str):
                cs.extend(x.chars)
            else:
                cs.append(x)
        return Str(cs)
    if d == 'BTreeMap':
        bm = BTreeV(())
        for x in xs:
            if not (isinstance(x, Agg) and x.ty == 'tuple' and len(x.fields) == 2):
                raise EncoderGap('collect into BTreeMap from %r' % (x,))
            bm = btree_insert(m, bm, x.fields[0], x.fields[1])[0]
        return bm
    raise EncoderGap('collect into %s' % ci.dest_ty)


@reg('Iterator::size_hint', 'ExactSizeIterator::len')
def iter_len(m, a, ci):
    it = get_iter(m, a[0])
    if isinstance(it, ListIter):
        return it.j - it.i
    raise EncoderGap('len of %s' % type(it).__name__)


@reg('Iter::as_slice')
def sliceiter_as_slice(m, a, ci):
    it = get_iter(m, a[0])
    if isinstance(it, ListIter):
        return tuple(it.remaining())
    raise EncoderGap('as_slice of %s' % type(it).__name__)


@reg('Clone::clone')
def generic_clone(m, a, ci):
    v = m.load(a[0]) if isinstance(a[0], Ref) else a[0]
    if isinstance(v, Iter):
        return v.clone()
    return v


# -- Option / Result -----------------------------------------------------------------

def _opt(m, v):
    x = m.load(v) if isinstance(v, Ref) else v
    if not isinstance(x, Agg) or x.ty not in ('Option', 'Result'):
        raise EncoderGap('expected Option/Result, got %r' % (x,))
    return x


@reg('Option::unwrap', 'Result::unwrap', 'Option::expect', 'Result::expect')
def opt_unwrap(m, a, ci):
    o = _opt(m, a[0])
    if o.variant in ('Some', 'Ok'):
        return o.fields[0]
    raise Panic('called `%s::%s()` on a `%s` value' % (o.ty, ci.method, o.variant))


@reg('Option::unwrap_or', 'Result::unwrap_or')
def opt_unwrap_or(m, a, ci):
    o = _opt(m, a[0])
    return o.fields[0] if o.variant in ('Some', 'Ok') else a[1]


@reg('Option::unwrap_or_default', 'Result::unwrap_or_default')
def opt_unwrap_or_default(m, a, ci):
    o = _opt(m, a[0])
    if o.variant in ('Some', 'Ok'):
        return o.fields[0]
    return default_for(m, ci.dest_ty)


@reg('Option::unwrap_or_else')
def opt_unwrap_or_else(m, a, ci):
    o = _opt(m, a[0])
    return o.fields[0] if o.variant == 'Some' else m.call_value(a[1], [])


@reg('Result::unwrap_or_else')
def res_unwrap_or_else(m, a, ci):
    o = _opt(m, a[0])
    return o.fields[0] if o.variant == 'Ok' else m.call_value(a[1], [o.fields[0]])


@reg('Option::is_some')
def opt_is_some(m, a, ci):
    return _opt(m, a[0]).variant == 'Some'


@reg('Option::is_none')
def opt_is_none(m, a, ci):
    return _opt(m, a[0]).variant == 'None'


@reg('Result::is_ok')
def res_is_ok(m, a, ci):
    return _opt(m, a[0]).variant == 'Ok'


@reg('Result::is_err')
def res_is_err(m, a, ci):
    return _opt(m, a[0]).variant == 'Err'


@reg('Option::map')
def opt_map(m, a, ci):
    o = _opt(m, a[0])
    return some(m.call_value(a[1], [o.fields[0]])) if o.variant == 'Some' else NONE


@reg('Result::map')
def res_map(m, a, ci):
    o = _opt(m, a[0])
    return ok(m.call_value(a[1], [o.fields[0]])) if o.variant == 'Ok' else o


@reg('Result::map_err')
def res_map_err(m, a, ci):
    o = _opt(m, a[0])
    return err(m.call_value(a[1], [o.fields[0]])) if o.variant == 'Err' else o


@reg('Option::and_then')
def opt_and_then(m, a, ci):
    o = _opt(m, a[0])
    return m.call_value(a[1], [o.fields[0]]) if o.variant == 'Some' else NONE


@reg('Option::filter')
def opt_filter(m, a, ci):
    o = _opt(m, a[0])
    if o.variant == 'None':
        return NONE
    r = m.call_value(a[1], [m.heap.alloc(o.fields[0])])
    return o if m.ctx.branch(r) else NONE


@reg('Option::is_some_and')
def opt_is_some_and(m, a, ci):
    o = _opt(m, a[0])
    if o.variant == 'None':
        return False
    return m.call_value(a[1], [o.fields[0]])


@reg('Option::is_none_or')
def opt_is_none_or(m, a, ci):
    o = _opt(m, a[0])
    if o.variant == 'None':
        return True
    return m.call_value(a[1], [o.fields[0]])


@reg('Option::map_or')
def opt_map_or(m, a, ci):
    o = _opt(m, a[0])
    return m.call_value(a[2], [o.fields[0]]) if o.variant == 'Some' else a[1]


@reg('Option::ok_or')
def opt_ok_or(m, a, ci):
    o = _opt(m, a[0])
    return ok(o.fields[0]) if o.variant == 'Some' else err(a[1])


@reg('Result::ok')
def res_ok(m, a, ci):
    o = _opt(m, a[0])
    return some(o.fields[0]) if o.variant == 'Ok' else NONE


@reg('Option::as_ref', 'Option::as_mut')
def opt_as_ref(m, a, ci):
    o = _opt(m, a[0])
    if o.variant == 'None':
        return NONE
    r = a[0]
    if isinstance(r, Ref):
        return some(Ref(r.frame, r.local, r.proj + (('field', 0),), r.mut))
    return o


@reg('Option::take')
def opt_take(m, a, ci):
    o = _opt(m, a[0])
    m.store(a[0], NONE)
    return o


@reg('Option::or')
def opt_or(m, a, ci):
    o = _opt(m, a[0])
    return o if o.variant == 'Some' else a[1]


@reg('Option::or_else')
def opt_or_else(m, a, ci):
    o = _opt(m, a[0])
    return o if o.variant == 'Some' else m.call_value(a[1], [])


@reg('Option::cloned', 'Option::copied')
def opt_cloned(m, a, ci):
    o = _opt(m, a[0])
    return some(m.load(o.fields[0])) if o.variant == 'Some' else NONE


@reg('Option.Try::branch')
def opt_branch(m, a, ci):
    o = _opt(m, a[0])
    if o.variant == 'Some':
        return Agg('ControlFlow', 'Continue', (o.fields[0],))
    return Agg('ControlFlow', 'Break', (NONE,))


@reg('Result.Try::branch')
def res_branch(m, a, ci):
    o = _opt(m, a[0])
    if o.variant == 'Ok':
        return Agg('ControlFlow', 'Continue', (o.fields[0],))
    return Agg('ControlFlow', 'Break', (o,))


@reg('Option.FromResidual::from_residual')
def opt_from_residual(m, a, ci):
    return NONE


@reg('Result.FromResidual::from_residual')
def res_from_residual(m, a, ci):
    o = _opt(m, a[0])
    return err(m.contracts.convert_error(m, o.fields[0], ci))


def _convert_error(m, e, ci):
    return e


Contracts.convert_error = staticmethod(_convert_error)


def _ostr_eq(m, x, y):
    if isinstance(x, OStr) and isinstance(y, OStr) and x.term == y.term:
        return True
    raise EncoderGap('equality of opaque strings %r / %r' % (x, y))


Contracts.ostr_eq = staticmethod(_ostr_eq)


@reg('Option.PartialEq::eq', 'Option.PartialEq::ne')
def opt_eq(m, a, ci):
    x = _opt(m, a[0])
    y = _opt(m, a[1])
    if x.variant != y.variant:
        r = False
    elif x.variant == 'None':
        r = True
    else:
        r = value_eq(m, x.fields[0], y.fields[0])
    return b_not(r) if ci.method == 'ne' else r


def value_eq(m, x, y):
    x = m.load(x) if isinstance(x, Ref) else x
    y = m.load(y) if isinstance(y, Ref) else y
    if isinstance(x, Str) and isinstance(y, Str):
        return False if len(x) != len(y) else str_eq(x, y)
    if isinstance(x, CEnum) and isinstance(y, CEnum):
        return i_eq(x.disc, y.disc, x.bits)
    if isinstance(x, (int, bool)) or is_sym(x):
        return i_eq(x, y)
    if hasattr(x, 'model_eq'):
        return x.model_eq(m, y)
    if isinstance(x, Opaque) and isinstance(y, Opaque):
        return x == y            # identifiers such as spans: equal iff built from the same ids
    raise EncoderGap('value_eq of %r, %r' % (x, y))


# -- bool / ints -------------------------------------------------------------------

@reg('bool::then')
def bool_then(m, a, ci):
    if m.ctx.branch(a[0]):
        return some(m.call_value(a[1], []))
    return NONE


@reg('bool::then_some')
def bool_then_some(m, a, ci):
    return some(a[1]) if m.ctx.branch(a[0]) else NONE


@reg('bool.Default::default')
def bool_default(m, a, ci):
    return False


@reg('usize.Default::default')
def usize_default(m, a, ci):
    return 0


def default_for(m, ty):
    h = head_ident(ty) if ty else None
    if h == 'bool':
        return False
    if h in INT_BITS:
        return 0
    if h == 'Option':
        return NONE
    if h in ('Vec', 'SmallVec'):
        return Vec((), h)
    if h == 'String':
        return Str(())
    raise EncoderGap('default for %s' % ty)


@reg('Default::default')
def generic_default(m, a, ci):
    return default_for(m, ci.dest_ty)


@reg('usize.Ord::min', 'Ord::min')
def usize_min(m, a, ci):
    return b_ite(i_ult(a[1], a[0]), a[1], a[0])


@reg('usize.Ord::max', 'Ord::max')
def usize_max(m, a, ci):
    return b_ite(i_ult(a[0], a[1]), a[1], a[0])


@reg('usize::saturating_sub')
def usize_saturating_sub(m, a, ci):
    return b_ite(i_ult(a[0], a[1]), 0, i_sub(a[0], a[1]))


@reg('usize::saturating_add')
def usize_saturating_add(m, a, ci):
    s = i_add(a[0], a[1])
    return b_ite(i_ult(s, a[0]), (1 << 64) - 1, s)


@reg('usize::min', 'cmp::min')
def cmp_min(m, a, ci):
    return usize_min(m, a, ci)


@reg('usize::max', 'cmp::max')
def cmp_max(m, a, ci):
    return usize_max(m, a, ci)


@reg('RangeInclusive::new')
def range_inclusive_new(m, a, ci):
    return Agg('RangeInclusive', None, (a[0], a[1], False), ('start', 'end', 'exhausted'))


@reg('Range.Clone::clone')
def range_clone(m, a, ci):
    return m.load(a[0])


# -- Vec / slices -------------------------------------------------------------------

def _vec(m, r):
    v = m.load(r) if isinstance(r, Ref) else r
    if not isinstance(v, Vec):
        raise EncoderGap('expected Vec, got %r' % (v,))
    return v


@reg('Vec::new', 'SmallVec::new')
def vec_new(m, a, ci):
    return Vec((), head_ident(ci.T) if ci.T else 'Vec')


ADDRESS_SPACE_BITS = 47     # user address space of the 64-bit targets typstyle ships for


@reg('Vec::with_capacity', 'SmallVec::with_capacity')
def vec_with_capacity(m, a, ci):
    # documented: panics ("capacity overflow") when the capacity exceeds isize::MAX bytes; below that the allocation itself fails
    # (abort) for any request beyond the address space.  Element size >= 1 byte is assumed, so this under-approximates the failures.
    n = simp(a[0])
    if is_sym(n):
        m.panic_if(z3.UGE(n, z3.BitVecVal(1 << ADDRESS_SPACE_BITS, n.size())), 'Vec::with_capacity: capacity overflow / allocation failure (capacity >= 2^%d elements)' % ADDRESS_SPACE_BITS)
    elif n >= (1 << ADDRESS_SPACE_BITS):
        raise Panic('Vec::with_capacity: capacity overflow')
    return Vec((), head_ident(ci.T) if ci.T else 'Vec')


@reg('Vec::push', 'SmallVec::push')
def vec_push(m, a, ci):
    v = _vec(m, a[0])
    m.store(a[0], Vec(v.items + (a[1],), v.kind))
    return UNIT


@reg('Vec::pop', 'SmallVec::pop')
def vec_pop(m, a, ci):
    v = _vec(m, a[0])
    if not v.items:
        return NONE
    m.store(a[0], Vec(v.items[:-1], v.kind))
    return some(v.items[-1])


@reg('Vec::len', 'SmallVec::len', 'slice::len')
def vec_len(m, a, ci):
    return seq_view(m, a[0])[2]


@reg('Vec::is_empty', 'SmallVec::is_empty', 'slice::is_empty')
def vec_is_empty(m, a, ci):
    return seq_view(m, a[0])[2] == 0


@reg('Vec::remove', 'SmallVec::remove')
def vec_remove(m, a, ci):
    v = _vec(m, a[0])
    i = simp(a[1])
    if is_sym(i):
        raise EncoderGap('remove at symbolic index')
    if i >= len(v.items):
        raise Panic('removal index (is %d) should be < len (is %d)' % (i, len(v.items)))
    m.store(a[0], Vec(v.items[:i] + v.items[i + 1:], v.kind))
    return v.items[i]


@reg('Vec::insert', 'SmallVec::insert')
def vec_insert(m, a, ci):
    v = _vec(m, a[0])
    i = simp(a[1])
    if i > len(v.items):
        raise Panic('insertion index out of bounds')
    m.store(a[0], Vec(v.items[:i] + (a[2],) + v.items[i:], v.kind))
    return UNIT


@reg('Vec::clear', 'SmallVec::clear')
def vec_clear(m, a, ci):
    v = _vec(m, a[0])
    m.store(a[0], Vec((), v.kind))
    return UNIT


@reg('Vec::truncate')
def vec_truncate(m, a, ci):
    v = _vec(m, a[0])
    n = simp(a[1])
    m.store(a[0], Vec(v.items[:n], v.kind))
    return UNIT


@reg('Vec.Deref::deref', 'Vec.DerefMut::deref_mut', 'SmallVec.Deref::deref', 'SmallVec.DerefMut::deref_mut',
     'Vec::as_slice', 'Vec::as_mut_slice', 'SmallVec::as_slice')
def vec_deref(m, a, ci):
    return a[0]


@reg('Vec::drain', 'SmallVec::drain')
def vec_drain(m, a, ci):
    v = _vec(m, a[0])
    r = a[1]
    if isinstance(r, Agg) and r.ty == 'RangeFull':
        m.store(a[0], Vec((), v.kind))
        return ListIter(list(v.items))
    raise EncoderGap('drain with %r' % (r,))


@reg('Vec.Extend::extend', 'SmallVec.Extend::extend')
def vec_extend(m, a, ci):
    v = _vec(m, a[0])
    xs = drain(m, get_iter(m, into_iter(m, [a[1]], ci)))
    m.store(a[0], Vec(v.items + tuple(xs), v.kind))
    return UNIT


@reg('slice::iter', 'slice::iter_mut', 'Vec::iter', 'SmallVec::iter', 'Vec::iter_mut')
def slice_iter(m, a, ci):
    g, r, n = seq_view(m, a[0])
    return ListIter([r(i) for i in range(n)])


@reg('slice::first', 'slice::first_mut')
def slice_first(m, a, ci):
    g, r, n = seq_view(m, a[0])
    return some(r(0)) if n else NONE


@reg('slice::last', 'slice::last_mut')
def slice_last(m, a, ci):
    g, r, n = seq_view(m, a[0])
    return some(r(n - 1)) if n else NONE


@reg('slice::get')
def slice_get(m, a, ci):
    g, r, n = seq_view(m, a[0])
    i = simp(a[1])
    if is_sym(i):
        raise EncoderGap('slice get symbolic index')
    return some(r(i)) if i < n else NONE


@reg('slice::split_first')
def slice_split_first(m, a, ci):
    g, r, n = seq_view(m, a[0])
    if not n:
        return NONE
    return some(tup(r(0), SliceRef(a[0], 1, n)))


@reg('slice::split_last')
def slice_split_last(m, a, ci):
    g, r, n = seq_view(m, a[0])
    if not n:
        return NONE
    return some(tup(r(n - 1), SliceRef(a[0], 0, n - 1)))


@reg('slice::reverse')
def slice_reverse(m, a, ci):
    v = m.load(a[0])
    if isinstance(v, Vec):
        m.store(a[0], Vec(tuple(reversed(v.items)), v.kind))
        return UNIT
    raise EncoderGap('reverse of %r' % (v,))


@reg('slice::contains')
def slice_contains(m, a, ci):
    g, r, n = seq_view(m, a[0])
    return b_or(*[value_eq(m, g(i), a[1]) for i in range(n)])


@reg('slice.Index::index', 'Vec.Index::index', 'SmallVec.Index::index', 'slice.IndexMut::index_mut', 'Vec.IndexMut::index_mut')
def slice_index(m, a, ci):
    g, r, n = seq_view(m, a[0])
    idx = a[1]
    if isinstance(idx, Agg):
        def cv(x):
            x = simp(x)
            if is_sym(x):
                raise EncoderGap('slice range with symbolic bound')
            return x
        if idx.ty == 'Range':
            lo, hi = cv(idx.fields[0]), cv(idx.fields[1])
        elif idx.ty == 'RangeTo':
            lo, hi = 0, cv(idx.fields[0])
        elif idx.ty == 'RangeFrom':
            lo, hi = cv(idx.fields[0]), n
        elif idx.ty == 'RangeInclusive':
            lo, hi = cv(idx.fields[0]), cv(idx.fields[1]) + 1
        elif idx.ty == 'RangeFull':
            lo, hi = 0, n
        else:
            raise EncoderGap('slice index %s' % idx.ty)
        if lo > hi:
            raise Panic('slice index starts at %d but ends at %d' % (lo, hi))
        if hi > n:
            raise Panic('range end index %d out of range for slice of length %d' % (hi, n))
        return SliceRef(a[0], lo, hi)
    i = simp(idx)
    if is_sym(i):
        raise EncoderGap('slice index symbolic')
    if i >= n:
        raise Panic('index out of bounds: the len is %d but the index is %d' % (n, i))
    return r(i)


# -- more str API (so that realistic rewrites of the kernels stay decidable) ---------------

def is_ascii_ws(c):
    # char::is_ascii_whitespace: space, \t, \n, \x0C, \r
    return b_or(*[c_eq(c, k) for k in (0x20, 0x09, 0x0A, 0x0C, 0x0D)])


def char_pred(m, pat):
    """returns f(c)->bool-ish for char-class patterns (char, closure, fn item, [char] slice); None for &str"""
    kind, p = _pat(m, pat)
    if kind == 'char':
        return lambda c: c_eq(c, p)
    if kind == 'fn':
        if isinstance(p, Agg) and p.ty == 'array':
            return lambda c: b_or(*[c_eq(c, x) for x in p.fields])
        return lambda c: m.call_value(pat, [c])
    return None


@reg('str::trim_end_matches')
def str_trim_end_matches(m, a, ci):
    s = _s(m, a[0])
    f = char_pred(m, a[1])
    if f is None:
        p = _pat(m, a[1])[1]
        k = len(p)
        j = len(s)
        if k == 0:
            return s
        while j >= k and m.ctx.branch(str_eq(s.sub(j - k, j), p)):
            j -= k
        return s.sub(0, j)
    j = len(s)
    while j > 0 and m.ctx.branch(f(s.chars[j - 1])):
        j -= 1
    return s.sub(0, j)


@reg('str::trim_start_matches')
def str_trim_start_matches(m, a, ci):
    s = _s(m, a[0])
    f = char_pred(m, a[1])
    if f is None:
        p = _pat(m, a[1])[1]
        k = len(p)
        i = 0
        if k == 0:
            return s
        while i + k <= len(s) and m.ctx.branch(str_eq(s.sub(i, i + k), p)):
            i += k
        return s.sub(i, len(s))
    i = 0
    while i < len(s) and m.ctx.branch(f(s.chars[i])):
        i += 1
    return s.sub(i, len(s))


@reg('str::trim_matches')
def str_trim_matches(m, a, ci):
    s = str_trim_start_matches(m, a, ci)
    return str_trim_end_matches(m, [s, a[1]], ci)


@reg('str::trim_ascii_end')
def str_trim_ascii_end(m, a, ci):
    s = _s(m, a[0])
    j = len(s)
    while j > 0 and m.ctx.branch(is_ascii_ws(s.chars[j - 1])):
        j -= 1
    return s.sub(0, j)


@reg('str::trim_ascii_start')
def str_trim_ascii_start(m, a, ci):
    s = _s(m, a[0])
    i = 0
    while i < len(s) and m.ctx.branch(is_ascii_ws(s.chars[i])):
        i += 1
    return s.sub(i, len(s))


@reg('str::trim_ascii')
def str_trim_ascii(m, a, ci):
    return str_trim_ascii_end(m, [str_trim_ascii_start(m, a, ci)], ci)


@reg('str::strip_suffix')
def str_strip_suffix(m, a, ci):
    s = _s(m, a[0])
    f = char_pred(m, a[1])
    if f is not None:
        if len(s) and m.ctx.branch(f(s.chars[-1])):
            return some(s.sub(0, len(s) - 1))
        return NONE
    p = _pat(m, a[1])[1]
    if len(s) >= len(p) and m.ctx.branch(str_eq(s.sub(len(s) - len(p), len(s)), p)):
        return some(s.sub(0, len(s) - len(p)))
    return NONE


@reg('str::strip_prefix')
def str_strip_prefix(m, a, ci):
    s = _s(m, a[0])
    f = char_pred(m, a[1])
    if f is not None:
        if len(s) and m.ctx.branch(f(s.chars[0])):
            return some(s.sub(1, len(s)))
        return NONE
    p = _pat(m, a[1])[1]
    if len(s) >= len(p) and m.ctx.branch(str_eq(s.sub(0, len(p)), p)):
        return some(s.sub(len(p), len(s)))
    return NONE


def _split_pieces(m, s, pat, inclusive=False, terminator=False):
    f = char_pred(m, pat)
    pieces = []
    start = 0
    i = 0
    n = len(s)
    if f is not None:
        while i < n:
            if m.ctx.branch(f(s.chars[i])):
                pieces.append(s.sub(start, i + 1 if inclusive else i))
                start = i + 1
            i += 1
    else:
        p = _pat(m, pat)[1]
        k = len(p)
        if k == 0:
            raise EncoderGap('split on empty pattern')
        while i + k <= n:
            if m.ctx.branch(str_eq(s.sub(i, i + k), p)):
                pieces.append(s.sub(start, i + k if inclusive else i))
                i += k
                start = i
            else:
                i += 1
    if inclusive or terminator:
        if start < n:
            pieces.append(s.sub(start, n))
    else:
        pieces.append(s.sub(start, n))
    return pieces


# -- format!: the text is an opaque string determined by the template and the arguments ---------------------------------------------

@reg('Argument::new_display', 'Argument::new_debug', 'Argument::new_lower_hex', 'Argument::new_upper_hex')
def fmt_argument_new(m, a, ci):
    v = a[0]
    while isinstance(v, Ref):
        v = m.load(v)
    return Opaque('fmt_arg', (ci.method, repr(v)))


@reg('Arguments::new', 'Arguments::new_v1', 'Arguments::new_v1_formatted')
def fmt_arguments_new(m, a, ci):
    arr = m.load(a[1]) if len(a) > 1 and isinstance(a[1], Ref) else (a[1] if len(a) > 1 else None)
    return Opaque('fmt_arguments', (repr(a[0]), repr(getattr(arr, 'fields', arr))))


@reg('Arguments::from_str', 'Arguments::new_const')
def fmt_arguments_const(m, a, ci):
    return Opaque('fmt_arguments', (repr(a[0]), ''))


@reg('must_use', 'hint::must_use')
def hint_must_use(m, a, ci):
    return a[0]


@reg('format', 'fmt::format', 'alloc::fmt::format')
def fmt_format(m, a, ci):
    x = a[0]
    return OStr(('format', repr(x.deps if isinstance(x, Opaque) else x)))


@reg('str::split_once', 'str::rsplit_once')
def str_split_once(m, a, ci):
    """Some((before, after)) at the first (last for rsplit_once) occurrence of the pattern, None without one"""
    s = _s(m, a[0])
    f = char_pred(m, a[1])
    n = len(s)
    if f is not None:
        order = range(n) if ci.method == 'split_once' else reversed(range(n))
        for i in order:
            if m.ctx.branch(f(s.chars[i])):
                return some(tup(s.sub(0, i), s.sub(i + 1, n)))
        return NONE
    p = _pat(m, a[1])[1]
    k = len(p)
    if k == 0:
        raise EncoderGap('split_once on empty pattern')
    order = range(0, n - k + 1) if ci.method == 'split_once' else reversed(range(0, n - k + 1))
    for i in order:
        if m.ctx.branch(str_eq(s.sub(i, i + k), p)):
            return some(tup(s.sub(0, i), s.sub(i + k, n)))
    return NONE


@reg('str::split')
def str_split(m, a, ci):
    return ListIter(_split_pieces(m, _s(m, a[0]), a[1]))


@reg('str::split_inclusive')
def str_split_inclusive(m, a, ci):
    return ListIter(_split_pieces(m, _s(m, a[0]), a[1], inclusive=True))


@reg('str::split_terminator')
def str_split_terminator(m, a, ci):
    return ListIter(_split_pieces(m, _s(m, a[0]), a[1], terminator=True))


@reg('str::rsplit')
def str_rsplit(m, a, ci):
    return ListIter(list(reversed(_split_pieces(m, _s(m, a[0]), a[1]))))


@reg('str::split_whitespace')
def str_split_whitespace(m, a, ci):
    s = _s(m, a[0])
    pieces = []
    start = None
    for i, c in enumerate(s.chars):
        if m.ctx.branch(is_ws(c)):
            if start is not None:
                pieces.append(s.sub(start, i))
                start = None
        elif start is None:
            start = i
    if start is not None:
        pieces.append(s.sub(start, len(s)))
    return ListIter(pieces)


@reg('str::char_indices')
def str_char_indices(m, a, ci):
    s = _s(m, a[0])
    pre = s.prefix()
    return ListIter([tup(pre[i], c) for i, c in enumerate(s.chars)])


@reg('str::replace', 'EcoString::replace', 'String::replace')
def str_replace(m, a, ci):
    s = _s(m, a[0])
    to = _s(m, a[2])
    pieces = _split_pieces(m, s, a[1])
    out = pieces[0]
    for p in pieces[1:]:
        out = out.concat(to).concat(p)
    return out


@reg('mem::take', 'std::mem::take', 'core::mem::take')
def mem_take(m, a, ci):
    """returns the value behind the &mut and leaves Default::default() there (bool / integers / strings / vectors)"""
    old = m.load(a[0])
    if isinstance(old, bool) or z3.is_bool(old):
        dflt = False
    elif isinstance(old, int) or z3.is_bv(old):
        dflt = 0
    elif isinstance(old, Str):
        dflt = Str(())
    elif isinstance(old, Vec):
        dflt = Vec((), old.kind)
    elif isinstance(old, Agg) and getattr(old, 'ty', None) and old.variant is None:
        # a struct of the crate: its (derived or written) Default impl from the MIR; a derived one is rebuilt field by field when it is not in the dump
        try:
            dflt = crate_default(m, old.ty)
        except EncoderGap:
            fields = []
            for f_ in old.fields:
                if isinstance(f_, bool) or z3.is_bool(f_):
                    fields.append(False)
                elif isinstance(f_, int) or z3.is_bv(f_):
                    fields.append(0)
                elif isinstance(f_, Str):
                    fields.append(Str(()))
                elif isinstance(f_, Vec):
                    fields.append(Vec((), f_.kind))
                else:
                    raise EncoderGap('mem::take of %r' % (old,))
            dflt = Agg(old.ty, None, tuple(fields), old.names)
    else:
        raise EncoderGap('mem::take of %r' % (old,))
    m.store(a[0], dflt)
    return old


@reg('mem::replace', 'std::mem::replace', 'core::mem::replace')
def mem_replace(m, a, ci):
    old = m.load(a[0])
    m.store(a[0], a[1])
    return old


@reg('ptr::eq', 'std::ptr::eq', 'core::ptr::eq')
def ptr_eq(m, a, ci):
    """address identity of two references: same model object (syntax nodes carry a unique id)"""
    x = m.load(a[0]) if isinstance(a[0], Ref) else a[0]
    y = m.load(a[1]) if isinstance(a[1], Ref) else a[1]
    if hasattr(x, 'nid') and hasattr(y, 'nid'):
        return x.nid == y.nid
    if isinstance(a[0], Ref) and isinstance(a[1], Ref):
        return a[0].frame is a[1].frame and a[0].local == a[1].local and tuple(a[0].proj) == tuple(a[1].proj)
    return x is y


@reg('char::is_whitespace')
def char_is_whitespace(m, a, ci):
    return is_ws(m.load(a[0]) if isinstance(a[0], Ref) else a[0])


@reg('char::is_ascii_whitespace')
def char_is_ascii_whitespace(m, a, ci):
    return is_ascii_ws(m.load(a[0]) if isinstance(a[0], Ref) else a[0])


@reg('char::len_utf8')
def char_len_utf8(m, a, ci):
    return utf8len(a[0])


@reg('char::is_ascii')
def char_is_ascii(m, a, ci):
    c = m.load(a[0]) if isinstance(a[0], Ref) else a[0]
    return i_ult(c, 0x80, 32)


@reg('char.PartialEq::eq', 'char.PartialEq::ne')
def char_eq(m, a, ci):
    r = c_eq(m.load(a[0]), m.load(a[1]))
    return b_not(r) if ci.method == 'ne' else r


@reg('String::pop')
def string_pop(m, a, ci):
    cur = _s(m, a[0])
    if not len(cur):
        return NONE
    m.store(a[0], cur.sub(0, len(cur) - 1))
    return some(cur.chars[-1])


@reg('String::clear')
def string_clear(m, a, ci):
    m.store(a[0], Str(()))
    return UNIT


@reg('String::truncate')
def string_truncate(m, a, ci):
    cur = _s(m, a[0])
    n = a[1]
    if m.ctx.branch(i_ule(cur.byte_len(), n)):
        return UNIT
    j = boundary_index(m, cur, n, 'truncate')
    m.store(a[0], cur.sub(0, j))
    return UNIT


@reg('String.Add::add')
def string_add(m, a, ci):
    return _s(m, a[0]).concat(_s(m, a[1]))


@reg('String.AddAssign::add_assign')
def string_add_assign(m, a, ci):
    m.store(a[0], _s(m, a[0]).concat(_s(m, a[1])))
    return UNIT


@reg('String.Extend::extend', 'String.FromIterator::from_iter')
def string_extend(m, a, ci):
    if ci.method == 'from_iter':
        xs = drain(m, get_iter(m, into_iter(m, [a[0]], ci)))
        cur = Str(())
    else:
        xs = drain(m, get_iter(m, into_iter(m, [a[1]], ci)))
        cur = _s(m, a[0])
    cs = list(cur.chars)
    for x in xs:
        x = m.load(x) if isinstance(x, Ref) else x
        if isinstance(x, Str):
            cs.extend(x.chars)
        else:
            cs.append(x)
    r = Str(cs)
    if ci.method == 'from_iter':
        return r
    m.store(a[0], r)
    return UNIT


@reg('slice::join', 'slice::concat', 'Join::join')
def slice_join(m, a, ci):
    x0 = m.load(a[0]) if isinstance(a[0], Ref) else a[0]
    if isinstance(x0, Opaque) and x0.tag == 'collected':
        return OStr(('joined', x0.deps))
    g, r, n = seq_view(m, a[0])
    sep = _s(m, a[1]) if len(a) > 1 else Str(())
    out = Str(())
    for i in range(n):
        if i:
            out = out.concat(sep)
        out = out.concat(_s(m, g(i)))
    return out


@reg('Into::into', 'From::from')
def into_into(m, a, ci):
    return a[0]


# -- ordering on strings, sorting, hash sets -----------------------------------------------------

def str_lt(a, b):
    """byte-wise (= code-point-wise) lexicographic a < b as a formula"""
    n = min(len(a), len(b))
    res = len(a) < len(b)   # all compared equal: shorter is smaller
    for i in range(n - 1, -1, -1):
        x, y = a.chars[i], b.chars[i]
        res = b_or(i_ult(x, y, 32), b_and(c_eq(x, y), res))
    return res


def key_lt(m, x, y):
    x = m.load(x) if isinstance(x, Ref) else x
    y = m.load(y) if isinstance(y, Ref) else y
    if isinstance(x, Str) and isinstance(y, Str):
        return str_lt(x, y)
    if isinstance(x, (int,)) or is_sym(x):
        return i_ult(x, y)
    if hasattr(x, 'model_lt'):
        return x.model_lt(m, y)
    if isinstance(x, Agg) and x.ty == 'Reverse' and isinstance(y, Agg) and y.ty == 'Reverse':
        return key_lt(m, y.fields[0], x.fields[0])
    if isinstance(x, Agg) and x.ty == 'tuple' and isinstance(y, Agg) and y.ty == 'tuple' and len(x.fields) == len(y.fields):
        res = False
        for a, b in reversed(list(zip(x.fields, y.fields))):
            res = b_or(key_lt(m, a, b), b_and(b_not(key_lt(m, b, a)), res))
        return res
    raise EncoderGap('ordering of %r / %r' % (x, y))


def stable_sort(m, items, keys, reverse=False):
    """stable insertion sort; every comparison whose outcome is not determined forks the path"""
    out = []
    for it, k in zip(items, keys):
        pos = len(out)
        while pos > 0 and m.ctx.branch(key_lt(m, k, out[pos - 1][1])):
            pos -= 1
        out.insert(pos, (it, k))
    return [it for it, k in out]


@reg('slice::sort_by_key', 'slice::sort_by_cached_key', 'slice::sort_unstable_by_key')
def slice_sort_by_key(m, a, ci):
    v = m.load(a[0])
    if not isinstance(v, Vec):
        raise EncoderGap('sort of %r' % (v,))
    keys = [m.call_value(a[1], [m.heap.alloc(x) if not isinstance(x, Ref) else x]) for x in v.items]
    m.store(a[0], Vec(stable_sort(m, list(v.items), keys), v.kind))
    return UNIT


@reg('Vec::dedup', 'Vec::dedup_by_key')
def vec_dedup(m, a, ci):
    v = _vec(m, a[0])
    out = []
    for x in v.items:
        if out and m.ctx.branch(value_eq(m, out[-1], x)):
            continue
        out.append(x)
    m.store(a[0], Vec(out, v.kind))
    return UNIT


@reg('Vec.Clone::clone', 'SmallVec.Clone::clone', 'slice::to_vec')
def vec_clone(m, a, ci):
    g, r, n = seq_view(m, a[0])
    return Vec([g(i) for i in range(n)], 'Vec')


@reg('slice::sort', 'slice::sort_unstable')
def slice_sort(m, a, ci):
    v = m.load(a[0])
    m.store(a[0], Vec(stable_sort(m, list(v.items), list(v.items)), v.kind))
    return UNIT


@reg('slice::sort_by', 'slice::sort_unstable_by')
def slice_sort_by(m, a, ci):
    v = m.load(a[0])
    out = []
    for it in v.items:
        pos = len(out)
        while pos > 0:
            o = m.call_value(a[1], [m.heap.alloc(it), m.heap.alloc(out[pos - 1])])
            d = o.disc if isinstance(o, CEnum) else None
            if d is None:
                raise EncoderGap('sort_by comparator result %r' % (o,))
            if not m.ctx.branch(i_eq(d, norm(-1, o.bits), o.bits)):
                break
            pos -= 1
        out.insert(pos, it)
    m.store(a[0], Vec(out, v.kind))
    return UNIT


@reg('str.Ord::cmp', 'String.Ord::cmp', 'EcoString.Ord::cmp', 'str.PartialOrd::partial_cmp')
def str_cmp(m, a, ci):
    x, y = _s(m, a[0]), _s(m, a[1])
    lt = str_lt(x, y)
    eq = False if len(x) != len(y) else str_eq(x, y)
    d = b_ite(lt, norm(-1, 64), b_ite(eq, 0, 1))
    r = CEnum('Ordering', d, 64)
    return some(r) if ci.method == 'partial_cmp' else r


class SetV:
    """hash set with path-concrete structure: list of distinct (under the path condition) elements"""
    __slots__ = ('items',)

    def __init__(self, items=()):
        self.items = tuple(items)


@reg('HashSet::new', 'HashSet::default', 'HashSet::with_capacity', 'BTreeSet::new')
def hashset_new(m, a, ci):
    return SetV()


@reg('HashSet::insert', 'BTreeSet::insert')
def hashset_insert(m, a, ci):
    s = m.load(a[0])
    x = a[1]
    for y in s.items:
        if m.ctx.branch(value_eq(m, x, y)):
            return False
    m.store(a[0], SetV(s.items + (x,)))
    return True


@reg('HashSet::contains', 'BTreeSet::contains')
def hashset_contains(m, a, ci):
    s = m.load(a[0])
    return b_or(*[value_eq(m, a[1], y) for y in s.items])


@reg('HashSet::len', 'BTreeSet::len')
def hashset_len(m, a, ci):
    return len(m.load(a[0]).items)


# -- hash maps with path-concrete keys ---------------------------------------------------------------

class MapV:
    """finite map keyed by hashable python keys (span ids); values are model values"""
    __slots__ = ('d',)

    def __init__(self, d=None):
        self.d = dict(d or {})

    def elem(self, k):
        return self.d[k]

    def with_elem(self, k, v):
        d = dict(self.d)
        d[k] = v
        return MapV(d)

    def __repr__(self):
        return 'Map%r' % (self.d,)


def map_key(m, k):
    k = m.load(k) if isinstance(k, Ref) else k
    if isinstance(k, Opaque):
        return (k.tag,) + tuple(k.deps)
    if isinstance(k, (int, str)):
        return k
    if isinstance(k, Str) and k.is_concrete():
        return ('str', k.concrete())
    raise EncoderGap('map key %r' % (k,))


@reg('HashMap.Default::default', 'HashMap::new', 'HashMap::default', 'HashMap::with_hasher', 'HashMap::with_capacity_and_hasher', 'HashMap::with_capacity')
def hashmap_new(m, a, ci):
    return MapV()


@reg('HashMap::entry')
def hashmap_entry(m, a, ci):
    return Opaque('map_entry', (a[0], map_key(m, a[1])))


def crate_default(m, ty):
    from .machine import parse_call_name
    fn = m.defs.resolve(parse_call_name('<%s as Default>::default' % ty))
    if fn is None:
        if ty and re.match(r'^(std::vec::|alloc::vec::)?Vec<', ty):
            return Vec((), 'Vec')
        if ty in ('bool',):
            return False
        if ty in INT_BITS:
            return 0
        raise EncoderGap('Default for %s' % ty)
    return m.call_fn(fn, [])


@reg('Entry::or_default')
def entry_or_default(m, a, ci):
    ref, key = a[0].deps
    mp = m.load(ref)
    if key not in mp.d:
        vty = strip_ref(ci.dest_ty) if ci.dest_ty else None
        m.store(ref, mp.with_elem(key, crate_default(m, vty)))
    return Ref(ref.frame, ref.local, ref.proj + (('elem', key),), True)


@reg('Entry::or_insert')
def entry_or_insert(m, a, ci):
    ref, key = a[0].deps
    mp = m.load(ref)
    if key not in mp.d:
        m.store(ref, mp.with_elem(key, a[1]))
    return Ref(ref.frame, ref.local, ref.proj + (('elem', key),), True)


@reg('HashMap::get')
def hashmap_get(m, a, ci):
    mp = m.load(a[0])
    key = map_key(m, a[1])
    if key in mp.d:
        r = a[0]
        return some(Ref(r.frame, r.local, r.proj + (('elem', key),)))
    return NONE


@reg('HashMap::contains_key')
def hashmap_contains_key(m, a, ci):
    return map_key(m, a[1]) in m.load(a[0]).d


@reg('HashMap::insert')
def hashmap_insert(m, a, ci):
    mp = m.load(a[0])
    key = map_key(m, a[1])
    old = mp.d.get(key)
    m.store(a[0], mp.with_elem(key, a[2]))
    return some(old) if old is not None else NONE


# -- integer helpers that can panic -------------------------------------------------------------------

def _udiv(a, b):
    if not is_sym(a) and not is_sym(b):
        return a // b
    return lite(z3.UDiv(bv(a, 64), bv(b, 64)))


def _urem(a, b):
    if not is_sym(a) and not is_sym(b):
        return a % b
    return lite(z3.URem(bv(a, 64), bv(b, 64)))


@reg('usize::div_ceil')
def usize_div_ceil(m, a, ci):
    m.panic_if(i_eq(a[1], 0, 64), 'attempt to divide by zero')
    q = _udiv(a[0], a[1])
    r = _urem(a[0], a[1])
    return b_ite(i_eq(r, 0, 64), q, i_add(q, 1))


@reg('usize::checked_div')
def usize_checked_div(m, a, ci):
    if m.ctx.branch(i_eq(a[1], 0, 64)):
        return NONE
    return some(_udiv(a[0], a[1]))


@reg('usize::checked_sub')
def usize_checked_sub(m, a, ci):
    if m.ctx.branch(i_ult(a[0], a[1])):
        return NONE
    return some(i_sub(a[0], a[1]))


@reg('usize::checked_add')
def usize_checked_add(m, a, ci):
    s = i_add(a[0], a[1])
    if m.ctx.branch(i_ult(s, a[0])):
        return NONE
    return some(s)


@reg('usize::wrapping_sub')
def usize_wrapping_sub(m, a, ci):
    return i_sub(a[0], a[1])


@reg('usize::wrapping_add')
def usize_wrapping_add(m, a, ci):
    return i_add(a[0], a[1])


@reg('usize::is_multiple_of')
def usize_is_multiple_of(m, a, ci):
    if m.ctx.branch(i_eq(a[1], 0, 64)):
        return i_eq(a[0], 0, 64)
    return i_eq(_urem(a[0], a[1]), 0, 64)


@reg('usize::next_multiple_of')
def usize_next_multiple_of(m, a, ci):
    m.panic_if(i_eq(a[1], 0, 64), 'attempt to calculate the remainder with a divisor of zero')
    r = _urem(a[0], a[1])
    return b_ite(i_eq(r, 0, 64), a[0], i_add(a[0], i_sub(a[1], r)))


class PositionIter(Iter):
    """itertools::with_position"""

    def __init__(self, inner):
        self.inner = inner
        self.items = None
        self.i = 0

    def next(self, m):
        if self.items is None:
            self.items = drain(m, self.inner)
        n = len(self.items)
        if self.i >= n:
            return NONE
        if n == 1:
            pos = 3
        elif self.i == 0:
            pos = 0
        elif self.i == n - 1:
            pos = 2
        else:
            pos = 1
        it = self.items[self.i]
        self.i += 1
        return some(tup(CEnum('Position', pos, 64), it))


@reg('Itertools::with_position')
def itertools_with_position(m, a, ci):
    return PositionIter(get_iter(m, a[0]))


@reg('Vec::capacity')
def vec_capacity(m, a, ci):
    return len(_vec(m, a[0]).items)


@reg('Vec::reserve', 'Vec::shrink_to_fit', 'Vec::reserve_exact')
def vec_reserve(m, a, ci):
    return UNIT


@reg('DoubleEndedIterator::rfind')
def iter_rfind(m, a, ci):
    it = get_iter(m, a[0])
    while True:
        o = it.next_back(m)
        if o.variant == 'None':
            return NONE
        if m.ctx.branch(m.call_value(a[1], [m.heap.alloc(o.fields[0])])):
            return o


@reg('DoubleEndedIterator::rposition', 'Iterator::rposition')
def iter_rposition(m, a, ci):
    it = get_iter(m, a[0])
    xs = drain(m, it)
    for i in range(len(xs) - 1, -1, -1):
        if m.ctx.branch(m.call_value(a[1], [xs[i]])):
            return some(i)
    return NONE


@reg('PartialEq::ne')
def generic_ne(m, a, ci):
    """default `ne` of a derived PartialEq: negation of the crate's own `eq`"""
    from .machine import parse_call_name
    ci2 = parse_call_name('<%s as PartialEq>::eq' % ci.T)
    fn = None
    for mod in [m.module] + list(m.extra_modules):
        fn = mod.defindex.resolve(ci2)
        if fn is not None:
            break
    if fn is None:
        x = m.load(a[0]) if isinstance(a[0], Ref) else a[0]
        y = m.load(a[1]) if isinstance(a[1], Ref) else a[1]
        return b_not(value_eq(m, x, y))
    return b_not(m.call_fn(fn, list(a)))


@reg('str::is_ascii')
def str_is_ascii(m, a, ci):
    s = _s(m, a[0])
    return b_and(*[i_ult(c, 0x80, 32) for c in s.chars])


def _bytes_of(m, s):
    """bytes of a string whose characters are all ASCII on this path (forces the decision)"""
    out = []
    for c in s.chars:
        if not m.ctx.branch(i_ult(c, 0x80, 32)):
            raise EncoderGap('byte view of a non-ASCII symbolic character')
        out.append(c if not is_sym(c) else lite(z3.Extract(7, 0, c)))
    return out


@reg('str::bytes')
def str_bytes(m, a, ci):
    return ListIter(_bytes_of(m, _s(m, a[0])))


@reg('str::as_bytes')
def str_as_bytes(m, a, ci):
    return tuple(_bytes_of(m, _s(m, a[0])))


@reg('u8::is_ascii_whitespace')
def u8_is_ascii_whitespace(m, a, ci):
    c = m.load(a[0]) if isinstance(a[0], Ref) else a[0]
    return b_or(*[i_eq(c, k, 8) for k in (0x20, 0x09, 0x0A, 0x0C, 0x0D)])


@reg('Itertools::collect_vec')
def itertools_collect_vec(m, a, ci):
    return Vec(drain(m, get_iter(m, a[0])), 'Vec')


@reg('Itertools::join')
def itertools_join(m, a, ci):
    """itertools' join: the Display of every item separated by `sep` (items here are strings)"""
    items = drain(m, get_iter(m, a[0]))
    sep = _s(m, a[1])
    out = Str(())
    for i, it in enumerate(items):
        if i:
            out = out.concat(sep)
        out = out.concat(_s(m, it))
    return out


# -- ordered maps (BTreeMap): a sorted tuple of (key, value); every comparison whose outcome is not determined forks ------------------

class BTreeV:
    __slots__ = ('items',)

    def __init__(self, items=()):
        self.items = tuple(items)

    def __repr__(self):
        return 'BTree%r' % (self.items,)


def btree_insert(m, bm, k, v):
    """-> (new map, old value or None); equal keys replace the value (and keep the old key, as std does)"""
    items = list(bm.items)
    pos = 0
    while pos < len(items):
        k2 = items[pos][0]
        if m.ctx.branch(key_lt(m, k, k2)):
            break
        if not m.ctx.branch(key_lt(m, k2, k)):
            old = items[pos][1]
            items[pos] = (k2, v)
            return BTreeV(items), old
        pos += 1
    items.insert(pos, (k, v))
    return BTreeV(items), None


@reg('BTreeMap::new', 'BTreeMap.Default::default', 'BTreeMap::default')
def btreemap_new(m, a, ci):
    return BTreeV(())


@reg('BTreeMap::insert')
def btreemap_insert(m, a, ci):
    bm, old = btree_insert(m, m.load(a[0]), a[1], a[2])
    m.store(a[0], bm)
    return some(old) if old is not None else NONE


@reg('BTreeMap::len')
def btreemap_len(m, a, ci):
    return len(m.load(a[0]).items)


@reg('BTreeMap::is_empty')
def btreemap_is_empty(m, a, ci):
    return len(m.load(a[0]).items) == 0


@reg('BTreeMap::into_values', 'BTreeMap::values')
def btreemap_values(m, a, ci):
    bm = m.load(a[0]) if isinstance(a[0], Ref) else a[0]
    return ListIter([v for k, v in bm.items])


@reg('BTreeMap::into_keys', 'BTreeMap::keys')
def btreemap_keys(m, a, ci):
    bm = m.load(a[0]) if isinstance(a[0], Ref) else a[0]
    return ListIter([k for k, v in bm.items])


@reg('BTreeMap.IntoIterator::into_iter', 'BTreeMap::iter')
def btreemap_iter(m, a, ci):
    bm = m.load(a[0]) if isinstance(a[0], Ref) else a[0]
    return ListIter([tup(k, v) for k, v in bm.items])


@reg('BTreeMap::contains_key')
def btreemap_contains_key(m, a, ci):
    bm = m.load(a[0])
    return b_or(*[b_and(b_not(key_lt(m, a[1], k)), b_not(key_lt(m, k, a[1]))) for k, v in bm.items])
