"""Path exploration by decision-trace re-execution over one incremental z3 solver.

A harness body is an ordinary python function body(ctx).  Whenever it (or a
contract, or the MIR interpreter) needs to decide a symbolic condition it
calls ctx.branch / ctx.choose.  The explorer records the decision, schedules
the feasible alternatives and later re-runs body from the start replaying the
recorded prefix.  Each decision / assumption is one push level on the solver,
so the common prefix between consecutive paths is reused.
"""
import os
import subprocess
import tempfile
import time
import z3

from .values import as_bool, simp


class Inconclusive(Exception):
    """encoder gap, solver cap hit, unwinding bound hit: never reported as success"""


class Ambient(Inconclusive):
    """the path reached process-global mutable state, an environment source (clock, environment, thread / process identity, random
    hasher seed) or an iteration whose order depends on a random hasher.  The C17 harness turns this into an obligation; for any
    other harness it is an encoder gap (inconclusive)."""
    def __init__(self, kind, detail):
        Inconclusive.__init__(self, 'ambient state reached (%s): %s' % (kind, detail))
        self.kind = kind
        self.detail = detail


class PathEnd(Exception):
    """path terminated on purpose (e.g. assumption infeasible)"""


class Panic(Exception):
    def __init__(self, msg):
        Exception.__init__(self, msg)
        self.msg = msg


class Stats:
    def __init__(self):
        self.paths = 0
        self.infeasible = 0
        self.solver_checks = 0
        self.sat = 0
        self.unsat = 0
        self.unknown = 0
        self.solver_s = 0.0
        self.obligations = 0
        self.discharged = 0

    def as_dict(self):
        return dict(self.__dict__)


# second-opinion sampling: every VERIF_XCHECK-th query is written out as SMT-LIB2 and decided again by cvc5 and by the system z3 4.8.12
XCHECK = dict(period=int(os.environ.get('VERIF_XCHECK', '0') or 0), count=0, sampled=0, agree=0, disagree=[], inconclusive=0)


def second_opinion(solver, extra, verdict):
    s2 = z3.Solver()
    s2.add(solver.assertions())
    for e in extra:
        s2.add(e)
    text = '(set-logic ALL)\n' + s2.to_smt2()
    XCHECK['sampled'] += 1
    with tempfile.NamedTemporaryFile('w', suffix='.smt2', delete=False) as f:
        f.write(text)
        path = f.name
    try:
        for cmd in (['cvc5', '--lang=smt2', '--tlimit=20000', path], ['/usr/bin/z3', '-T:20', '-smt2', path]):
            try:
                r = subprocess.run(cmd, capture_output=True, text=True, timeout=40)
                out = r.stdout.strip().splitlines()
            except Exception:
                out = []
            ans = next((l.strip() for l in out if l.strip() in ('sat', 'unsat', 'unknown')), None)
            if any(l.startswith('(error') for l in out) or ans in (None, 'unknown'):
                XCHECK['inconclusive'] += 1
            elif (ans == 'sat') == verdict:
                XCHECK['agree'] += 1
            else:
                keep = path + '.disagree'
                open(keep, 'w').write(text)
                XCHECK['disagree'].append(dict(solver=cmd[0], z3_new='sat' if verdict else 'unsat', other=ans, query=keep))
    finally:
        os.unlink(path)


class Explorer:
    def __init__(self, timeout_ms=60000, max_paths=2000000, deadline=None):
        self.solver = z3.Solver()
        self.solver.set('timeout', timeout_ms)
        self.depth = 0
        self.stats = Stats()
        self.max_paths = max_paths
        self.deadline = deadline
        self.violations = []   # (label, model dict, extra)
        self.witness = {}      # label -> model (vacuity witnesses)
        self.child_extra = None    # forked path workers: what else to send back / how to merge it
        self.merge_extra = None

    # -- solver helpers ---------------------------------------------------
    def check(self, *extra):
        t = time.time()
        r = self.solver.check(*extra)
        self.stats.solver_s += time.time() - t
        self.stats.solver_checks += 1
        if r == z3.sat:
            self.stats.sat += 1
        elif r == z3.unsat:
            self.stats.unsat += 1
        else:
            self.stats.unknown += 1
            raise Inconclusive('solver returned unknown (%s)' % self.solver.reason_unknown())
        if XCHECK['period']:
            XCHECK['count'] += 1
            if XCHECK['count'] % XCHECK['period'] == 0:
                second_opinion(self.solver, extra, r == z3.sat)
        return r == z3.sat

    def pop_to(self, depth):
        while self.depth > depth:
            self.solver.pop()
            self.depth -= 1

    def run(self, body, parallel=0):
        """explore all paths of body(ctx).  parallel=W: once enough alternatives are pending they are dealt out to W forked worker
        processes, each of which explores its share (and everything below it) to the end; counters, violations and witnesses are merged."""
        work = [((), 0)]
        while work:
            if parallel > 1 and (len(work) >= 2 * parallel or (self.stats.paths >= 60 and len(work) >= 4)):
                self._run_forked(body, work, min(parallel, len(work)))
                self.pop_to(0)
                return
            if self.deadline is not None and time.time() > self.deadline:
                raise Inconclusive('wall-clock budget exhausted with %d paths pending' % len(work))
            # with workers to feed, first widen (oldest = shallowest alternative first) so that many subtrees are pending
            if parallel > 1:
                # out of stack order: nothing on the solver may be assumed to belong to this alternative
                prefix, keep = work.pop(0)[0], 0
            else:
                prefix, keep = work.pop()
            self.pop_to(keep)
            ctx = PathCtx(self, list(prefix), keep, work)
            self.stats.paths += 1
            if self.stats.paths > self.max_paths:
                raise Inconclusive('path budget exhausted')
            try:
                body(ctx)
            except PathEnd:
                self.stats.infeasible += 1
        self.pop_to(0)


def _forked(self, body, work, W):
    import os
    import pickle
    import subprocess
    import sys
    import tempfile
    tmpdir = tempfile.mkdtemp(prefix='mirsym-paths-')
    sys.stdout.flush()
    sys.stderr.flush()
    import multiprocessing as mp
    q = mp.Queue()
    idle = mp.Value('i', 0)
    pending = mp.Value('i', 0)
    pids = []
    for w in range(W):
        pid = os.fork()
        if pid == 0:
            code = 0
            try:
                mine = [(p, 0) for p, k in work[w::W]]     # dealt out of stack order: re-assert every event
                self.stats = Stats()
                self.violations = []
                self.witness = {}
                err = None
                try:
                    while True:
                        if not mine:
                            # out of work: take a donated alternative, or finish when every worker is idle and nothing is in flight
                            with idle.get_lock():
                                idle.value += 1
                            got = None
                            while got is None:
                                try:
                                    got = q.get(timeout=0.2)
                                except Exception:
                                    got = None
                                if got is None:
                                    if idle.value >= W and pending.value <= 0:
                                        break
                                    if self.deadline is not None and time.time() > self.deadline:
                                        break
                            if got is None:
                                break
                            with idle.get_lock():
                                idle.value -= 1
                            with pending.get_lock():
                                pending.value -= 1
                            mine.append((got, 0))
                        if self.deadline is not None and time.time() > self.deadline:
                            raise Inconclusive('wall-clock budget exhausted with %d paths pending' % len(mine))
                        # somebody is idle: give away the oldest (shallowest, usually largest) pending alternative
                        if len(mine) > 1 and idle.value > 0 and pending.value < W:
                            donated = mine.pop(0)[0]
                            with pending.get_lock():
                                pending.value += 1
                            q.put(tuple(donated))
                        prefix, keep = mine.pop()
                        self.pop_to(keep)
                        ctx = PathCtx(self, list(prefix), keep, mine)
                        self.stats.paths += 1
                        if self.stats.paths > self.max_paths:
                            raise Inconclusive('path budget exhausted')
                        try:
                            body(ctx)
                        except PathEnd:
                            self.stats.infeasible += 1
                except Inconclusive as e:
                    err = str(e)
                viol = []
                for lab, mdl, info in self.violations:
                    try:
                        pickle.dumps(info)
                    except Exception:
                        info = dict(unpicklable=repr(info)[:2000])
                    viol.append((lab, None, info))
                with open(os.path.join(tmpdir, '%d.pkl' % w), 'wb') as f:
                    pickle.dump(dict(stats=self.stats.__dict__, viol=viol, witness={k: True for k in self.witness}, err=err,
                                     extra=self.child_extra() if self.child_extra else None), f)
            except BaseException:
                import traceback
                traceback.print_exc()
                code = 3
            finally:
                sys.stdout.flush()
                sys.stderr.flush()
                os._exit(code)
        pids.append(pid)
    bad = False
    for pid in pids:
        _, st = os.waitpid(pid, 0)
        bad = bad or st != 0
    errs = []
    for w in range(W):
        fp = os.path.join(tmpdir, '%d.pkl' % w)
        if not os.path.exists(fp):
            bad = True
            continue
        r = pickle.load(open(fp, 'rb'))
        for k, v in r['stats'].items():
            setattr(self.stats, k, getattr(self.stats, k) + v)
        self.violations += r['viol']
        for k in r['witness']:
            self.witness.setdefault(k, True)
        if r['err']:
            errs.append(r['err'])
        if self.merge_extra and r.get('extra') is not None:
            self.merge_extra(r['extra'])
    subprocess.run(['rm', '-rf', tmpdir])
    del work[:]
    if bad:
        raise Inconclusive('a path worker process ended abnormally (out of memory?)')
    if errs:
        raise Inconclusive(errs[0])


Explorer._run_forked = _forked


class PathCtx:
    def __init__(self, ex, prefix, keep, work):
        self.ex = ex
        self.prefix = prefix      # decisions to replay
        self.decisions = []       # decisions taken so far on this path
        self.keep = keep          # events [0, keep) are already on the solver
        self.events = 0
        self.work = work
        self.counters = {}
        self.notes = []           # free-form trace of interesting facts on this path

    # -- fresh symbols ------------------------------------------------------
    def fresh_name(self, base):
        n = self.counters.get(base, 0)
        self.counters[base] = n + 1
        return '%s!%d' % (base, n)

    def fresh_bv(self, base, bits):
        return z3.BitVec(self.fresh_name(base), bits)

    def fresh_bool(self, base):
        return z3.Bool(self.fresh_name(base))

    # -- events ---------------------------------------------------------------
    def _event(self, cond):
        e = self.events
        self.events += 1
        if e < self.keep:
            return
        assert self.ex.depth == e, (self.ex.depth, e)
        self.ex.solver.push()
        self.ex.depth += 1
        self.ex.solver.add(cond)

    def assume(self, cond):
        d = len(self.decisions)
        if d < len(self.prefix):
            ent = self.prefix[d]
            self.decisions.append(ent)
            if ent[1]:
                self._event(as_bool(cond))
            return
        cond = simp(as_bool(cond))
        if cond is True:
            self.decisions.append((-1, False))
            return
        if cond is False:
            raise PathEnd()
        self.decisions.append((-1, True))
        self._event(cond)
        if not self.ex.check():
            raise PathEnd()

    def choose(self, conds):
        """conds: list of python bools / z3 Bools covering all cases. Returns the index taken."""
        d = len(self.decisions)
        if d < len(self.prefix):
            i, ev = self.prefix[d]
            self.decisions.append((i, ev))
            if ev:
                self._event(as_bool(conds[i]))
            return i
        cs = [simp(as_bool(c)) for c in conds]
        live = [i for i, c in enumerate(cs) if c is not False]
        definite = [i for i in live if cs[i] is True]
        if definite:
            self.decisions.append((definite[0], False))
            return definite[0]
        # new decision point: feasibility of each option
        feas = []
        for i in live:
            if self.ex.check(cs[i]):
                feas.append(i)
        if not feas:
            raise PathEnd()
        taken = feas[0]
        e = self.events
        for j in reversed(feas[1:]):
            self.work.append((tuple(self.decisions) + ((j, True),), e))
        self.decisions.append((taken, True))
        self._event(cs[taken])
        return taken

    def branch(self, cond):
        if isinstance(cond, bool):
            return cond
        if isinstance(cond, int):
            return cond != 0
        return self.choose([cond, z3.Not(as_bool(cond))]) == 0

    # -- queries that do not fork --------------------------------------------
    def feasible(self, cond):
        cond = simp(as_bool(cond))
        if isinstance(cond, bool):
            return cond and self.ex.check()
        return self.ex.check(cond)

    def model_for(self, cond):
        """return a z3 model of pc ∧ cond or None"""
        cond = simp(as_bool(cond))
        if cond is False:
            return None
        if cond is True:
            ok = self.ex.check()
        else:
            ok = self.ex.check(cond)
        return self.ex.solver.model() if ok else None

    def must_hold(self, cond, label, describe=None):
        """proof obligation on this path: pc ⇒ cond.  Records a violation (with model) if not."""
        self.ex.stats.obligations += 1
        cond = as_bool(cond) if not (cond is None or isinstance(cond, (list, tuple, str))) else bool(cond)     # python truthiness of plain values
        m = self.model_for(simp(z3.Not(cond)) if not isinstance(cond, bool) else (not cond))
        if m is None:
            self.ex.stats.discharged += 1
            return True
        info = describe(m) if describe else None
        self.ex.violations.append((label, m, info))
        return False

    def witness(self, label, cond=True, describe=None):
        """vacuity witness: record that pc ∧ cond is satisfiable (first time only)"""
        if label in self.ex.witness:
            return
        m = self.model_for(cond)
        if m is not None:
            self.ex.witness[label] = describe(m) if describe else True
