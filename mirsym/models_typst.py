"""Contracts for typst-syntax: abstract syntax nodes, typed AST wrappers, Source / LinkedNode."""
import json
import os
import re
import z3

from .values import *
from .explore import Panic
from .machine import EncoderGap, head_ident, generic_args
from .models_std import STD, reg, Str, ListIter, Iter, value_eq, _s

KIND_FLAGS = ['is_trivia', 'is_keyword', 'is_grouping', 'is_terminator', 'is_block', 'is_stmt', 'is_error',
              'Expr', 'Pattern', 'Markup', 'Arg', 'BinOp', 'UnOp']
CAST_ENUMS = ['Expr', 'Pattern', 'Arg', 'Param', 'ArrayItem', 'DictItem', 'DestructuringItem']


class KindTable:
    """tables extracted from the real typst-syntax through the native driver"""

    def __init__(self, driver, adts):
        names = [v[0] for v in adts.enums['SyntaxKind']]
        r = driver.call('kinds', len(names))
        if r[0] != 'ok':
            raise EncoderGap('kind table extraction failed: %r' % (r[:3],))
        self.names = []
        self.by_name = {}
        self.flags = {f: set() for f in KIND_FLAGS}
        self.cast_variant = {e: {} for e in CAST_ENUMS}   # enum -> {kind int -> variant name}
        self.binop_of_kind = {}     # kind int -> BinOp variant name
        self.unop_of_kind = {}
        self.binops = {}            # variant -> (precedence, text)
        self.unops = {}
        rb = driver.call('binops')
        for ent in rb[1:]:
            vn, prec, hx = ent.split('/')
            self.binops[vn] = (int(prec), bytes.fromhex(hx).decode())
        for i, ent in enumerate(r[1:]):
            name, val, fl, casts, bino, uno = ent.split(':')
            if bino != '-':
                vn, prec, hx = bino.split('/')
                self.binop_of_kind[i] = vn
            if uno != '-':
                vn, prec, hx = uno.split('/')
                self.unop_of_kind[i] = vn
                self.unops[vn] = (int(prec), bytes.fromhex(hx).decode())
            if name != names[i] or int(val) != i:
                raise EncoderGap('SyntaxKind table mismatch at %d: source says %s, binary says %s' % (i, names[i], name))
            self.names.append(name)
            self.by_name[name] = i
            for f, b in zip(KIND_FLAGS, fl):
                if b == '1':
                    self.flags[f].add(i)
            for e, v in zip(CAST_ENUMS, casts.split(',')):
                if v != '-':
                    self.cast_variant[e][i] = v
        self.n = len(self.names)

    def k(self, name):
        return self.by_name[name]

    def cast_set(self, T):
        """set of kind values for which node.cast::<T>() is Some"""
        if T in self.cast_variant:
            return set(self.cast_variant[T])
        if T == 'Markup':
            return {self.k('Markup')}
        if T in self.by_name:
            return {self.k(T)}
        alias = {'CodeBlock': 'CodeBlock', 'ContentBlock': 'ContentBlock', 'Code': 'Code', 'Math': 'Math',
                 'ListItem': 'ListItem', 'EnumItem': 'EnumItem', 'TermItem': 'TermItem', 'LetBinding': 'LetBinding',
                 'SetRule': 'SetRule', 'ShowRule': 'ShowRule', 'WhileLoop': 'WhileLoop', 'ForLoop': 'ForLoop',
                 'ModuleImport': 'ModuleImport', 'ModuleInclude': 'ModuleInclude', 'LoopBreak': 'LoopBreak',
                 'LoopContinue': 'LoopContinue', 'FuncReturn': 'FuncReturn', 'DestructAssignment': 'DestructAssignment'}
        if T in alias:
            return {self.k(alias[T])}
        raise EncoderGap('cast set for ast type %s' % T)


KT = None  # set by harnesses: models_typst.KT = KindTable(...)


_KIND_IN_CACHE = {}


def kind_in(kind, s):
    """kind (int or BV8) ∈ set of ints"""
    if not is_sym(kind):
        return kind in s
    if not s:
        return False
    key = (kind.get_id(), frozenset(s))
    r = _KIND_IN_CACHE.get(key)
    if r is None:
        ks = sorted(s)
        # contiguous runs become range tests
        terms = []
        i = 0
        while i < len(ks):
            j = i
            while j + 1 < len(ks) and ks[j + 1] == ks[j] + 1:
                j += 1
            if j == i:
                terms.append(kind == z3.BitVecVal(ks[i], 8))
            else:
                terms.append(z3.And(z3.UGE(kind, z3.BitVecVal(ks[i], 8)), z3.ULE(kind, z3.BitVecVal(ks[j], 8))))
            i = j + 1
        r = simp(z3.Or(*terms)) if len(terms) > 1 else simp(terms[0])
        _KIND_IN_CACHE[key] = (r, kind)  # keep kind alive so the id stays unique
        return r
    return r[0]


class Node:
    """abstract syntax node.  kind: int | BV8.  Leaves carry text (Str); inner nodes carry children."""
    _next = [1]

    def __init__(self, kind, text=None, children=(), err=False, tag=None, nid=None, blen=None):
        self.blen = blen   # symbolic byte length of a leaf whose content is not modelled
        if nid is None:
            nid = Node._next[0]
            Node._next[0] += 1
        self.nid = nid
        self.kind = kind
        self.text = text if text is not None else Str(())
        self.children = tuple(children)
        self.err = err
        self.tag = tag

    def kind_val(self):
        return CEnum('SyntaxKind', self.kind, 8)

    def into_text(self):
        if not self.children:
            return self.text
        cs = ()
        for c in self.children:
            cs = cs + c.into_text().chars
        return Str(cs)

    def erroneous(self):
        return b_or(self.err, *[c.erroneous() for c in self.children])

    def byte_len(self):
        if self.blen is not None:
            return self.blen
        if not self.children:
            return self.text.byte_len()
        return i_sum([c.byte_len() for c in self.children])

    def __repr__(self):
        k = self.kind if is_sym(self.kind) else (KT.names[self.kind] if KT else self.kind)
        return 'Node#%d(%s%s)' % (self.nid, k, (' %r' % self.tag) if self.tag else '')


class Ast:
    """typed wrapper around a node (node! structs of typst_syntax::ast)"""
    __slots__ = ('ty', 'node')

    def __init__(self, ty, node):
        self.ty = ty
        self.node = node

    def __repr__(self):
        return '%s(%r)' % (self.ty, self.node)


def _node(m, v):
    x = m.load(v) if isinstance(v, Ref) else v
    if isinstance(x, Node):
        return x
    if isinstance(x, Ast):
        return x.node
    if isinstance(x, Agg) and x.variant is not None and x.fields and isinstance(x.fields[0], (Ast, Agg)):
        return _node(m, x.fields[0])
    if isinstance(x, (Linked, LazyEnum)):
        return x.node
    raise EncoderGap('expected syntax node, got %r' % (x,))


@reg('SyntaxNode::kind', 'LinkedNode::kind')
def node_kind(m, a, ci):
    return _node(m, a[0]).kind_val()


@reg('SyntaxNode::text')
def node_text(m, a, ci):
    return _node(m, a[0]).text


@reg('SyntaxNode::into_text')
def node_into_text(m, a, ci):
    return _node(m, a[0]).into_text()


@reg('SyntaxNode::children')
def node_children(m, a, ci):
    return ListIter(list(_node(m, a[0]).children))


@reg('SyntaxNode::span', 'LinkedNode::span')
def node_span(m, a, ci):
    return Opaque('span', (_node(m, a[0]).nid,))


@reg('SyntaxNode::erroneous', 'LinkedNode::erroneous')
def node_erroneous(m, a, ci):
    return _node(m, a[0]).erroneous()


@reg('SyntaxNode.Clone::clone')
def node_clone(m, a, ci):
    return _node(m, a[0])


@reg('SyntaxNode::len')
def node_len(m, a, ci):
    return _node(m, a[0]).byte_len()


@reg('SyntaxKind.PartialEq::eq', 'SyntaxKind.PartialEq::ne')
def kind_eq(m, a, ci):
    x = m.load(a[0])
    y = m.load(a[1])
    r = i_eq(x.disc, y.disc, 8)
    return b_not(r) if ci.method == 'ne' else r


def _flag_contract(flag):
    def f(m, a, ci):
        k = m.load(a[0]) if isinstance(a[0], Ref) else a[0]
        return kind_in(k.disc, KT.flags[flag])
    f.__name__ = 'kind_' + flag
    return f


for _f in ('is_trivia', 'is_keyword', 'is_grouping', 'is_terminator', 'is_block', 'is_stmt', 'is_error'):
    STD.table['SyntaxKind::' + _f] = _flag_contract(_f)


def make_cast(m, node, T):
    """value of node.cast::<T>() assuming the kind test passed"""
    if T in KT.cast_variant:
        kind = node.kind
        if is_sym(kind):
            # the variant is forced only if some code inspects it
            return LazyEnum(T, node)
        else:
            if kind not in KT.cast_variant[T]:
                if T == 'Expr':
                    return Agg('Expr', 'None', (Ast('None', node),))     # AstNode::default() placeholder
                raise EncoderGap('default value of ast type %s' % T)
            vn = KT.cast_variant[T][kind]
        inner = _variant_payload(T, vn, node)
        return Agg(T, vn, (inner,))
    return Ast(T, node)


# payload type of enum variants whose payload is itself an enum or differently named struct
_PAYLOAD = {
    ('Pattern', 'Normal'): 'Expr',
    ('Arg', 'Pos'): 'Expr',
    ('Param', 'Pos'): 'Pattern',
    ('ArrayItem', 'Pos'): 'Expr',
    ('DestructuringItem', 'Pattern'): 'Pattern',
}


def _variant_payload(T, vn, node):
    sub = _PAYLOAD.get((T, vn))
    if sub is not None:
        if sub in KT.cast_variant:
            kind = node.kind
            if is_sym(kind):
                return LazyEnum(sub, node)
            return Agg(sub, KT.cast_variant[sub][kind], (_variant_payload(sub, KT.cast_variant[sub][kind], node),))
        return Ast(sub, node)
    return Ast(vn, node)


class LazyEnum:
    """an ast enum value over a node with symbolic kind whose variant has not been forced yet"""

    def __init__(self, ty, node):
        self.ty = ty
        self.node = node

    def discriminant(self, m):
        raise EncoderGap('discriminant of lazily typed %s' % self.ty)

    def force(self, m):
        """decide the variant: one path per node kind that casts to this type (the kind is pinned by the path condition)"""
        forced = getattr(m, 'lazy_forced', None)
        if forced is None:
            forced = m.lazy_forced = {}
        key = (self.ty, self.node.nid)
        if key not in forced:
            kinds = sorted(KT.cast_variant[self.ty])
            i = m.ctx.choose([i_eq(self.node.kind, k, 8) for k in kinds])
            forced[key] = kinds[i]
        k = forced[key]
        vn = KT.cast_variant[self.ty][k]
        return Agg(self.ty, vn, (_variant_payload(self.ty, vn, self.node),))


@reg('SyntaxNode::cast', 'LinkedNode::cast')
def node_cast(m, a, ci):
    node = _node(m, a[0])
    T = head_ident(ci.generics[-1]) if ci.generics else head_ident(generic_args(ci.dest_ty)[0])
    if T == 'T':
        T = m.generic_lookup('T')
        if T is None:
            raise EncoderGap('generic cast::<T> needs monomorphic caller')
    s = KT.cast_set(T)
    if m.ctx.branch(kind_in(node.kind, s)):
        return some(make_cast(m, node, T))
    return NONE


@reg('SyntaxNode::is', 'LinkedNode::is')
def node_is(m, a, ci):
    node = _node(m, a[0])
    T = head_ident(ci.generics[-1])
    return kind_in(node.kind, KT.cast_set(T))


@reg('AstNode::to_untyped')
def ast_to_untyped(m, a, ci):
    return _node(m, a[0])


@reg('BinOp::from_kind')
def binop_from_kind(m, a, ci):
    raise EncoderGap('BinOp::from_kind')


# -- Source / LinkedNode -----------------------------------------------------------


class Source:
    def __init__(self, text, root):
        self.text = text
        self.root = root


class Linked:
    """LinkedNode: node + byte offset + parent"""

    def __init__(self, node, offset, parent=None, index=0):
        self.node = node
        self.offset = offset
        self.parent = parent
        self.index = index

    def range(self):
        return rng(self.offset, i_add(self.offset, self.node.byte_len()))

    def kids(self):
        out = []
        off = self.offset
        for i, c in enumerate(self.node.children):
            out.append(Linked(c, off, self, i))
            off = i_add(off, c.byte_len())
        return out

    def __repr__(self):
        return 'Linked(%r@%r)' % (self.node, self.offset)


def _src(m, v):
    x = m.load(v) if isinstance(v, Ref) else v
    if not isinstance(x, Source):
        raise EncoderGap('expected Source, got %r' % (x,))
    return x


@reg('Source::root')
def source_root(m, a, ci):
    return _src(m, a[0]).root


@reg('Source::text')
def source_text(m, a, ci):
    return _src(m, a[0]).text


@reg('Source::len_bytes')
def source_len_bytes(m, a, ci):
    src = _src(m, a[0])
    if hasattr(src.text, 'byte_len'):
        return src.text.byte_len()
    return src.root.byte_len()


def _linked(m, v):
    x = m.load(v) if isinstance(v, Ref) else v
    if not isinstance(x, Linked):
        raise EncoderGap('expected LinkedNode, got %r' % (x,))
    return x


@reg('LinkedNode::new')
def linked_new(m, a, ci):
    return Linked(_node(m, a[0]), 0)


@reg('LinkedNode::get', 'LinkedNode.Deref::deref')
def linked_get(m, a, ci):
    return _linked(m, a[0]).node


@reg('LinkedNode::range')
def linked_range(m, a, ci):
    return _linked(m, a[0]).range()


@reg('LinkedNode::offset')
def linked_offset(m, a, ci):
    return _linked(m, a[0]).offset


@reg('LinkedNode::children')
def linked_children(m, a, ci):
    return ListIter(_linked(m, a[0]).kids())


@reg('LinkedNode::parent')
def linked_parent(m, a, ci):
    from .models_std import some, NONE
    p = _linked(m, a[0]).parent
    return some(p) if p is not None else NONE


@reg('LinkedNode.Clone::clone')
def linked_clone(m, a, ci):
    return _linked(m, a[0])


@reg('Source::find')
def source_find(m, a, ci):
    src = _src(m, a[0])
    span = a[1]
    nid = span.deps[0]

    def walk(l):
        if l.node.nid == nid:
            return l
        for c in l.kids():
            r = walk(c)
            if r is not None:
                return r
        return None
    r = walk(Linked(src.root, 0))
    return some(r) if r is not None else NONE


# -- typed accessors ------------------------------------------------------------------------------

def _ast_node(m, v):
    return _node(m, v)


def _first_cast(node, T, m=None):
    s = KT.cast_set(T)
    for c in node.children:
        if not is_sym(c.kind) and c.kind in s:
            return c
        if is_sym(c.kind):
            if m is None:
                raise EncoderGap('typed accessor over a child with symbolic kind')
            if m.ctx.branch(kind_in(c.kind, s)):
                return c
    return None


def _last_cast(node, T, m=None):
    s = KT.cast_set(T)
    for c in reversed(node.children):
        if not is_sym(c.kind) and c.kind in s:
            return c
        if is_sym(c.kind):
            if m is None:
                raise EncoderGap('typed accessor over a child with symbolic kind')
            if m.ctx.branch(kind_in(c.kind, s)):
                return c
            continue
    return None


DEFAULT_NODE = {}


def _default(T):
    # AstNode::default(): a placeholder node (never reached on error-free trees)
    if T not in DEFAULT_NODE:
        DEFAULT_NODE[T] = Node(KT.k('End'), tag='default-' + T)
    return DEFAULT_NODE[T]


@reg('ImportItemPath::name')
def importitempath_name(m, a, ci):
    n = _ast_node(m, a[0])
    c = _last_cast(n, 'Ident', m)
    return Ast('Ident', c if c is not None else _default('Ident'))


@reg('RenamedImportItem::new_name')
def renamed_new_name(m, a, ci):
    n = _ast_node(m, a[0])
    c = _last_cast(n, 'Ident', m)
    return Ast('Ident', c if c is not None else _default('Ident'))


@reg('RenamedImportItem::path')
def renamed_path(m, a, ci):
    n = _ast_node(m, a[0])
    c = _first_cast(n, 'ImportItemPath', m)
    return Ast('ImportItemPath', c if c is not None else _default('ImportItemPath'))


@reg('Ident::as_str', 'Ident::get', 'MathIdent::as_str', 'MathIdent::get')
def ident_as_str(m, a, ci):
    return _ast_node(m, a[0]).text


@reg('Int::get')
def int_get(m, a, ci):
    # the value the lexer's number parser assigns to the token text: decimal digits read as such; otherwise (other radix, symbolic
    # text) an uninterpreted function of the node
    nd = _ast_node(m, a[0])
    t = getattr(nd, 'text', None)
    if t is not None and hasattr(t, 'is_concrete') and t.is_concrete():
        txt = t.concrete()
        if txt.isascii() and txt.isdigit() and len(txt) <= 18:
            return int(txt)
    return z3.BitVec('int_value_of_node_%d' % nd.nid, 64)


@reg('Float::get', 'Numeric::get')
def float_get(m, a, ci):
    return Opaque('%s_value' % ci.type_name if hasattr(ci, 'type_name') else 'number_value', (_ast_node(m, a[0]).nid,))


@reg('Bool::get')
def bool_get(m, a, ci):
    return z3.Bool('bool_value_of_node_%d' % _ast_node(m, a[0]).nid)


@reg('Str::get')
def str_get(m, a, ci):
    from .models_std import OStr
    return OStr(('str_value', _ast_node(m, a[0]).nid))


TYPST_NEWLINES = (0x0A, 0x0B, 0x0C, 0x0D, 0x85, 0x2028, 0x2029)


@reg('is_newline', 'lexer::is_newline', 'typst_syntax::is_newline')
def typst_is_newline(m, a, ci):
    c = m.load(a[0]) if isinstance(a[0], Ref) else a[0]
    return b_or(*[i_eq(c, k, 32) for k in TYPST_NEWLINES])


def _acc_first(T_, default=True):
    def f(m, a, ci):
        n = _ast_node(m, a[0])
        c = _first_cast(n, T_, m)
        if c is None:
            c = _default(T_)
        return make_cast(m, c, T_) if T_ in KT.cast_variant else Ast(T_, c)
    return f


def _acc_last(T_):
    def f(m, a, ci):
        n = _ast_node(m, a[0])
        c = _last_cast(n, T_, m)
        if c is None:
            c = _default(T_)
        return make_cast(m, c, T_) if T_ in KT.cast_variant else Ast(T_, c)
    return f


def _acc_iter(T_):
    def f(m, a, ci):
        n = _ast_node(m, a[0])
        s = KT.cast_set(T_)
        out = []
        for c in n.children:
            if is_sym(c.kind):
                raise EncoderGap('typed iterator over a child with symbolic kind')
            if c.kind in s:
                out.append(make_cast(m, c, T_) if T_ in KT.cast_variant else Ast(T_, c))
        return ListIter(out)
    return f


for _name, _fn in (
    ('CodeBlock::body', _acc_first('Code')), ('ContentBlock::body', _acc_first('Markup')), ('Strong::body', _acc_first('Markup')),
    ('Emph::body', _acc_first('Markup')), ('FuncCall::callee', _acc_first('Expr')), ('FuncCall::args', _acc_last('Args')),
    ('Parenthesized::expr', _acc_first('Expr')), ('Parenthesized::pattern', _acc_first('Pattern')), ('Equation::body', _acc_first('Math')),
    ('Code::exprs', _acc_iter('Expr')), ('Math::exprs', _acc_iter('Expr')), ('Markup::exprs', _acc_iter('Expr')),
    ('Array::items', _acc_iter('ArrayItem')), ('Dict::items', _acc_iter('DictItem')), ('Destructuring::items', _acc_iter('DestructuringItem')),
    ('Params::children', _acc_iter('Param')), ('Args::items', _acc_iter('Arg')), ('Raw::lines', _acc_iter('Text')),
    ('MathDelimited::open', _acc_first('Expr')), ('MathDelimited::close', _acc_last('Expr')), ('MathDelimited::body', _acc_first('Math')),
    ('Named::name', _acc_first('Ident')), ('Named::expr', _acc_last('Expr')), ('Spread::expr', _acc_first('Expr')),
    ('FieldAccess::target', _acc_first('Expr')), ('FieldAccess::field', _acc_last('Ident')),
    ('Binary::lhs', _acc_first('Expr')), ('Binary::rhs', _acc_last('Expr')), ('Unary::expr', _acc_last('Expr')),
):
    STD.table[_name] = _fn


@reg('Equation::block')
def equation_block(m, a, ci):
    n = _ast_node(m, a[0])
    k = n.children
    sp = KT.k('Space')
    if len(k) < 2:
        return False
    return b_and(kind_in(k[1].kind, {sp}), kind_in(k[-2].kind, {sp}))


@reg('MathPrimes::count')
def mathprimes_count(m, a, ci):
    n = _ast_node(m, a[0])
    return sum(1 for c in n.children if not is_sym(c.kind) and c.kind == KT.k('Prime'))


@reg('Raw::block')
def raw_block(m, a, ci):
    n = _ast_node(m, a[0])
    d = _first_cast(n, 'RawDelim', m)
    if d is None:
        return False
    long_delim = i_ule(3, d.text.byte_len())
    rt = KT.k('RawTrimmed')
    has_nl = False
    for c in n.children:
        if is_sym(c.kind):
            raise EncoderGap('Raw::block over a child with symbolic kind')
        if c.kind == rt:
            has_nl = b_or(has_nl, *[b_or(*[i_eq(ch, k, 32) for k in TYPST_NEWLINES]) for ch in c.text.chars])
    return b_and(long_delim, has_nl)


# -- operators -----------------------------------------------------------------------------------------

def _op_val(m, enum, variant):
    return CEnum(enum, norm(m.adts.variant_discr(enum, variant), 64), 64)


def _op_name(m, enum, v):
    v = m.load(v) if isinstance(v, Ref) else v
    d = simp(v.disc)
    if is_sym(d):
        raise EncoderGap('symbolic %s' % enum)
    return m.adts.variant_by_discr(enum, to_signed(d, 64) if d >> 63 else d)[0]


def _concrete_kind(c):
    if is_sym(c.kind):
        raise EncoderGap('operator accessor over a child with symbolic kind')
    return c.kind


@reg('Binary::op')
def binary_op(m, a, ci):
    n = _ast_node(m, a[0])
    seen_not = False
    for c in n.children:
        k = _concrete_kind(c)
        if k == KT.k('Not'):
            seen_not = True
            continue
        if k == KT.k('In') and seen_not:
            return _op_val(m, 'BinOp', 'NotIn')
        if k in KT.binop_of_kind:
            return _op_val(m, 'BinOp', KT.binop_of_kind[k])
    return _op_val(m, 'BinOp', 'Add')


@reg('Unary::op')
def unary_op(m, a, ci):
    n = _ast_node(m, a[0])
    for c in n.children:
        k = _concrete_kind(c)
        if k in KT.unop_of_kind:
            return _op_val(m, 'UnOp', KT.unop_of_kind[k])
    return _op_val(m, 'UnOp', 'Pos')


@reg('BinOp::from_kind')
def binop_from_kind(m, a, ci):
    k = a[0].disc
    k = simp(k)
    if is_sym(k):
        raise EncoderGap('BinOp::from_kind of a symbolic kind')
    if k in KT.binop_of_kind:
        return some(_op_val(m, 'BinOp', KT.binop_of_kind[k]))
    return NONE


@reg('UnOp::from_kind')
def unop_from_kind(m, a, ci):
    k = simp(a[0].disc)
    if is_sym(k):
        raise EncoderGap('UnOp::from_kind of a symbolic kind')
    if k in KT.unop_of_kind:
        return some(_op_val(m, 'UnOp', KT.unop_of_kind[k]))
    return NONE


@reg('BinOp::precedence')
def binop_precedence(m, a, ci):
    return KT.binops[_op_name(m, 'BinOp', a[0])][0]


@reg('BinOp::as_str')
def binop_as_str(m, a, ci):
    return Str.lit(KT.binops[_op_name(m, 'BinOp', a[0])][1])


@reg('UnOp::precedence')
def unop_precedence(m, a, ci):
    return KT.unops[_op_name(m, 'UnOp', a[0])][0]


@reg('UnOp::as_str')
def unop_as_str(m, a, ci):
    return Str.lit(KT.unops[_op_name(m, 'UnOp', a[0])][1])


@reg('BinOp.PartialEq::eq', 'UnOp.PartialEq::eq', 'BinOp.PartialEq::ne', 'UnOp.PartialEq::ne')
def op_eq(m, a, ci):
    x = m.load(a[0]) if isinstance(a[0], Ref) else a[0]
    y = m.load(a[1]) if isinstance(a[1], Ref) else a[1]
    r = i_eq(x.disc, y.disc, 64)
    return b_not(r) if ci.method == 'ne' else r


@reg('Expr::is_literal')
def expr_is_literal(m, a, ci):
    v = a[0]
    if isinstance(v, LazyEnum):
        names = {'None', 'Auto', 'Bool', 'Int', 'Float', 'Numeric', 'Str'}
        return kind_in(v.node.kind, {k for k, vn in KT.cast_variant['Expr'].items() if vn in names})
    return v.variant in ('None', 'Auto', 'Bool', 'Int', 'Float', 'Numeric', 'Str')


@reg('Closure::name')
def closure_name(m, a, ci):
    n = _ast_node(m, a[0])
    if n.children and not is_sym(n.children[0].kind) and n.children[0].kind == KT.k('Ident'):
        return some(Ast('Ident', n.children[0]))
    return NONE


STD.table['Closure::params'] = _acc_first('Params')
STD.table['Closure::body'] = _acc_last('Expr')


@reg('Ref::target')
def ref_target(m, a, ci):
    n = _ast_node(m, a[0])
    for c in n.children:
        if not is_sym(c.kind) and c.kind == KT.k('RefMarker'):
            t = c.text
            i = 0
            while i < len(t) and t.chars[i] == ord('@'):
                i += 1
            return t.sub(i, len(t))
    return Str(())


@reg('Ref::supplement')
def ref_supplement(m, a, ci):
    n = _ast_node(m, a[0])
    c = _last_cast(n, 'ContentBlock', m)
    return some(Ast('ContentBlock', c)) if c is not None else NONE
