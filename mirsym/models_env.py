"""Environment contracts for the CLI crate: file system world, walkdir, stdout/stderr, stdin, log, anyhow, clap."""
import z3

from .values import *
from .explore import Panic, PathEnd
from .machine import EncoderGap, head_ident
from .models_std import STD, reg, Str, OStr, Iter, ListIter, Vec, _s, value_eq


class ProcessExit(Exception):
    def __init__(self, code):
        Exception.__init__(self, 'process exit %r' % (code,))
        self.code = code


class PathV:
    """a path naming world slot `slot` (PathBuf / &Path / DirEntry::path)"""
    __slots__ = ('slot',)

    def __init__(self, slot):
        self.slot = slot

    def __repr__(self):
        return 'Path#%s' % self.slot

    def model_eq(self, m, o):
        return isinstance(o, PathV) and o.slot == self.slot

    def model_lt(self, m, o):
        """lexicographic order of two paths: unknown to the model, one consistent symbolic Bool per pair"""
        if o.slot == self.slot:
            return False
        a, b = sorted((self.slot, o.slot))
        v = z3.Bool('path_lt_%s_%s' % (a, b))
        m.world.path_order[(a, b)] = v
        return v if (self.slot, o.slot) == (a, b) else z3.Not(v)


class DirEntryV:
    __slots__ = ('slot', 'depth')

    def __init__(self, slot, depth):
        self.slot = slot
        self.depth = depth

    def __repr__(self):
        return 'DirEntry#%s@%d' % (self.slot, self.depth)


class OsStrV:
    """kind: 'name' (file name of slot), 'ext' (extension of slot), 'lit' (from a literal Str)"""
    __slots__ = ('kind', 'slot', 'lit')

    def __init__(self, kind, slot=None, lit=None):
        self.kind = kind
        self.slot = slot
        self.lit = lit

    def model_eq(self, m, o):
        w = m.world
        if self.kind == 'lit' and o.kind == 'lit':
            return value_eq(m, self.lit, o.lit)
        a, b = (self, o) if self.kind != 'lit' else (o, self)
        if a.kind == 'ext' and b.kind == 'lit':
            if b.lit.is_concrete() and b.lit.concrete() == 'typ':
                return w.slots[a.slot]['ext_typ']
        raise EncoderGap('OsStr comparison %s/%s' % (self.kind, o.kind))


class Slot(dict):
    pass


class World:
    """K file slots + effect logs.  All attributes are z3 Bools / terms chosen by the harness."""

    def __init__(self):
        self.slots = {}        # id -> Slot(readable, content, err, chg, wfail, isfile, isdir, ext_typ, hasext, name, utf8name, parent, children)
        self.W = []            # (slot, content written, succeeded)
        self.R = []            # slots whose read was attempted
        self.P = []            # stdout: ('print', template bytes, args) | ('log', level, args)
        self.E = []            # stderr log records
        self.max_level = 3     # LevelFilter::Info after logging::init()
        self.level_sets = []
        self.cwd = None
        self.stdin = None      # slot id used for stdin
        self.args = None
        self.format_calls = []  # (content, cfg fields)
        self.path_order = {}    # (slot a, slot b) -> Bool "path a sorts before path b"
        self.deviations = []    # structural deviations noticed by contracts

    def add(self, sid, **kw):
        s = Slot(kw)
        s.setdefault('children', [])
        s.setdefault('parent', None)
        self.slots[sid] = s
        s['cur'] = s.get('content')
        return s


def _w(m):
    w = getattr(m, 'world', None)
    if w is None:
        raise EncoderGap('no World attached to the machine')
    return w


def _path(m, v):
    x = m.load(v) if isinstance(v, Ref) else v
    if isinstance(x, Ref):
        x = m.load(x)
    if isinstance(x, PathV):
        return x
    if isinstance(x, DirEntryV):
        return PathV(x.slot)
    raise EncoderGap('expected path, got %r' % (x,))


# -- paths ---------------------------------------------------------------------------------

@reg('PathBuf.Deref::deref', 'PathBuf::as_path', 'PathBuf.AsRef::as_ref', 'Path.AsRef::as_ref', 'PathBuf.Clone::clone', 'Path::to_path_buf',
     'PathBuf.Borrow::borrow')
def pathbuf_deref(m, a, ci):
    return _path(m, a[0])


@reg('Path::display')
def path_display(m, a, ci):
    return Opaque('display', (_path(m, a[0]).slot,))


@reg('Path::extension')
def path_extension(m, a, ci):
    p = _path(m, a[0])
    s = _w(m).slots[p.slot]
    if m.ctx.branch(s['hasext']):
        return some(OsStrV('ext', p.slot))
    return NONE


@reg('str.AsRef::as_ref', 'OsStr::new')
def str_as_osstr(m, a, ci):
    x = _s(m, a[0])
    d = head_ident(ci.dest_ty) if ci.dest_ty else ''
    if d == 'OsStr' or (ci.trait and 'OsStr' in ci.trait):
        return OsStrV('lit', lit=x)
    return x


@reg('Path::is_file')
def path_is_file(m, a, ci):
    # follows symbolic links: a non-regular entry may be a link to a regular file
    p = _path(m, a[0])
    s = _w(m).slots[p.slot]
    if 'isfile' not in s:
        return True
    return b_or(s['isfile'], b_and(b_not(s['isdir']), s.get('linkfile', False)))


@reg('Path::is_dir')
def path_is_dir(m, a, ci):
    p = _path(m, a[0])
    s = _w(m).slots[p.slot]
    return s.get('isdir', False)


@reg('Path::exists')
def path_exists(m, a, ci):
    return True


@reg('OsStr::to_str')
def osstr_to_str(m, a, ci):
    o = m.load(a[0]) if isinstance(a[0], Ref) else a[0]
    if o.kind == 'lit':
        return some(o.lit)
    if o.kind == 'name':
        s = _w(m).slots[o.slot]
        if m.ctx.branch(s['utf8name']):
            return some(s['name'])
        return NONE
    raise EncoderGap('to_str of %s' % o.kind)


@reg('Option.Clone::clone')
def option_clone(m, a, ci):
    return m.load(a[0])


@reg('current_dir', 'env::current_dir')
def current_dir(m, a, ci):
    return ok(PathV(_w(m).cwd))


# -- walkdir ---------------------------------------------------------------------------------

class WalkIter(Iter):
    def __init__(self, world, root):
        self.w = world
        self.root = root
        self.stack = None   # list of (slot, depth) still to visit
        self.filter = None
        self.ok_only = False
        self.last_dir = None

    def next(self, m):
        if self.stack is None:
            self.stack = [(self.root, 0)]
            # walkdir reports what it cannot read as Err items: a root that does not exist / cannot be listed yields one Err and nothing else
            we = self.w.slots[self.root].get('walkerr')
            if we is not None and m.ctx.branch(we):
                self.stack = []
                if self.ok_only:
                    return NONE
                return some(err(Opaque('walkdir_error', (self.root,))))
        while self.stack:
            slot, depth = self.stack.pop()
            ent = DirEntryV(slot, depth)
            s = self.w.slots[slot]
            keep = True
            if self.filter is not None:
                r = m.call_value(self.filter, [m.heap.alloc(ent)])
                keep = m.ctx.branch(r)
            if not keep:
                continue          # skipped; directories are not descended into
            # descend: children are pushed so that they are visited in index order
            if s['children']:
                for c in reversed(s['children']):
                    self.stack.append((c, depth + 1))
            return some(ok(ent) if not self.ok_only else ent)
        return NONE


@reg('WalkDir::new')
def walkdir_new(m, a, ci):
    return WalkIter(_w(m), _path(m, a[0]).slot)


@reg('WalkDir.IntoIterator::into_iter', 'WalkDir::into_iter')
def walkdir_into_iter(m, a, ci):
    return a[0]


@reg('IntoIter::filter_entry', 'FilterEntry::filter_entry')
def walkdir_filter_entry(m, a, ci):
    it = a[0]
    if it.filter is not None:
        raise EncoderGap('nested filter_entry')
    it.filter = a[1]
    return it


@reg('DirEntry::file_type')
def direntry_file_type(m, a, ci):
    return Opaque('filetype', (m.load(a[0]).slot,))


@reg('FileType::is_file')
def filetype_is_file(m, a, ci):
    return _w(m).slots[m.load(a[0]).deps[0]]['isfile']


@reg('FileType::is_dir')
def filetype_is_dir(m, a, ci):
    return _w(m).slots[m.load(a[0]).deps[0]]['isdir']


@reg('DirEntry::path')
def direntry_path(m, a, ci):
    return PathV(m.load(a[0]).slot)


@reg('DirEntry::into_path')
def direntry_into_path(m, a, ci):
    return PathV(m.load(a[0]).slot if isinstance(a[0], Ref) else a[0].slot)


@reg('DirEntry::file_name')
def direntry_file_name(m, a, ci):
    return OsStrV('name', m.load(a[0]).slot)


@reg('DirEntry::depth')
def direntry_depth(m, a, ci):
    return m.load(a[0]).depth


# -- file system --------------------------------------------------------------------------------

class IoErr:
    def __init__(self, what):
        self.what = what

    def __repr__(self):
        return 'IoErr(%s)' % (self.what,)


class AnyErr:
    def __init__(self, what):
        self.what = what

    def __repr__(self):
        return 'AnyErr(%r)' % (self.what,)


@reg('fs::read_to_string')
def fs_read_to_string(m, a, ci):
    w = _w(m)
    p = _path(m, a[0])
    s = w.slots[p.slot]
    w.R.append(p.slot)
    if m.ctx.branch(s['readable']):
        return ok(s['cur'])
    return err(IoErr(('read', p.slot)))


@reg('fs::read')
def fs_read(m, a, ci):
    raise EncoderGap('fs::read (bytes) is not modelled')


@reg('fs::write')
def fs_write(m, a, ci):
    w = _w(m)
    p = _path(m, a[0])
    s = w.slots[p.slot]
    content = _s(m, a[1])
    if m.ctx.branch(s['wfail']):
        w.W.append((p.slot, content, False))
        return err(IoErr(('write', p.slot)))
    w.W.append((p.slot, content, True))
    s['cur'] = content
    return ok(UNIT)


for _k in ('fs::remove_file', 'fs::rename', 'fs::copy', 'fs::create_dir', 'fs::create_dir_all', 'fs::remove_dir', 'fs::remove_dir_all',
           'File::create', 'File::open', 'OpenOptions::open', 'fs::set_permissions', 'fs::hard_link'):
    def _unmodelled(m, a, ci, _k=_k):
        raise EncoderGap('file system mutator/opener %s is not modelled: the read-only / exact-write claims cannot be decided' % _k)
    STD.table[_k] = _unmodelled


@reg('stdin', 'io::stdin')
def io_stdin(m, a, ci):
    return Opaque('stdin', ())


@reg('Read::read_to_string')
def read_read_to_string(m, a, ci):
    w = _w(m)
    s = w.slots[w.stdin]
    w.R.append(w.stdin)
    if m.ctx.branch(s['readable']):
        cur = _s(m, a[1])
        if isinstance(cur, Str) and len(cur) == 0:
            m.store(a[1], s['cur'])
        else:
            raise EncoderGap('read_to_string into non-empty buffer')
        return ok(z3.BitVec('stdin_len', 64))
    return err(IoErr(('read', w.stdin)))


@reg('Stdin::lines', 'BufRead::lines', 'StdinLock::lines')
def stdin_lines(m, a, ci):
    w = _w(m)
    s = w.slots[w.stdin]
    w.R.append(w.stdin)
    if m.ctx.branch(s['readable']):
        # the individual lines of opaque content: one opaque piece (what matters is that it is no longer the content itself)
        return ListIter([ok(OStr(('lines-of', s['cur'].term)))])
    return ListIter([err(IoErr(('read', w.stdin)))])


@reg('stdout', 'io::stdout')
def io_stdout(m, a, ci):
    return Opaque('stdout', ())


# -- formatting machinery ---------------------------------------------------------------------------

class FmtArgs:
    def __init__(self, template, args):
        self.template = template
        self.args = tuple(args)

    def __repr__(self):
        return 'fmt(%r, %r)' % (self.template, self.args)


@reg('Argument::new_display', 'Argument::new_debug')
def argument_new(m, a, ci):
    v = a[0]
    while isinstance(v, Ref):
        v = m.load(v)
    return (ci.method, v)


@reg('Arguments::new')
def arguments_new(m, a, ci):
    t = a[0]
    arr = m.load(a[1]) if isinstance(a[1], Ref) else a[1]
    tb = t.deps[0] if isinstance(t, Opaque) else t
    return FmtArgs(tb, arr.fields)


@reg('Arguments::from_str', 'Arguments::new_const')
def arguments_from_str(m, a, ci):
    return FmtArgs(a[0], ())


@reg('format', 'fmt::format')
def alloc_format(m, a, ci):
    return OStr(('fmt', id(a[0])))


@reg('must_use')
def must_use(m, a, ci):
    return a[0]


@reg('_print', 'io::_print')
def io_print(m, a, ci):
    _w(m).P.append(('print', a[0]))
    return UNIT


@reg('_eprint', 'io::_eprint')
def io_eprint(m, a, ci):
    _w(m).E.append(('eprint', a[0]))
    return UNIT


# -- log ---------------------------------------------------------------------------------------------

@reg('max_level', 'log::max_level')
def log_max_level(m, a, ci):
    return CEnum('LevelFilter', _w(m).max_level, 64)


@reg('set_max_level', 'log::set_max_level')
def log_set_max_level(m, a, ci):
    w = _w(m)
    lv = a[0].disc
    lv = simp(lv)
    if is_sym(lv):
        raise EncoderGap('symbolic log level (make verbose/quiet concrete in the harness)')
    w.max_level = lv
    w.level_sets.append(lv)
    return UNIT


@reg('Level.PartialOrd::le')
def level_le(m, a, ci):
    x = m.load(a[0])
    y = m.load(a[1])
    return i_ule(x.disc, y.disc, 64)


@reg('__private_api::loc')
def log_loc(m, a, ci):
    return Opaque('loc', ())


@reg('__private_api::log')
def log_log(m, a, ci):
    w = _w(m)
    lvl = a[1].disc
    # SimpleLogger: Error/Warn -> stderr, everything else -> stdout
    if lvl in (1, 2):
        w.E.append(('log', lvl, a[0]))
    else:
        w.P.append(('log', lvl, a[0]))
    return UNIT


def _static_max_level(m, dest_ty):
    return CEnum('LevelFilter', 5, 64)


STD.const_paths['log::STATIC_MAX_LEVEL'] = _static_max_level
STD.const_paths['std::process::ExitCode::SUCCESS'] = lambda m, d: Opaque('ExitCode', (0,))
STD.const_paths['std::process::ExitCode::FAILURE'] = lambda m, d: Opaque('ExitCode', (1,))


# -- anyhow --------------------------------------------------------------------------------------------

@reg('Context::with_context', 'Context::context')
def anyhow_with_context(m, a, ci):
    r = a[0]
    if r.variant == 'Ok':
        return r
    return err(AnyErr(('context', r.fields[0])))


@reg('Error::msg')
def anyhow_msg(m, a, ci):
    return AnyErr(('msg', a[0]))


def _convert_error(m, e, ci):
    if isinstance(e, IoErr):
        return AnyErr(('from', e))
    return e


STD.convert_error = _convert_error


@reg('Instant::now')
def instant_now(m, a, ci):
    return Opaque('instant', ())


@reg('Instant::elapsed')
def instant_elapsed(m, a, ci):
    return Opaque('duration', ())


# -- clap ---------------------------------------------------------------------------------------------------

@reg('CommandFactory::command')
def clap_command(m, a, ci):
    return Opaque('clap_command', ())


@reg('Command::error')
def clap_error(m, a, ci):
    return Opaque('clap_error', (a[1],))


@reg('Error::exit')
def clap_exit(m, a, ci):
    raise ProcessExit(2)
