"""Value domain of the symbolic executor."""
import z3

# ---------------------------------------------------------------------------
# integers / bools: python int|bool when concrete, z3 terms when symbolic

INT_BITS = {'usize': 64, 'isize': 64, 'u8': 8, 'u16': 16, 'u32': 32, 'u64': 64, 'u128': 128,
            'i8': 8, 'i16': 16, 'i32': 32, 'i64': 64, 'i128': 128, 'char': 32}
SIGNED = {'isize', 'i8', 'i16', 'i32', 'i64', 'i128'}


_BVV = {}


def is_sym(v):
    return isinstance(v, z3.ExprRef)


def bv(v, bits):
    if is_sym(v):
        if z3.is_bool(v):
            return z3.If(v, z3.BitVecVal(1, bits), z3.BitVecVal(0, bits))
        assert v.size() == bits, (v, v.size(), bits)
        return v
    if isinstance(v, bool):
        v = int(v)
    v &= (1 << bits) - 1
    r = _BVV.get((v, bits))
    if r is None:
        r = _BVV[(v, bits)] = z3.BitVecVal(v, bits)
    return r


def norm(v, bits):
    """normalise a concrete python int to unsigned range"""
    return v & ((1 << bits) - 1)


def to_signed(v, bits):
    v = norm(v, bits)
    return v - (1 << bits) if v >> (bits - 1) else v


def as_bool(v):
    """return python bool or z3 Bool"""
    if isinstance(v, bool):
        return v
    if isinstance(v, int):
        return v != 0
    if z3.is_bool(v):
        return v
    return v != z3.BitVecVal(0, v.size())


def simp(v):
    if is_sym(v):
        s = z3.simplify(v)
        if z3.is_bool(s):
            if z3.is_true(s):
                return True
            if z3.is_false(s):
                return False
            return s
        if z3.is_bv_value(s):
            return s.as_long()
        return s
    return v


def lite(v):
    """cheap normalisation: numerals / true / false become python values, nothing else is rewritten"""
    if not isinstance(v, z3.ExprRef):
        return v
    c = v.ctx.ref()
    a = v.as_ast()
    k = z3.Z3_get_ast_kind(c, a)
    if k == z3.Z3_NUMERAL_AST:
        if isinstance(v, z3.BitVecNumRef):
            return v.as_long()
        return v
    if k == z3.Z3_APP_AST and isinstance(v, z3.BoolRef):
        dk = z3.Z3_get_decl_kind(c, z3.Z3_get_app_decl(c, a))
        if dk == z3.Z3_OP_TRUE:
            return True
        if dk == z3.Z3_OP_FALSE:
            return False
    return v


def b_not(a):
    a = as_bool(a)
    if isinstance(a, bool):
        return not a
    return lite(z3.Not(a))


def b_and(*xs):
    out = []
    for x in xs:
        x = as_bool(x)
        if isinstance(x, bool):
            if not x:
                return False
            continue
        out.append(x)
    if not out:
        return True
    return lite(z3.And(*out)) if len(out) > 1 else out[0]


def b_or(*xs):
    out = []
    for x in xs:
        x = as_bool(x)
        if isinstance(x, bool):
            if x:
                return True
            continue
        out.append(x)
    if not out:
        return False
    return lite(z3.Or(*out)) if len(out) > 1 else out[0]


def b_implies(a, b):
    return b_or(b_not(a), b)


def b_ite(c, a, b):
    """if-then-else over ints/bools; bits inferred from symbolic operand (default 64)"""
    c = as_bool(c)
    if isinstance(c, bool):
        return a if c else b
    if isinstance(a, bool) or isinstance(b, bool) or (is_sym(a) and z3.is_bool(a)) or (is_sym(b) and z3.is_bool(b)):
        a = as_bool(a)
        b = as_bool(b)
        aa = z3.BoolVal(a) if isinstance(a, bool) else a
        bb = z3.BoolVal(b) if isinstance(b, bool) else b
        return lite(z3.If(c, aa, bb))
    bits = a.size() if is_sym(a) else (b.size() if is_sym(b) else 64)
    return lite(z3.If(c, bv(a, bits), bv(b, bits)))


def i_eq(a, b, bits=None):
    if not is_sym(a) and not is_sym(b):
        return a == b
    if (is_sym(a) and z3.is_bool(a)) or (is_sym(b) and z3.is_bool(b)) or isinstance(a, bool) or isinstance(b, bool):
        a = as_bool(a)
        b = as_bool(b)
        aa = z3.BoolVal(a) if isinstance(a, bool) else a
        bb = z3.BoolVal(b) if isinstance(b, bool) else b
        return lite(aa == bb)
    if bits is None:
        bits = a.size() if is_sym(a) else b.size()
    return lite(bv(a, bits) == bv(b, bits))


def i_add(a, b, bits=64):
    if not is_sym(a) and not is_sym(b):
        return norm(a + b, bits)
    return lite(bv(a, bits) + bv(b, bits))


def i_sub(a, b, bits=64):
    if not is_sym(a) and not is_sym(b):
        return norm(a - b, bits)
    return lite(bv(a, bits) - bv(b, bits))


def i_ult(a, b, bits=64):
    if not is_sym(a) and not is_sym(b):
        return norm(a, bits) < norm(b, bits)
    return lite(z3.ULT(bv(a, bits), bv(b, bits)))


def i_ule(a, b, bits=64):
    if not is_sym(a) and not is_sym(b):
        return norm(a, bits) <= norm(b, bits)
    return lite(z3.ULE(bv(a, bits), bv(b, bits)))


def i_sum(xs, bits=64):
    acc = 0
    for x in xs:
        acc = i_add(acc, x, bits)
    return acc


# ---------------------------------------------------------------------------
# structured values


class Unit:
    _inst = None

    def __new__(cls):
        if cls._inst is None:
            cls._inst = object.__new__(cls)
        return cls._inst

    def __repr__(self):
        return '()'


UNIT = Unit()


class Agg:
    """struct / tuple / array / data-carrying enum variant / closure environment.

    ty: normalised type head ('tuple', 'array', 'Option', 'Config', 'closure@loc', ...)
    variant: variant name for enums else None
    fields: tuple of values; names: tuple of field names or None
    """
    __slots__ = ('ty', 'variant', 'fields', 'names')

    def __init__(self, ty, variant, fields, names=None):
        self.ty = ty
        self.variant = variant
        self.fields = tuple(fields)
        self.names = names

    def with_field(self, i, v):
        f = list(self.fields)
        f[i] = v
        return Agg(self.ty, self.variant, f, self.names)

    def get(self, name):
        return self.fields[self.names.index(name)]

    def __repr__(self):
        if self.variant is not None:
            return '%s::%s%r' % (self.ty, self.variant, self.fields)
        return '%s%r' % (self.ty, self.fields)


class CEnum:
    """value of a field-less enum; disc is python int or z3 BV"""
    __slots__ = ('ty', 'disc', 'bits')

    def __init__(self, ty, disc, bits=64):
        self.ty = ty
        self.disc = disc
        self.bits = bits

    def __repr__(self):
        return '%s#%r' % (self.ty, self.disc)


class Ref:
    """pointer to a place: frame-like object with .locals dict, key, projection path"""
    __slots__ = ('frame', 'local', 'proj', 'mut')

    def __init__(self, frame, local, proj=(), mut=False):
        self.frame = frame
        self.local = local
        self.proj = tuple(proj)
        self.mut = mut

    def __repr__(self):
        return 'Ref(%s,_%s,%r)' % (getattr(self.frame, 'name', '?'), self.local, self.proj)


class Heap:
    """pseudo frame for contract-allocated cells"""
    name = 'heap'

    def __init__(self):
        self.locals = {}
        self.n = 0

    def alloc(self, v):
        self.n += 1
        self.locals[self.n] = v
        return Ref(self, self.n, (), True)


class FnItem:
    __slots__ = ('path',)

    def __init__(self, path):
        self.path = path

    def __repr__(self):
        return 'FnItem(%s)' % self.path


class PyFn:
    """a callable provided by a harness/contract standing for a closure or fn value"""
    __slots__ = ('fn', 'name')

    def __init__(self, fn, name='pyfn'):
        self.fn = fn
        self.name = name

    def __repr__(self):
        return 'PyFn(%s)' % self.name


class Opaque:
    """uninterpreted result: tag + the values it was computed from"""
    __slots__ = ('tag', 'deps')

    def __init__(self, tag, deps=()):
        self.tag = tag
        self.deps = tuple(deps)

    def __repr__(self):
        return 'Opaque(%s%r)' % (self.tag, self.deps)

    def __eq__(self, o):
        return isinstance(o, Opaque) and self.tag == o.tag and self.deps == o.deps

    def __hash__(self):
        return hash((self.tag, len(self.deps)))


def some(v):
    return Agg('Option', 'Some', (v,))


NONE = Agg('Option', 'None', ())


def ok(v):
    return Agg('Result', 'Ok', (v,))


def err(v):
    return Agg('Result', 'Err', (v,))


def tup(*xs):
    return Agg('tuple', None, xs)


def rng(a, b):
    return Agg('Range', None, (a, b), ('start', 'end'))
