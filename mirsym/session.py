"""Per-check session: fresh MIR dump, native driver, obligation bookkeeping, evidence, verdict lines."""
import fcntl
import glob
import gzip
import hashlib
import json
import os
import subprocess
import sys
import time

from . import mirparse, adts, machine, explore

VERIF = os.path.dirname(os.path.dirname(os.path.abspath(__file__)))
REPO = os.environ.get('VERIF_REPO', '/repo')
CACHE = os.path.join(VERIF, '.cache')
# checks normally run against /repo; VERIF_REPO points them at another checkout (used to try changes without touching /repo)
RTAG = '' if REPO == '/repo' else '-' + hashlib.sha256(REPO.encode()).hexdigest()[:8]
ENV = dict(os.environ, CARGO_NET_OFFLINE='true')


def sh(cmd, **kw):
    return subprocess.run(cmd, shell=True, stdout=subprocess.PIPE, stderr=subprocess.PIPE, text=True, env=ENV, **kw)


def tree_hash():
    """content hash of everything the MIR dump depends on"""
    h = hashlib.sha256()
    files = []
    for pat in ('crates/typstyle-core/src/**/*.rs', 'crates/typstyle/src/**/*.rs', 'crates/typstyle/build.rs',
                'crates/*/Cargo.toml', 'Cargo.toml', 'Cargo.lock'):
        files += glob.glob(os.path.join(REPO, pat), recursive=True)
    for f in sorted(set(files)):
        h.update(f.encode())
        with open(f, 'rb') as fh:
            h.update(fh.read())
    return h.hexdigest()[:20]


class Lock:
    def __init__(self, name):
        os.makedirs(CACHE, exist_ok=True)
        self.path = os.path.join(CACHE, name + '.lock')

    def __enter__(self):
        self.fh = open(self.path, 'w')
        fcntl.flock(self.fh, fcntl.LOCK_EX)

    def __exit__(self, *a):
        fcntl.flock(self.fh, fcntl.LOCK_UN)
        self.fh.close()


def dump_mir(log):
    """(re)generate MIR dumps of both crates from the current working tree.

    Dumps are keyed by a content hash of the sources (and the nightly version), so a
    dump is reused only when the tree it was produced from is byte-identical."""
    with Lock('mir' + RTAG):
        th = tree_hash()
        nightly = sh('rustc +nightly --version').stdout.strip()
        key = hashlib.sha256((th + nightly).encode()).hexdigest()[:16]
        d = os.path.join(CACHE, 'mir', key)
        core = os.path.join(d, 'core.mir')
        binm = os.path.join(d, 'bin.mir')
        if os.path.exists(os.path.join(d, 'ok')):
            log('mir dump: reuse %s (tree %s)' % (key, th))
            return core, binm, th
        os.makedirs(d, exist_ok=True)
        tgt = os.path.join(CACHE, 'mir-target' + RTAG)
        t = time.time()
        sh('cargo clean --offline -p typstyle-core -p typstyle --target-dir %s' % tgt, cwd=REPO)
        flags = '-Zunpretty=mir -C debug-assertions=off -C overflow-checks=on'
        r = sh('cargo +nightly rustc --offline -p typstyle-core --lib --target-dir %s -- %s > %s' % (tgt, flags, core), cwd=REPO)
        if r.returncode != 0 or os.path.getsize(core) == 0:
            raise explore.Inconclusive('MIR dump of typstyle-core failed:\n' + r.stderr[-3000:])
        r = sh('cargo +nightly rustc --offline -p typstyle --bin typstyle --target-dir %s -- %s > %s' % (tgt, flags, binm), cwd=REPO)
        if r.returncode != 0 or os.path.getsize(binm) == 0:
            raise explore.Inconclusive('MIR dump of typstyle (bin) failed:\n' + r.stderr[-3000:])
        open(os.path.join(d, 'ok'), 'w').write(th)
        # keep only the few most recent dumps
        olds = sorted(glob.glob(os.path.join(CACHE, 'mir', '*')), key=os.path.getmtime, reverse=True)
        for old in olds[4:]:
            if old != d:
                subprocess.run(['rm', '-rf', old])
        log('mir dump: fresh %s (tree %s) in %.1fs' % (key, th, time.time() - t))
        return core, binm, th


def build_driver(log):
    with Lock('driver' + RTAG):
        src = os.path.join(VERIF, 'replay')
        if RTAG:
            # private copy of the driver crate whose path dependency points at the other checkout
            dst = os.path.join(CACHE, 'replay-src' + RTAG)
            os.makedirs(os.path.join(dst, 'src'), exist_ok=True)
            open(os.path.join(dst, 'Cargo.toml'), 'w').write(open(os.path.join(src, 'Cargo.toml')).read().replace('/repo/crates', REPO + '/crates'))
            subprocess.run(['cp', os.path.join(src, 'src', 'main.rs'), os.path.join(dst, 'src', 'main.rs')])
            src = dst
        subprocess.run(['cp', os.path.join(REPO, 'Cargo.lock'), os.path.join(src, 'Cargo.lock')])
        tgt = os.path.join(CACHE, 'replay-target' + RTAG)
        t = time.time()
        r = sh('cargo build --offline --target-dir %s' % tgt, cwd=src)
        if r.returncode != 0:
            raise explore.Inconclusive('driver build failed:\n' + r.stderr[-3000:])
        log('driver build %.1fs' % (time.time() - t))
        return os.path.join(tgt, 'debug', 'vdriver')


def build_cli(log):
    with Lock('cli' + RTAG):
        tgt = os.path.join(CACHE, 'cli-target' + RTAG)
        t = time.time()
        r = sh('cargo build --offline -p typstyle --bin typstyle --target-dir %s' % tgt, cwd=REPO)
        if r.returncode != 0:
            raise explore.Inconclusive('cli build failed:\n' + r.stderr[-3000:])
        log('cli build %.1fs' % (time.time() - t))
        return os.path.join(tgt, 'debug', 'typstyle')


def hexs(s):
    b = s.encode('utf-8')
    return b.hex() if b else '-'


def unhexs(h):
    return '' if h == '-' else bytes.fromhex(h).decode('utf-8')


class Driver:
    def __init__(self, path):
        self.path = path
        self.p = None
        self.calls = 0

    def _start(self):
        self.p = subprocess.Popen([self.path], stdin=subprocess.PIPE, stdout=subprocess.PIPE, stderr=subprocess.DEVNULL, text=True, bufsize=1)

    def call(self, *parts):
        if self.p is None or self.p.poll() is not None:
            self._start()
        self.calls += 1
        self.p.stdin.write(' '.join(str(x) for x in parts) + '\n')
        self.p.stdin.flush()
        line = self.p.stdout.readline()
        if not line:
            self.p = None
            return ['abort']
        return line.strip().split(' ')

    def close(self):
        if self.p is not None:
            try:
                self.p.stdin.close()
                self.p.wait(timeout=5)
            except Exception:
                self.p.kill()


class Obligation:
    def __init__(self, name, desc):
        self.name = name
        self.desc = desc
        self.paths = 0
        self.queries = 0
        self.sat = 0
        self.unsat = 0
        self.solver_s = 0.0
        self.wall_s = 0.0
        self.obligations = 0
        self.discharged = 0
        self.bounds = {}
        self.status = 'pending'
        self.witnesses = {}
        self.samples = []

    def as_dict(self):
        return dict(self.__dict__)


# The evidence file is a record a reader opens, not a dump: it stays well under 1 MB. Every obligation of the run is counted in
# `obligation_families` (by name prefix and status); `samples` holds the ones that are not plainly "held" first (inconclusive, violated,
# known finding) and then an evenly strided selection of the rest, within SAMPLES_BUDGET bytes. The complete listing goes to
# .cache/evidence-full/<id>.<tier>.jsonl.gz (not committed).
EVIDENCE_MAX_BYTES = 1500000
SAMPLES_BUDGET = 600000
SAMPLES_MAX = 1500


def _family(name):
    for i, ch in enumerate(name):
        if ch in '[(':
            return name[:i]
    return name


def _bounded_samples(full):
    families = {}
    for r in full:
        f = families.setdefault(_family(r['obligation']), dict(obligations=0, held=0, other=0, paths=0, queries=0, solver_s=0.0))
        f['obligations'] += 1
        f['held' if str(r['status']).startswith('held') else 'other'] += 1
        f['paths'] += r['paths'] or 0
        f['queries'] += r['queries'] or 0
        f['solver_s'] = round(f['solver_s'] + (r['solver_s'] or 0), 3)
    sizes = [len(json.dumps(r, indent=1, default=str)) + 4 for r in full]
    first = [i for i, r in enumerate(full) if not str(r['status']).startswith('held')]
    rest = [i for i, r in enumerate(full) if str(r['status']).startswith('held')]
    chosen, used = [], 0
    for i in first[:300]:
        if used + sizes[i] > SAMPLES_BUDGET // 2:
            break
        chosen.append(i)
        used += sizes[i]
    room = SAMPLES_MAX - len(chosen)
    if rest and room > 0:
        avg = max(1, sum(sizes[i] for i in rest) // len(rest))
        n = max(1, min(len(rest), room, (SAMPLES_BUDGET - used) // avg))
        step = len(rest) / float(n)
        seen = set()
        for k in range(n):
            i = rest[int(k * step)]
            if i in seen or used + sizes[i] > SAMPLES_BUDGET:
                continue
            seen.add(i)
            chosen.append(i)
            used += sizes[i]
    chosen.sort()
    if not chosen and full:
        chosen = [0]
    listing = dict(obligations_in_run=len(full), written_here=len(chosen),
                   selection='every obligation that is not plainly held (up to 300), then an evenly strided selection of the held ones in run order',
                   complete_listing='.cache/evidence-full/<id>.<tier>.jsonl.gz (rewritten by every run, not committed)')
    return [full[i] for i in chosen], families, listing



class Session:
    TIERS = {
        'quick': dict(N=5, K=4, solver_ms=60000, budget_s=420),
        'thorough': dict(N=7, K=5, solver_ms=600000, budget_s=3000),
    }

    def __init__(self, prop, tier, seed):
        self.prop = prop
        self.tier = tier
        self.seed = seed
        self.t0 = time.time()
        self.bounds = dict(self.TIERS[tier])
        self.logs = []
        self.obls = []
        self.violations = []     # dict(key, what, replay)
        self.inconclusive = []
        self.assumptions = []
        self.contracts_used = {}
        self.fns_used = {}
        self.validation = {}
        self._core = None
        self._bin = None
        self._adts = None
        self._driver = None
        self._cli = None
        self.tree = None
        self._defs = {}

    def log(self, msg):
        line = '[%s %6.1fs] %s' % (self.prop, time.time() - self.t0, msg)
        self.logs.append(line)
        print(line, file=sys.stderr, flush=True)

    # -- artefacts ---------------------------------------------------------------
    def _load(self):
        if self._core is None:
            core, binm, th = dump_mir(self.log)
            self.tree = th
            self._core = mirparse.load(core, 'core')
            self._bin = mirparse.load(binm, 'bin')
            self._adts = adts.load_adts()

    @property
    def core(self):
        self._load()
        return self._core

    @property
    def bin(self):
        self._load()
        return self._bin

    @property
    def adts(self):
        self._load()
        return self._adts

    def defs(self, module):
        if id(module) not in self._defs:
            self._defs[id(module)] = machine.DefIndex(module, REPO)
        return self._defs[id(module)]

    @property
    def driver(self):
        if self._driver is None:
            self._driver = Driver(build_driver(self.log))
        return self._driver

    @property
    def cli(self):
        if self._cli is None:
            self._cli = build_cli(self.log)
        return self._cli

    def find_fn(self, module, call_name):
        fn = self.defs(module).resolve(machine.parse_call_name(call_name))
        if fn is None:
            raise explore.Inconclusive('function `%s` not found in the fresh MIR dump (renamed or removed?)' % call_name)
        return fn

    def machine(self, module, contracts, ctx, overrides=None, **kw):
        extra = ()
        if module is self._bin:
            self.defs(self.core)
            extra = (self.core,)     # the CLI may call small library functions (Config builders) that no contract covers
        m = machine.Machine(module, self.adts, contracts, ctx, repo=REPO, overrides=overrides, defindex=self.defs(module), extra_modules=extra, **kw)
        if self.prop == 'C17':
            m.ambient_label = 'C17:state-outside-the-call'
        return m

    def absorb(self, m):
        for k, v in m.used_fns.items():
            self.fns_used[k] = v
        for k, v in m.used_contracts.items():
            self.contracts_used[k] = self.contracts_used.get(k, 0) + v

    # -- running obligations ------------------------------------------------------
    _in_worker = False

    def explore(self, name, desc, body, bounds=None, max_paths=5000000, parallel=False):
        """run body over all paths; returns (obligation record, explorer)"""
        ob = Obligation(name, desc)
        ob.bounds = bounds or {}
        self.obls.append(ob)
        remaining = self.bounds['budget_s'] - (time.time() - self.t0)
        ex = explore.Explorer(timeout_ms=self.bounds['solver_ms'], max_paths=max_paths,
                              deadline=time.time() + max(remaining, 5))
        t = time.time()
        try:
            def merge(x):
                for k, v in x[0].items():
                    self.fns_used[k] = v
                for k, v in x[1].items():
                    self.contracts_used[k] = max(self.contracts_used.get(k, 0), v)
            ex.child_extra = lambda: (self.fns_used, self.contracts_used)
            ex.merge_extra = merge
            W = 0
            if parallel and not self._in_worker:
                W = int(os.environ.get('VERIF_WORKERS', '0') or 0) or min(12, os.cpu_count() or 1)
            ex.run(body, parallel=W)
            ob.status = 'held' if not ex.violations else 'counterexample'
        except explore.Inconclusive as e:
            ob.status = 'inconclusive: %s' % e
            self.inconclusive.append('%s: %s' % (name, e))
            self.log('INCONCLUSIVE %s: %s' % (name, e))
        st = ex.stats
        ob.paths, ob.queries, ob.sat, ob.unsat = st.paths, st.solver_checks, st.sat, st.unsat
        ob.solver_s = round(st.solver_s, 3)
        ob.wall_s = round(time.time() - t, 3)
        ob.obligations, ob.discharged = st.obligations, st.discharged
        ob.witnesses = {k: (v if v is not True else 'sat') for k, v in ex.witness.items()}
        self.log('%s: %s paths=%d queries=%d (sat %d / unsat %d) solver=%.2fs wall=%.2fs obligations %d/%d'
                 % (name, ob.status, ob.paths, ob.queries, ob.sat, ob.unsat, ob.solver_s, ob.wall_s, ob.discharged, ob.obligations))
        return ob, ex

    def explore_batch(self, tasks, workers=None):
        """Independent explorations run in forked worker processes (the sandbox has 16 cores).  tasks: [(name, desc, body, bounds)];
        bodies must not talk to the native driver.  Returns [(obligation record, [(label, None, info)])] in task order; every record,
        counter and used-function entry is merged into this session exactly as if the explorations had run here."""
        import pickle
        import tempfile
        if workers is None:
            workers = int(os.environ.get('VERIF_WORKERS', '0') or 0) or min(12, os.cpu_count() or 1)
        if workers <= 1 or len(tasks) < 4:
            out = []
            for name, desc, body, bounds in tasks:
                ob, ex = self.explore(name, desc, body, bounds=bounds)
                out.append((ob, list(ex.violations)))
            return out
        self._load()
        workers = min(workers, len(tasks))
        sys.stdout.flush()
        sys.stderr.flush()
        tmpdir = tempfile.mkdtemp(prefix='mirsym-batch-')
        pids = []
        for w in range(workers):
            pid = os.fork()
            if pid == 0:
                code = 0
                try:
                    self._driver = None             # the driver pipe belongs to the parent
                    self._in_worker = True
                    res = []
                    for idx in range(w, len(tasks), workers):
                        name, desc, body, bounds = tasks[idx]
                        n_inc = len(self.inconclusive)
                        n_log = len(self.logs)
                        self.fns_used = {}
                        self.contracts_used = {}
                        try:
                            ob, ex = self.explore(name, desc, body, bounds=bounds)
                            viol = []
                            for lab, mdl, info in ex.violations:
                                try:
                                    pickle.dumps(info)
                                except Exception:
                                    info = dict(unpicklable=repr(info)[:2000])
                                viol.append((lab, None, info))
                        except Exception as e:           # an internal error in one exploration must not be lost
                            import traceback
                            ob = Obligation(name, desc)
                            ob.status = 'inconclusive: internal error in the checker: %s' % (traceback.format_exc()[-1500:],)
                            viol = []
                            self.inconclusive.append('%s: internal error in the checker (%s)' % (name, e))
                        res.append(dict(idx=idx, ob=ob, viol=viol, inconclusive=self.inconclusive[n_inc:], logs=self.logs[n_log:],
                                        fns_used=self.fns_used, contracts_used=self.contracts_used))
                    with open(os.path.join(tmpdir, '%d.pkl' % w), 'wb') as f:
                        pickle.dump(res, f)
                except BaseException:
                    import traceback
                    traceback.print_exc()
                    code = 3
                finally:
                    sys.stdout.flush()
                    sys.stderr.flush()
                    os._exit(code)
            pids.append(pid)
        failed = False
        for pid in pids:
            _, st = os.waitpid(pid, 0)
            if st != 0:
                failed = True
        results = {}
        for w in range(workers):
            fp = os.path.join(tmpdir, '%d.pkl' % w)
            if os.path.exists(fp):
                for r in pickle.load(open(fp, 'rb')):
                    results[r['idx']] = r
        subprocess.run(['rm', '-rf', tmpdir])
        out = []
        for idx, (name, desc, body, bounds) in enumerate(tasks):
            r = results.get(idx)
            if r is None:
                ob = Obligation(name, desc)
                ob.status = 'inconclusive: worker process died'
                self.obls.append(ob)
                self.inconclusive.append('%s: worker process died (out of memory?)' % name)
                out.append((ob, []))
                continue
            self.obls.append(r['ob'])
            self.inconclusive += r['inconclusive']
            self.logs += r['logs']
            for k, v in r['fns_used'].items():
                self.fns_used[k] = v
            for k, v in r['contracts_used'].items():
                self.contracts_used[k] = self.contracts_used.get(k, 0) + v
            out.append((r['ob'], r['viol']))
        if failed and not any(o.status.startswith('inconclusive') for o, _ in out):
            self.inconclusive.append('a worker process of a batch ended abnormally')
        return out

    def require_witness(self, ob, labels):
        for l in labels:
            if l not in ob.witnesses:
                msg = 'vacuity: witness `%s` of %s is unreachable (harness over-constrained or code path gone)' % (l, ob.name)
                self.inconclusive.append(msg)
                self.log('INCONCLUSIVE ' + msg)

    # -- verdicts -------------------------------------------------------------------
    def violation(self, key, what, replay):
        for v in self.violations:
            if v['key'] == key:
                v['count'] += 1
                return
        self.violations.append(dict(key=key, what=what, replay=replay, count=1))

    def finish(self, level='other', explanation='', trusted=None):
        xc = explore.XCHECK
        if xc['period']:
            self.validation['second_solver_sampling'] = dict(every_nth_query=xc['period'], queries_sampled=xc['sampled'], verdicts_agreeing=xc['agree'],
                                                             verdicts_inconclusive=xc['inconclusive'], disagreements=xc['disagree'][:5],
                                                             solvers=['cvc5 1.0.3', 'z3 4.8.12 (/usr/bin/z3)'], note='sampled in the main process only (worker processes do not sample)')
            if xc['disagree']:
                self.inconclusive.append('second solver disagrees on %d sampled queries: %r' % (len(xc['disagree']), xc['disagree'][0]))
        known = []
        kf = os.path.join(VERIF, 'known_findings.json')
        if os.path.exists(kf):
            known = [k for k in json.load(open(kf)) if k.get('property') == self.prop and k.get('status') == 'open']
        known_keys = {k['key']: k for k in known}
        new = []
        # runs against another checkout (VERIF_REPO) never touch the committed evidence
        evdir = os.path.join(VERIF, 'evidence') if not RTAG else os.path.join(CACHE, 'evidence' + RTAG)
        if os.environ.get('VERIF_EVIDENCE_DIR'):
            evdir = os.environ['VERIF_EVIDENCE_DIR']      # auxiliary runs (second-solver sampling) keep the committed evidence untouched
        os.makedirs(os.path.join(VERIF, 'replays'), exist_ok=True)
        os.makedirs(evdir, exist_ok=True)
        for v in self.violations:
            if v['key'] in known_keys:
                print('KNOWN-FINDING: property=%s %s [%s]' % (self.prop, known_keys[v['key']]['what'], v['key']))
            else:
                h = hashlib.sha256(v['key'].encode()).hexdigest()[:10]
                path = os.path.join(VERIF, 'replays', '%s-%s.json' % (self.prop, h))
                json.dump(dict(property=self.prop, key=v['key'], what=v['what'], replay=v['replay']), open(path, 'w'), indent=1)
                print('VIOLATION property=%s replay=%s' % (self.prop, path))
                print('  what: %s' % v['what'])
                new.append(v)
        n_obl = sum(o.obligations for o in self.obls)
        n_dis = sum(o.discharged for o in self.obls)
        full = []
        for o in self.obls:
            full.append(dict(obligation=o.name, desc=o.desc, bounds=o.bounds, status=o.status, paths=o.paths,
                             queries=o.queries, solver_s=o.solver_s, witnesses=o.witnesses, samples=o.samples[:3]))
        samples, families, listing = _bounded_samples(full)
        # the complete per-obligation listing of this run (not committed; the evidence file holds a bounded selection of it)
        try:
            fulldir = os.path.join(CACHE, 'evidence-full' + RTAG)
            os.makedirs(fulldir, exist_ok=True)
            with gzip.open(os.path.join(fulldir, '%s.%s.jsonl.gz' % (self.prop, self.tier)), 'wt') as fh:
                for r in full:
                    fh.write(json.dumps(r, default=str) + '\n')
        except OSError:
            pass
        ev = dict(
            property_id=self.prop, tier=self.tier, seed=self.seed, level=level,
            coverage=dict(
                explanation=explanation,
                obligations=n_obl, discharged=n_dis,
                paths=sum(o.paths for o in self.obls),
                solver_queries=sum(o.queries for o in self.obls),
                solver_sat=sum(o.sat for o in self.obls), solver_unsat=sum(o.unsat for o in self.obls),
                solver_s=round(sum(o.solver_s for o in self.obls), 3),
                bounds=self.bounds,
                functions_encoded=[dict(name=k, mir_sha=v) for k, v in sorted(self.fns_used.items())],
                contracts_used=self.contracts_used,
                trusted_base=trusted or [],
                translator_validation=self.validation,
                native_driver_calls=self._driver.calls if self._driver else 0,
                tree_hash=self.tree,
                samples=samples,
                samples_listing=listing,
                obligation_families=families,
                inconclusive=self.inconclusive[:200],
                known_findings_matched=[v['key'] for v in self.violations if v['key'] in known_keys],
            ),
            assumptions=self.assumptions,
            wall_s=round(time.time() - self.t0, 2),
            violations=len(new),
        )
        text = json.dumps(ev, indent=1, default=str)
        if len(text) > EVIDENCE_MAX_BYTES:          # cannot happen with the sample budget unless another key grows: keep the record readable
            ev['coverage']['samples'] = samples[:50]
            ev['coverage']['functions_encoded'] = ev['coverage']['functions_encoded'][:400]
            text = json.dumps(ev, indent=1, default=str)
        json.loads(text)                            # the record written is a valid json document
        evpath = os.path.join(evdir, '%s.json' % self.prop)
        with open(evpath + '.tmp', 'w') as fh:
            fh.write(text)
            fh.flush()
            os.fsync(fh.fileno())
        os.replace(evpath + '.tmp', evpath)
        if self._driver:
            self._driver.close()
        if new:
            return 1
        if self.inconclusive:
            print('INCONCLUSIVE property=%s: %s' % (self.prop, '; '.join(self.inconclusive)[:2000]))
            return 2
        print('OK property=%s tier=%s obligations=%d/%d paths=%d queries=%d solver_s=%.1f wall_s=%.1f'
              % (self.prop, self.tier, n_dis, n_obl, ev['coverage']['paths'], ev['coverage']['solver_queries'],
                 ev['coverage']['solver_s'], ev['wall_s']))
        return 0
