"""Whole small documents through the real printer (every converter from its MIR, nothing opaque): AttrStore::new + convert_markup.

The node tree of each source in DOCS comes from the real parser (driver `leaves`/`trees`); whitespace tokens get symbolic characters of the
same class (line break / other blank), configuration is symbolic.  Decided on every path and in both observed layouts:
  * the non-layout character stream of the document equals that of the source (token conservation, C01),
  * a line comment is followed by a hard line break (C04),
  * the line-break backslash is followed by whitespace or the end of the document - otherwise the lexer reads an escape (C04),
  * no panic (C05).
"""
import os
import tempfile
import z3

from mirsym.values import *
from mirsym.explore import Panic
from mirsym import models_typst as T
from mirsym import models_doc as D
from mirsym.models_std import STD, Str, is_ws, valid_scalar
from mirsym.models_typst import Node, Ast
from mirsym.session import hexs, unhexs
from . import pp
from .common import *
from .conserve import parse_sexp, strip_layout, size_of, source_of, leaf_list
from .lists import atoms_modes, show_atoms
from .adjacency import leaves, significant

DOCS = [
    # line-break backslash before closing delimiters / at ends
    '$mat(a \\ )$\n', '$a / \\ $\n', '#f[- a \\ ]\n', '#[a \\ ]\n', '$ (a \\ ) $\n', '*a \\ *\n', '_a \\ _\n', '= a \\ \n', '- a \\ \n', '+ a \\ \n', '/ a: b \\ \n',
    '$ a \\ $\n', '$a \\ b$\n', 'a \\ b\n', '#f($a \\ $)\n', '$f(a \\ , b)$\n', '$f(a; b \\ )$\n', '$vec(a \\ b)$\n', '#[$a \\ $]\n', '#[\n  a \\ \n]\n', '#f[a \\ ][b]\n',
    '$ a \\ \n$\n', '$\n  a \\ \n  b\n$\n', '#[- a \\ \n]\n', '/ a \\ : b\n',
    '$mat(a \\ , b; c)$\n', '$mat(a, b \\ ; c)$\n', '$mat(a; b \\ )$\n', '#f[+ a \\ ]\n', '#[a \\ ][b]\n', '#strong[a \\ ]\n', '$f(x)(a \\ )$\n', '#table([a \\ ])\n',
    '$a_(b \\ )$\n', '$sqrt(a \\ )$\n', '$[a \\ ]$\n', '$(a \\ )/b$\n', '#f(a)[b \\ ]\n', '$f(#x \\ )$\n', '#f[/ t \\ : d]\n', '/ t: d \\ \n', '#[*a \\ *]\n', '#[= a \\ ]\n',
    '$lr((a \\ ))$\n', '$a \\ /* c */$\n', '$mat(a \\ /* c */)$\n', '$f(a \\ ,)$\n', '$f(..a \\ )$\n', '$f(k: a \\ )$\n', '$f(k: a \\ , b)$\n', '$mat(a \\ ,; b)$\n',
    # a block comment directly behind a token that ends in `*` or `/`
    '$a_* /* c */^2$\n', '$x^* /* c */_2$\n', '$a_(*) /* c */^2$\n', '$a / /* c */ b$\n', '#(a / /* c */ b)\n', '$* /* c */ x$\n', '$a_* /* c */$\n', '$a^/ /* c */$\n', '#(a * /* c */ b)\n',
    '$f(* /* c */)$\n', '$a_*/**/^2$\n' if False else '$a/ /* c */b$\n', '*a* /* c */ b\n', '#f(a)/* c */\n',
    # line comments before closing delimiters
    '#f(a // c\n)\n', '#(a, // c\n)\n', '$f(a // c\n)$\n', '#[a // c\n]\n', '$a // c\n$\n', '#{a // c\n}\n', '#let f(a // c\n) = 1\n', '#import "a": (b // c\n)\n',
    '#f(a)[b // c\n]\n', '#a.b // c\n.c\n', '#(a // c\n+ b)\n',
    # parentheses
    '#let x = (1)\n', '#let y = (a + b)\n', '#let z = ((a, b))\n', '#(a)\n', '#((a))\n', '#(1) x\n', '#("a")b\n', '#(1).abs()\n', '#([a])x\n', '#{(1)}x\n',
    # assorted small documents
    '= H\n\ntext #f(1, 2)[b] more\n', '- a\n  - b\n+ c\n', '#let f(x) = {\n  x + 1\n}\n', '$ a + b = c $\n', '#show: it => it\n', '#set text(red)\n*b* _e_ `r`\n',
    '#if a { b } else { c }\n', '#for x in y { x }\n', '#import "a.typ": b, c\n', '#table(columns: 2, [a], [b])\n', 'a <l> @r #[c]\n', '#x.y.z(1).w\n',
    '```py\nx\n```\n', '#let s = "a\\nb"\n', '#(a: 1, b: 2)\n', '#f(..a)\n', '#while a { break }\n', '#context { here() }\n', '/ T: d\n',
]


# prose documents (distinct words): paragraphs, line breaks inside paragraphs, nested markup
PROSE = [
    'alpha beta\ngamma  delta\n\nepsilon zeta\n', '= Head one\nalpha beta\n', '- alpha beta\n  gamma delta\n- epsilon\n', '+ alpha\n  beta gamma\n',
    '/ Term one: alpha beta\n  gamma\n', '*alpha beta* _gamma\ndelta_ epsilon\n', 'alpha #f(1) beta\ngamma #[delta epsilon] zeta\n', 'alpha <lab> beta @ref gamma\n',
    '#[alpha beta\ngamma]\n', '#f[alpha beta][gamma\ndelta]\n', 'alpha beta // c\ngamma delta /* d */ epsilon\n', '- alpha\n  - beta gamma\n    delta\n',
    'alpha `raw` beta $x$ gamma\ndelta\n', '#let x = [alpha beta\n  gamma]\n', '= Head\n\nalpha beta\n\n\n\ngamma delta\n', 'alpha\\ beta gamma\n',
    '#strong[alpha beta] gamma\n#emph[delta\nepsilon]\n', '#figure(caption: [alpha beta\ngamma])[delta epsilon]\n',
]


def word_pairs(tree, out=None):
    """(word, whitespace leaf, word) for Text siblings separated by exactly one Space token"""
    out = [] if out is None else out
    kind, x = tree
    if isinstance(x, list):
        for a, b, c in zip(x, x[1:], x[2:]):
            if a[0] == 'Text' and b[0] == 'Space' and c[0] == 'Text':
                out.append((a[1], b, c[1]))
        for c in x:
            word_pairs(c, out)
    return out


# documents with `@typstyle off` directives at many places
OFF_DOCS = [
    '// @typstyle off\n#let   x  =  ( 1,2 )\n#let   y  =  ( 1,2 )\n', '/* @typstyle off */ #f( 1 ,2 )\n\n#f( 1 ,2 )\n',
    '#{\n  let a = 1\n  // @typstyle off\n  let   x  =  ( 1,2 )\n  let   y  =  ( 1,2 )\n}\n', '#let x = /* @typstyle off */ (a   +  b)\n',
    '#let z = (/* @typstyle off */ (a  +  b))\n', '#for /* @typstyle off */ ( a,b ) in c {}\n', '#let f(/* @typstyle off */ ( a,b ) , c ) = 1\n',
    '#f(\n  // @typstyle off\n  ( 1,2 ),\n  ( 3,4 ),\n)\n', '#(\n  // @typstyle off\n  ( 1,2 ),\n  ( 3,4 ),\n)\n', '$\n  // @typstyle off\n  a+b   c \n$\n',
    '$ x   + (/* @typstyle off */ a  +  b) $\n', '$ sin(/* @typstyle off */ a  +  b,   c   d) $\n', '$ x /* @typstyle off */ #f(a,   b)   +   y $\n',
    '#let f() = /* @typstyle off */ { 1+1 }\n', '// @typstyle off\n#f( 1 ,2 ) #g( 1 ,2 )\n', '- a\n  // @typstyle off\n  #f( 1 ,2 )\n', '#[\n  // @typstyle off\n  #f( 1 ,2 )\n]\n',
    '#show: /* @typstyle off */ it  =>  it\n', '#if /* @typstyle off */ a   ==  b { c }\n', '#(a: /* @typstyle off */ ( 1,2 ), b: ( 3,4 ))\n',
    '#import "a.typ": /* @typstyle off */ b  ,  c\n', '#table(\n  // @typstyle off\n  [ a ] , [b],\n  [c], [d],\n)\n', '#x.y(/* @typstyle off */ ( 1,2 )).z\n',
    '#{\n  // @typstyle off\n  x   =  1\n  y   =  2\n}\n', '/* @typstyle off */\n\n#f( 1 ,2 )\n', '= H /* @typstyle off */ #f( 1 ,2 )\n',
]


PROTECTABLE = set()      # kinds that cast to Expr or Pattern, plus Code and Math (filled from the real kind tables)


def protected_texts(tree, out=None):
    """reference semantics of the directive on a parsed tree: the source texts of the nodes that must come out verbatim"""
    out = [] if out is None else out
    kind, x = tree
    if not isinstance(x, list):
        return out
    pending = False
    for c in x:
        if c[0] in ('LineComment', 'BlockComment'):
            if '@typstyle off' in c[1]:
                pending = True
            continue
        if pending and c[0] not in ('Space', 'Hash', 'Parbreak'):
            # the property speaks of expressions, code bodies and equation bodies (whitespace - a paragraph break is whitespace - and `#` are skipped)
            if c[0] in PROTECTABLE:
                out.append(source_of(c))
            pending = False
            continue
        protected_texts(c, out)
    return out


# embedded code in math: its identifier must not run into what follows, and a semicolon keeps its role (code terminator when it
# directly follows the code, row separator when a blank precedes it)
CODE_DOCS = [
    '/ : desc\n', '/ a: \n', '/ : \n', '- \n', '+ \n', '/ a:b\n', '-  a\n',
    '$#x _a$\n', '$#x.y _z$\n', '$#x ^a$\n', '$#x a$\n', '$#x_a$\n', '$mat(a_#x ; 2)$\n', '$mat(1/#x; 2)$\n', '$mat(#x; 2)$\n', '$mat(#x ; 2)$\n', '$mat(1 + #x ; 2)$\n',
    '$mat(a^#x ; 2)$\n', '$mat(a_#x; 2)$\n', '$mat(#f(1) ; 2)$\n', '$mat(#f(1); 2)$\n', '$f(#x, y)$\n', '$f(#x , y)$\n', '$#x;$\n', '$#x ;$\n', '$a/#x ; b$\n', '$sqrt(#x) _a$\n',
    '$#x\'$\n', "$#x '$\n", '$mat(√#x ; 2)$\n', '$mat(a/b_#x ; 2)$\n',
]


# one embedded statement per document: in markup the statement ends at the first line break outside its delimiters
EMBED_DOCS = [
    '#for x in data.entries.filter(it => it.ok).rev() [a]\n', '#for x in aaaaaaaaaa.bbbbbbbbbbbb.cccccccccc(dddddddd).eeeeeeeee() [a]\n', '#while aaaaaaaa.bbbbbbb.ccccccc(d).eeeee() { x }\n',
    '#if aaaaaaaa.bbbbbbb.ccccccc(d).eeeee() [a] else [b]\n', '#if aaaaaaaaaaaaa and bbbbbbbbbbbbbbb and cccccccccccc [a]\n', '#let v = aaaaaaaa.bbbbbbb.ccccccc(d).eeeee()\n',
    '#let v = aaaaaaaaaaaaa + bbbbbbbbbbbbbbb + cccccccccccc\n', '#show aaaaaaaa.where(b: c): it => it.body.children.map(f).join()\n', '#set text(fill: aaaaaaaa.bbbbbbb.ccccccc(d).eeeee())\n',
    '#aaaaaaaa.bbbbbbb.ccccccc(d).eeeee()\n', '#for x in data.map(it => {\n  let y = it\n  y\n}).rev() [a]\n', '#context aaaaaaaa.bbbbbbb.ccccccc(d).eeeee()\n',
    '#import "a.typ": aaaaaaaaaa, bbbbbbbbbbbb, cccccccccc\n', '#include "aaaaaaaaaaaaaaaa" + bbbbbbbbbbbbbbbb\n', '#return aaaaaaaa + bbbbbbbb\n', '#for (k, v) in aaaaaaaa.bbbbbbb.pairs() { k }\n',
    '#link("u");[1]\n', '#v(1em);(optional)\n', '#f[a];.b\n', '#{a};[x]\n', '#f(x); text\n', '#x;y\n', '#x.y;.z\n',
]


def markup_semicolons(tree, parent=None):
    kind, x = tree
    if not isinstance(x, list):
        return 1 if kind == 'Semicolon' and parent == 'Markup' else 0
    return sum(markup_semicolons(c, kind) for c in x)


def code_adjacency(tree):
    """[(index of the leaf that ends embedded code, separated-by-blank?, text of the next non-blank leaf)] for embedded identifiers `#x` / `#x.y`"""
    from .conserve import leaf_list
    lv = leaf_list(tree)
    out = []
    i = 0
    while i < len(lv):
        if lv[i][0] == 'Hash' and i + 1 < len(lv) and lv[i + 1][0] == 'Ident':
            j = i + 1
            while j + 2 < len(lv) and lv[j + 1][0] == 'Dot' and lv[j + 2][0] == 'Ident':
                j += 2
            k = j + 1
            blank = False
            while k < len(lv) and lv[k][0] == 'Space':
                blank = True
                k += 1
            if k < len(lv):
                out.append((lv[j][1], blank, lv[k][0], lv[k][1]))
            i = j + 1
        else:
            i += 1
    return out


def tree_of(S, src):
    with tempfile.NamedTemporaryFile('w', suffix='.typ', delete=False, encoding='utf-8') as f:
        f.write(src)
        path = f.name
    try:
        r = S.driver.call('trees', hexs(path), 100000)
    finally:
        os.unlink(path)
    if r[0] != 'ok' or len(r) < 2:
        return None
    t = parse_sexp(unhexs(r[1]))
    return t if t[0] == 'Markup' else None


MARKUP_PARENTS = ('Markup', 'Heading', 'ListItem', 'EnumItem', 'TermItem', 'Strong', 'Emph')     # their whitespace tokens are lexed in markup mode


def build(ctx, tree, kt, counter, concrete_ws=False, parent=None):
    kind, x = tree
    k = kt.k(kind)
    if isinstance(x, list):
        return Node(k, children=[build(ctx, c, kt, counter, concrete_ws, kind) for c in x])
    if kind in ('Space', 'Parbreak') and not concrete_ws:
        # same class per character: a line break stays some line break (CR LF pairs stay as they are), a blank stays some blank
        chars = []
        for j, ch in enumerate(x):
            if ch in '\r\n':
                chars.append(ord(ch))
                continue
            c = z3.BitVec('ws%d_%d' % (counter[0], j), 32)
            ctx.assume(valid_scalar(c))
            ctx.assume(is_ws(c))
            nl = z3.Or(*[c == k for k in T.TYPST_NEWLINES])
            ctx.assume(nl if ord(ch) in T.TYPST_NEWLINES else z3.Not(nl))
            if parent in MARKUP_PARENTS or parent is None:
                # lexer fact: in markup only the blank and the tab (and the newline characters) are whitespace; other White_Space scalars are text
                ctx.assume(z3.Or(nl, c == 32, c == 9))
            chars.append(c)
        counter[0] += 1
        return Node(k, text=Str(tuple(chars)))
    return Node(k, text=Str.lit(x))


def explore(S, docs=None, want=('C01', 'C04', 'C05')):
    kt = T.KT
    core = S.core
    f_attr = S.find_fn(core, 'AttrStore::new')
    f_markup = S.find_fn(core, 'PrettyPrinter::convert_markup')
    found = []
    PROTECTABLE.clear()
    PROTECTABLE.update({kt.names[k] for k in kt.cast_variant['Expr']} | {kt.names[k] for k in kt.cast_variant.get('Pattern', {})} | {'Code', 'Math'})
    PROTECTABLE.difference_update({'Space', 'Parbreak', 'Text', 'Linebreak'})
    coverage = dict(docs=0, decided=0, gaps=[])
    for src in (docs or DOCS):
        tree = tree_of(S, src)
        if tree is None:
            coverage['gaps'].append('not parsed / erroneous: %r' % src)
            continue
        coverage['docs'] += 1

        pairs = word_pairs(tree) if 'C08' in want else []
        prot = protected_texts(tree) if 'C07' in want else []
        adj = code_adjacency(tree) if 'C01' in want else []
        msemis = markup_semicolons(tree) if 'C01' in want else 0
        embedded = src in EMBED_DOCS
        _lv = [t_ for k_, t_ in leaf_list(tree) if t_ != '']
        src_adj = {(a_[-1], b_[0]) for a_, b_ in zip(_lv, _lv[1:])}
        from .conserve import leaf_list as _ll
        markers = {t_ for k_, t_ in _ll(tree) if k_ in ('ListMarker', 'EnumMarker', 'TermMarker')} if 'C01' in want and not src.startswith('$') else set()

        def body(ctx, tree=tree, src=src, pairs=pairs, prot=prot, adj=adj):
            m = S.machine(core, STD, ctx)
            root = build(ctx, tree, kt, [0], concrete_ws='C07' in want)
            attrs = m.call_fn(f_attr, [root])
            cfg = Agg('Config', None, (z3.BitVec('cfg_tab', 64), z3.BitVec('cfg_width', 64), 2, False), pp.CFG_NAMES)
            ctx.assume(z3.ULT(cfg.fields[0], 1 << 31))
            pr, _ = pp.printer(m, cfg=cfg, attrs=attrs)
            c0 = pp.context(mode=0, suppressed=False)       # Context::default(), as in lib.rs

            def describe(mdl):
                return dict(source=src, tab=model_int(mdl, cfg.fields[0]), width=model_int(mdl, cfg.fields[1]))
            try:
                d = m.call_fn(f_markup, [pr, c0, Ast('Markup', root)])
            except Panic as p:
                S.absorb(m)
                ctx.must_hold(False, 'C05:printer-panic', lambda mdl: dict(describe(mdl), panic=p.msg))
                return
            S.absorb(m)
            if 'C07' in want:
                for mode, at in atoms_modes(d).items():
                    texts = [a[1].concrete() for a in at if a[0] == 't' and a[1].is_concrete()]
                    for ptxt in prot:
                        ctx.must_hold(any(ptxt in t_ for t_ in texts), 'C07:protected-node-not-emitted-verbatim',
                                      lambda mdl, mode=mode, at=at, ptxt=ptxt: dict(describe(mdl), layout=mode, protected=ptxt, atoms=show_atoms(at)[:300]))
                        ctx.witness('protected node')
                    ctx.must_hold(any('@typstyle off' in t for t in texts) or not prot, 'C07:directive-comment-lost', lambda mdl: describe(mdl))
            if 'C12' in want:
                # a text atom that spans lines carries indentation copied from the source: allowed only for comments, strings, raw text and nodes
                # protected by a directive
                exempt = [t_ for k_, t_ in leaf_list(tree) if k_ in ('BlockComment', 'LineComment', 'Str', 'Text', 'RawTrimmed', 'Raw') or k_.startswith('Raw')] + protected_texts(tree)
                def _blank_norm(x_):
                    return ''.join(' ' if (ch_ != '\n' and py_is_ws(ch_)) else ch_ for ch_ in x_)
                exempt = [_blank_norm(e_) for e_ in exempt]
                for mode_, at_ in atoms_modes(d).items():
                    for a_ in at_:
                        if a_[0] != 't':
                            continue
                        # (the blanks of the source are symbolic within their class; line feeds are concrete)
                        txt_ = ''.join(' ' if is_sym(c_) else chr(c_) for c_ in a_[1].chars)
                        if '\n' in txt_.strip('\n'):
                            txt_ = _blank_norm(txt_)
                            okx = any(txt_ in e_ or (e_ in txt_ and e_.count('\n') >= txt_.strip('\n').count('\n')) for e_ in exempt if '\n' in e_)
                            ctx.must_hold(okx, 'C12:indentation-copied-from-the-source-outside-the-exempt-regions', lambda mdl, txt_=txt_: dict(describe(mdl), text=txt_))
                    break
                # a line starts with the indentation its nest() levels give it and nothing else: a blank pushed as text right behind a line break would
                # add to it (comments, strings and raw text print their own continuation lines inside one atom and are not affected)
                for mode_, at_ in atoms_modes(d).items():
                    stray = None
                    for j_ in range(len(at_) - 2):
                        if at_[j_] == ('nl',) and at_[j_ + 1][0] == 't' and at_[j_ + 1][1].is_concrete() and at_[j_ + 1][1].concrete() != '' and at_[j_ + 1][1].concrete().strip(' ') == '' and at_[j_ + 2] != ('nl',):
                            nxt_ = at_[j_ + 2]
                            stray = nxt_[1].concrete()[:20] if nxt_[0] == 't' and nxt_[1].is_concrete() else '?'
                    ctx.must_hold(stray is None, 'C12:blank-pushed-at-the-start-of-a-line', lambda mdl, stray=stray, mode_=mode_: dict(describe(mdl), layout=mode_, before=stray))
                offs = D.indent_nest_offsets(d)
                ctx.must_hold(b_and(*[i_eq(o, cfg.fields[0], 64) for o in offs]), 'C12:nest-offset-differs-from-indent-unit',
                              lambda mdl: dict(describe(mdl), offsets=[(model_int(mdl, o) if is_sym(o) else o) for o in offs]))
                if offs:
                    ctx.witness('nested')
            expected = strip_layout(src)
            for mode, at in atoms_modes(d).items():
                got = ''
                lb_bad = False
                lc_bad = False
                for j, a in enumerate(at):
                    if a[0] == 't':
                        s = a[1].concrete() if a[1].is_concrete() else ' ' * len(a[1])      # symbolic text here is whitespace only
                        got += s
                        nxt = at[j + 1] if j + 1 < len(at) else None
                        if s == '\\':
                            ok = nxt is None or nxt == ('nl',) or (nxt[0] == 't' and ((not nxt[1].is_concrete()) or nxt[1].concrete()[:1] in (' ', '')))
                            # an empty text atom: look further
                            q = j + 1
                            while ok and q < len(at) and at[q][0] == 't' and at[q][1].is_concrete() and at[q][1].concrete() == '':
                                q += 1
                                nx2 = at[q] if q < len(at) else None
                                ok = nx2 is None or nx2 == ('nl',) or (nx2[0] == 't' and ((not nx2[1].is_concrete()) or nx2[1].concrete()[:1] in (' ', '')))
                            if not ok:
                                lb_bad = True
                        if s.startswith('//') and nxt is not None and nxt != ('nl',):
                            lc_bad = True
                    elif a[0] == 'o':
                        got += '�'
                got = strip_layout(got)
                info = lambda mdl, mode=mode, at=at, got=got: dict(describe(mdl), layout=mode, atoms=show_atoms(at)[:300], expected=expected, got=got)
                if 'C01' in want:
                    ctx.must_hold(got == expected, 'C01:document-tokens-added-dropped-or-reordered', info)
                if 'C01' in want and adj:
                    flat = []
                    for a in at:
                        if a[0] == 't':
                            t_ = a[1].concrete() if a[1].is_concrete() else ' ' * len(a[1])
                            if t_ != '':
                                flat.append(t_)
                        elif a == ('nl',):
                            flat.append('\n')
                    text = ''.join(flat)
                    pos = 0
                    for name, blank, nkind, ntext in adj:
                        q = text.find('#', pos)
                        # locate `name` of this occurrence (the last identifier of the embedded code) and what follows it
                        q = text.find(name, q if q >= 0 else pos)
                        if q < 0:
                            continue
                        after = text[q + len(name):]
                        pos = q + len(name)
                        sep = len(after) - len(after.lstrip(' \n'))
                        nxt = after[sep:sep + 1]
                        if nkind == 'Semicolon':
                            # directly behind the code a semicolon ends the code; behind a blank it separates rows
                            ok = (sep > 0) == blank if nxt == ';' else True
                            ctx.must_hold(ok, 'C01:semicolon-behind-embedded-code-changes-role',
                                          lambda mdl, mode=mode, text=text: dict(describe(mdl), layout=mode, output=text, code=name, blank_in_source=blank))
                        elif blank and (ntext[:1] == '_' or ntext[:1].isalnum()):
                            ctx.must_hold(sep > 0, 'C01:embedded-identifier-runs-into-following-token',
                                          lambda mdl, mode=mode, text=text: dict(describe(mdl), layout=mode, output=text, code=name, next=ntext))
                        ctx.witness('embedded code adjacency')
                if 'C01' in want and msemis:
                    # a semicolon in markup ends embedded code (`#f(x);[y]` is not `#f(x)[y]`): it stays
                    semis = sum(a[1].concrete().count(';') for a in at if a[0] == 't' and a[1].is_concrete())
                    ctx.must_hold(semis >= msemis, 'C01:semicolon-that-ends-embedded-code-dropped', info)
                if 'C04' in want and embedded:
                    # embedded code in markup: a line break outside every delimiter ends the statement, so none may appear before its last token
                    depth = 0
                    bad = False
                    last_tok = max((j for j, a in enumerate(at) if a[0] == 't' and a[1].is_concrete() and a[1].concrete().strip() != ''), default=-1)
                    for j, a in enumerate(at):
                        if a[0] == 't' and a[1].is_concrete():
                            for ch in a[1].concrete():
                                if ch in '([{':
                                    depth += 1
                                elif ch in ')]}':
                                    depth -= 1
                        elif a == ('nl',) and depth == 0 and j < last_tok:
                            bad = True
                    ctx.must_hold(not bad, 'C04:line-break-outside-delimiters-in-embedded-code', info)
                    ctx.witness('embedded statement')
                if 'C01' in want and markers:
                    # a list / enum / term marker is followed by a blank (or the end): `/: d` is text, not a term item
                    ok = True
                    for j, a in enumerate(at):
                        if a[0] == 't' and a[1].is_concrete() and a[1].concrete() in markers:
                            nxt = next((b for b in at[j + 1:] if not (b[0] == 't' and b[1].is_concrete() and b[1].concrete() == '')), None)
                            if not (nxt is None or nxt == ('nl',) or (nxt[0] == 't' and (not nxt[1].is_concrete() or nxt[1].concrete()[:1] == ' '))):
                                ok = False
                    ctx.must_hold(ok, 'C01:item-marker-glued-to-what-follows', info)
                if 'C08' in want:
                    # prose: two words separated by one whitespace token come out separated by exactly one blank, or by exactly one
                    # line break when the token holds one (its characters are symbolic within that class)
                    keys = [(a[1].concrete() if a[0] == 't' and a[1].is_concrete() else None) for a in at]
                    for w1, spc, w2 in pairs:
                        if keys.count(w1) != 1 or keys.count(w2) != 1:
                            continue            # words are matched by their text; repeated or split words are not decided here
                        i1, i2 = keys.index(w1), keys.index(w2)
                        between = [a for a in at[i1 + 1:i2] if not (a[0] == 't' and a[1].is_concrete() and a[1].concrete() == '')]
                        has_nl = any(ord(ch) in T.TYPST_NEWLINES for ch in spc[1])
                        ok = (i1 < i2) and (between == [('nl',)] if has_nl else (len(between) == 1 and between[0][0] == 't' and between[0][1].is_concrete() and between[0][1].concrete() == ' '))
                        ctx.must_hold(ok, 'C08:prose-whitespace-between-words-changed',
                                      lambda mdl, mode=mode, at=at, w1=w1, w2=w2: dict(describe(mdl), layout=mode, words=[w1, w2], atoms=show_atoms(at)[:300]))
                        ctx.witness('prose word pair')
                if 'C04' in want:
                    # two tokens printed without anything between them must not form a comment delimiter that neither holds: `*` + `/* c */`
                    # reads `*/`, `/` + `/* c */` reads `//`, `/` + `*` reads `/*` (stated lexer fact; pairs already adjacent in the source are exempt)
                    fuse_bad = None
                    prev = None
                    for a in at:
                        if a[0] == 't' and a[1].is_concrete():
                            t_ = a[1].concrete()
                            if t_ == '':
                                continue
                            if prev and ((prev[-1] == '*' and t_[0] == '/') or (prev[-1] == '/' and t_[0] in '/*')) and (prev[-1], t_[0]) not in src_adj:
                                fuse_bad = prev[-8:] + t_[:8]
                            prev = t_
                        else:
                            prev = None
                    ctx.must_hold(fuse_bad is None, 'C04:tokens-fuse-into-a-comment-delimiter', lambda mdl, mode=mode, at=at, fb=fuse_bad: dict(describe(mdl), layout=mode, fused=fb, atoms=show_atoms(at)[:300]))
                    ctx.must_hold(not lb_bad, 'C04:linebreak-backslash-fused-with-following-token', info)
                    ctx.must_hold(not lc_bad, 'C04:document-line-comment-not-followed-by-line-break', info)
        ob, ex = S.explore('deep[%s]' % show(src)[:40], 'the whole document %s through AttrStore::new + convert_markup with every converter real: tokens conserved, '
                           'line comments and line-break backslashes keep their separators, no panic; blanks and configuration symbolic' % show(src), body,
                           bounds=dict(nodes=size_of(tree)))
        if ob.status.startswith('inconclusive'):
            S.inconclusive.pop()
            coverage['gaps'].append('%s: %s' % (show(src), ob.status[:200]))
        else:
            coverage['decided'] += 1
        for lab, mdl, info in ex.violations:
            found.append((lab, info))
    S.validation['deep_documents'] = coverage
    return found, coverage


def confirm(S, info):
    src = info['source']
    err, toks = leaves(S, src)
    if err or toks is None:
        return None
    for w, t in ((info.get('width', 80), info.get('tab', 2)), (80, 2), (0, 2), (120, 4)):
        w = min(int(w), 1 << 20)
        t = max(1, min(int(t), 64))
        r = S.driver.call('format', hexs(src), w, t, 0)
        if r[0] in ('panic', 'abort'):
            return dict(api='Typstyle::format_content', source=src, width=w, tab=t, what='format_content panics on %s' % show(src))
        if r[0] != 'ok':
            continue
        out = unhexs(r[1])
        if info.get('code'):
            err2, toks2 = leaves(S, out)
            a = [x for x in toks if x[0] not in ('Space',)]
            b = [x for x in (toks2 or []) if x[0] not in ('Space',)]
            ka = S.driver.call('kindseq', hexs(src)) if False else None
            if err2 or [k for k, t_ in a] != [k for k, t_ in b] or [t_ for k, t_ in a] != [t_ for k, t_ in b] or shape_of_src(S, src) != shape_of_src(S, out):
                return dict(api='Typstyle::format_content', source=src, width=w, tab=t, output=out,
                            what='embedded code changes its extent: %s -> %s (tree %s -> %s)' % (show(src), show(out), shape_of_src(S, src), shape_of_src(S, out)))
            continue
        if info.get('protected'):
            if info['protected'] not in out:
                return dict(api='Typstyle::format_content', source=src, width=w, tab=t, output=out,
                            what='the node after the directive (%s) is not reproduced verbatim: %s -> %s' % (show(info['protected']), show(src), show(out)))
            continue
        if info.get('words'):
            w1, w2 = info['words']
            i1, i2 = out.find(w1), out.find(w2)
            j1, j2 = src.find(w1), src.find(w2)
            if min(i1, i2, j1, j2) >= 0:
                a, b = src[j1 + len(w1):j2], out[i1 + len(w1):i2]
                na = sum(1 for ch in a if ord(ch) in T.TYPST_NEWLINES)
                nb = b.count('\n')
                if (na > 0) != (nb > 0) or nb > 1 or (nb == 0 and b != ' '):
                    return dict(api='Typstyle::format_content', source=src, width=w, tab=t, output=out,
                                what='prose changed: between %s and %s the source has %s, the output %s (%s -> %s)' % (w1, w2, show(a), show(b), show(src), show(out)))
            continue
        err2, toks2 = leaves(S, out)
        if err2:
            return dict(api='Typstyle::format_content', source=src, width=w, tab=t, output=out, what='well-formed %s is formatted to text with syntax errors: %s' % (show(src), show(out)))
        if strip_layout(out) != strip_layout(src):
            return dict(api='Typstyle::format_content', source=src, width=w, tab=t, output=out, what='tokens changed: %s -> %s' % (show(src), show(out)))
        if 'semicolon-that-ends' in info.get('label', '') and shape_of_src(S, src) != shape_of_src(S, out):
            return dict(api='Typstyle::format_content', source=src, width=w, tab=t, output=out,
                        what='%s is formatted to %s: the embedded code now extends over what followed its semicolon (tree %s -> %s)' % (show(src), show(out), shape_of_src(S, src), shape_of_src(S, out)))
        if 'item-marker' in info.get('label', '') and shape_of_src(S, src) != shape_of_src(S, out):
            return dict(api='Typstyle::format_content', source=src, width=w, tab=t, output=out,
                        what='%s is formatted to %s, which is no longer the same list / term item (tree %s -> %s)' % (show(src), show(out), shape_of_src(S, src), shape_of_src(S, out)))
        a = [x for x in significant(toks) if x[0] in ('Linebreak', 'Escape', 'LineComment', 'BlockComment')]
        b = [x for x in significant(toks2) if x[0] in ('Linebreak', 'Escape', 'LineComment', 'BlockComment')]
        if a != b:
            return dict(api='Typstyle::format_content', source=src, width=w, tab=t, output=out,
                        what='%s is formatted to %s: line-break / escape / comment tokens changed (%r -> %r)' % (show(src), show(out), a, b))
    return None


def shape_of_src(S, text):
    """node structure of a source without whitespace tokens (native parse)"""
    from .conserve import shape_of
    t = tree_of(S, text)
    if t is None:
        return None

    def strip(tr):
        k, x = tr
        if isinstance(x, list):
            return (k, [strip(c) for c in x if c[0] != 'Space'])
        return (k, x)
    return shape_of(strip(t))


def site_of(src):
    """role of a linebreak finding, by the construct whose closing delimiter follows the backslash"""
    s = src.strip()
    if s.startswith('$') and '(' in s and s.index('\\') > s.index('('):
        return 'math-call-arguments' if s[s.index('(') - 1:s.index('(')].isalpha() else 'math-delimited'
    if s.startswith('$'):
        return 'equation-edge'
    if s.startswith('#') and '[' in s:
        return 'content-block'
    if s.startswith('/ '):
        return 'term-item'
    return 'markup'


def report(S, prop, found):
    groups = {}
    for lab, info in found:
        if lab.startswith(prop + ':'):
            role = site_of(info['source']) if 'linebreak' in lab else ''
            groups.setdefault((lab, role), []).append(info)
    for (lab, role), infos in sorted(groups.items()):
        hit = None
        seen = set()
        for info in infos:
            if info['source'] in seen:
                continue
            seen.add(info['source'])
            w = confirm(S, dict(info, label=lab))
            if w:
                hit = (info, w)
                break
        key = lab + (':' + role if role else '')
        if hit:
            S.violation(key, '%s: %s' % (key, hit[1]['what']), dict(api=hit[1], model=hit[0]))
        else:
            S.inconclusive.append('%s: no solver model reproduced natively (%r)' % (key, infos[0]))
