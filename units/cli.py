"""CLI crate: main/execute/format_one/format_many/format_all/... executed from MIR over bounded symbolic worlds.

Shared by C14 (check mode), C15 (in-place modes) and C16 (front-ends agree).  Every obligation is tagged with the
property it belongs to; each property's check reports only its own tags.
"""
import itertools
import os
import shutil
import subprocess
import tempfile
import z3

from mirsym.values import *
from mirsym.explore import Panic
from mirsym import models_env as E
from mirsym.models_env import World, PathV, ProcessExit, FmtArgs
from mirsym.models_std import STD, OStr, Str, Vec
from .common import *

CFG_NAMES = ('tab_spaces', 'max_width', 'blank_lines_upper_bound', 'reorder_import_items')


def contracts():
    C = STD.fork()
    t = C.table

    def typstyle_new(m, a, ci):
        return Agg('Typstyle', None, (a[0],), ('config',))
    t['Typstyle::new'] = typstyle_new

    def config_default(m, a, ci):
        return Agg('Config', None, (2, 80, 2, False), CFG_NAMES)
    t['Config.Default::default'] = config_default

    def source_detached(m, a, ci):
        c = a[0]
        while isinstance(c, Ref):
            c = m.load(c)
        return Opaque('source', (c,))
    t['Source::detached'] = source_detached

    def source_root(m, a, ci):
        return Opaque('root', (m.load(a[0]) if isinstance(a[0], Ref) else a[0],))
    t['Source::root'] = source_root

    def _format(m, typ, content, inspector=None):
        w = m.world
        cfg = typ.get('config')
        w.format_calls.append((content, cfg))
        e = w.err_of(content)
        if m.ctx.branch(e):
            return err(Agg('Error', 'SyntaxError', ()))
        if inspector is not None:
            m.call_value(inspector, [m.heap.alloc(Opaque('doc', (content,)))])
        return ok(OStr(('F', content.term)))

    def format_content(m, a, ci):
        c = a[1]
        while isinstance(c, Ref):
            c = m.load(c)
        return _format(m, a[0], c)
    t['Typstyle::format_content'] = format_content

    def format_source(m, a, ci):
        src = m.load(a[1]) if isinstance(a[1], Ref) else a[1]
        return _format(m, a[0], src.deps[0])
    t['Typstyle::format_source'] = format_source

    def format_source_inspect(m, a, ci):
        src = m.load(a[1]) if isinstance(a[1], Ref) else a[1]
        return _format(m, a[0], src.deps[0], a[2])
    t['Typstyle::format_source_inspect'] = format_source_inspect

    def ostr_eq(m, x, y):
        w = m.world
        if isinstance(x, OStr) and isinstance(y, OStr):
            if x.term == y.term:
                return True
            for p, q in ((x, y), (y, x)):
                if p.term[0] == 'F' and p.term[1] == q.term:
                    return b_not(w.chg_of(q))
            return z3.Bool('eq_derived_%d' % (abs(hash(repr((x.term, y.term)))) % 100000))
        raise E.EncoderGap('comparison of unrelated strings %r / %r' % (x, y))
    C.ostr_eq = ostr_eq
    return C


class CliWorld(World):
    def _derived(self, content, what):
        # the text handed to the formatter is not the text that was read but something computed from it:
        # nothing is known about it any more (fresh predicates), and the deviation itself is recorded
        if 'formatter-input-is-not-the-text-read' not in self.deviations:
            self.deviations.append('formatter-input-is-not-the-text-read')
        return z3.Bool('%s_derived_%d' % (what, abs(hash(repr(content.term))) % 100000))

    def err_of(self, content):
        t = content.term
        if t[0] == 'c':
            return self.slots[t[1]]['err']
        if t[0] == 'F':
            return False          # assumption (C04): formatter output is well-formed
        return self._derived(content, 'err')

    def chg_of(self, content):
        t = content.term
        if t[0] == 'c':
            return self.slots[t[1]]['chg']
        if t[0] == 'F':
            return False          # assumption (C03): F(F(c)) == F(c)
        return self._derived(content, 'chg')


def file_slot(w, i, parent=None):
    # a file named on the command line may carry any extension or none (eligibility by extension is a format-all matter only)
    return w.add(i, readable=z3.Bool('readable%d' % i), content=OStr(('c', i)), err=z3.Bool('err%d' % i),
                 chg=z3.Bool('chg%d' % i), wfail=z3.Bool('wfail%d' % i), parent=parent,
                 hasext=z3.Bool('hasext%d' % i), ext_typ=z3.And(z3.Bool('hasext%d' % i), z3.Bool('ext%d' % i)))


def sym_args(mode, w, k, walk_dir_given=True, levels=(False, False), debug=(False, False)):
    inplace = z3.Bool('inplace')
    check = z3.Bool('check')
    column = z3.BitVec('column', 64)
    tabw = z3.BitVec('tab_width', 64)
    reorder = z3.Bool('reorder')
    style = Agg('StyleArgs', None, (column, tabw, reorder), ('column', 'tab_width', 'reorder_import_items'))
    dbg = Agg('DebugArgs', None, debug, ('ast', 'pretty_doc'))
    lvl = Agg('LogLevelArgs', None, levels, ('verbose', 'quiet'))
    if mode == 'walk':
        d = some(PathV(0)) if walk_dir_given else NONE
        cmd = some(Agg('Command', 'FormatAll', (d,), ('directory',)))
        inputs = Vec(())
    else:
        cmd = NONE
        inputs = Vec([PathV(i) for i in range(1, k + 1)])
    args = Agg('CliArguments', None, (cmd, inputs, inplace, check, style, dbg, lvl),
               ('command', 'input', 'inplace', 'check', 'style', 'debug', 'log_level'))
    return args, dict(inplace=inplace, check=check, column=column, tab_width=tabw, reorder=reorder)


def parent_vectors(k):
    """all rooted trees on slots 1..k with root 0: parent[i] < i"""
    return list(itertools.product(*[range(0, i) for i in range(1, k + 1)]))


def build_walk_world(ctx, w, parents):
    k = len(parents)
    root = w.add(0, isfile=False, isdir=True, hasext=z3.Bool('hasext0'), ext_typ=z3.Bool('ext0'), utf8name=z3.Bool('utf8name0'),
                 name=_sym_name(ctx, 0), readable=False, content=OStr(('c', 0)), err=False, chg=False, wfail=True)
    root['walkerr'] = z3.Bool('walkerr0')          # the directory given does not exist / cannot be listed
    for i in range(1, k + 1):
        s = file_slot(w, i, parent=parents[i - 1])
        s['hasext'] = z3.Bool('hasext%d' % i)
        s['ext_typ'] = z3.Bool('ext%d' % i)
        s['utf8name'] = z3.Bool('utf8name%d' % i)
        s['name'] = _sym_name(ctx, i)
    for i in range(1, k + 1):
        w.slots[parents[i - 1]]['children'].append(i)
    for i in range(1, k + 1):
        s = w.slots[i]
        if s['children']:
            s['isfile'] = False
            s['isdir'] = True
        else:
            s['isfile'] = z3.Bool('isfile%d' % i)
            s['isdir'] = z3.Bool('isdir%d' % i)
            s['linkfile'] = z3.Bool('linkfile%d' % i)     # neither file nor directory: a symbolic link to a regular file (read/written through)
            ctx.assume(z3.Not(z3.And(s['isfile'], s['isdir'])))
        ctx.assume(z3.Implies(s['ext_typ'], s['hasext']))
    w.cwd = 0


def _sym_name(ctx, i):
    # a file name: 1 symbolic first char (what `starts_with('.')` looks at) + opaque rest is enough for is_hidden
    c = z3.BitVec('name%d_c0' % i, 32)
    from mirsym.models_std import valid_scalar
    ctx.assume(valid_scalar(c))
    ctx.assume(c != 0)
    ctx.assume(c != ord('/'))
    return Str((c, ord('x')))


def hidden(w, i):
    s = w.slots[i]
    return b_and(s['utf8name'], i_eq(s['name'].chars[0], ord('.'), 32))


def eligible_walk(w, i):
    """C15: regular *.typ file below the root, neither hidden nor inside a hidden subdirectory; the root's own name is irrelevant"""
    s = w.slots[i]
    conds = [s['isfile'], s['ext_typ'], b_not(hidden(w, i))]
    p = s['parent']
    while p != 0:
        conds.append(b_not(hidden(w, p)))
        p = w.slots[p]['parent']
    return b_and(*conds)


def print_payload(entry):
    """what a stdout entry carries: list of content-like values"""
    out = []
    fa = entry[-1]
    if isinstance(fa, FmtArgs):
        for a in fa.args:
            v = a[1] if isinstance(a, tuple) else a
            out.append(v)
    return out


class Outcome:
    pass


def run_main(S, ctx, m, f_main, args):
    m.overrides['parse'] = lambda mm, a, ci: args
    m.overrides['init'] = lambda mm, a, ci: UNIT
    o = Outcome()
    try:
        r = m.call_fn(f_main, [])
        code = m.call_fn(S.find_fn(S.bin, 'CliResults::report'), [r])
        o.exit = code.deps[0]
        o.panic = None
    except ProcessExit as e:
        o.exit = e.code
        o.panic = None
    except Panic as p:
        o.exit = 101
        o.panic = p.msg
    return o


def explore(S, props, K, walkK, levels=(False, False)):
    """run all CLI obligations; `props` selects whose obligations are asserted. returns list of (prop, label, info)"""
    binm = S.bin
    C = contracts()
    f_main = S.find_fn(binm, 'main')
    found = []
    want14, want15, want16 = 'C14' in props, 'C15' in props, 'C16' in props

    def base(ctx, mode, k, parents=None, dir_given=True):
        w = CliWorld()
        m = S.machine(binm, C, ctx, overrides={})
        m.world = w
        if mode == 'walk':
            build_walk_world(ctx, w, parents)
        else:
            for i in range(1, k + 1):
                file_slot(w, i)
            file_slot(w, 100)
            w.stdin = 100
        args, fl = sym_args(mode, w, k, walk_dir_given=dir_given, levels=levels)
        if mode != 'walk':
            # clap: conflicts_with = "check" (checked structurally below).  With the subcommand the conflict is not enforced when the two flags stand on
            # different sides of it (`typstyle -i format-all --check` is accepted: --check is a global flag), so both may be set there.
            ctx.assume(z3.Not(z3.And(fl['inplace'], fl['check'])))
        return w, m, args, fl

    def describe_factory(w, fl, mode, parents=None, order=None):
        def describe(mdl):
            d = dict(mode=mode, inplace=model_bool(mdl, fl['inplace']), check=model_bool(mdl, fl['check']),
                     column=model_int(mdl, fl['column']), tab_width=model_int(mdl, fl['tab_width']), reorder=model_bool(mdl, fl['reorder']),
                     parents=list(parents) if parents else None, slots={})
            for i, s in w.slots.items():
                e = {}
                for k in ('readable', 'err', 'chg', 'wfail', 'isfile', 'isdir', 'ext_typ', 'hasext', 'utf8name', 'linkfile', 'walkerr'):
                    if k in s:
                        e[k] = model_bool(mdl, s[k])
                if 'name' in s:
                    e['name0'] = chr(model_int(mdl, s['name'].chars[0]))
                d['slots'][str(i)] = e
            d['path_order'] = {'%s<%s' % k: model_bool(mdl, v) for k, v in w.path_order.items()}
            d['deviations'] = list(w.deviations)
            return d
        return describe

    def common_checks(ctx, w, m, fl, o, expected, describe, mode, stdin_mode=False):
        """expected: dict slot -> dict(attempt=cond, write=cond, print=cond(what), ioerr=cond)"""
        inplace, check = fl['inplace'], fl['check']
        if o.panic:
            for p in props:
                ctx.must_hold(False, '%s:panic' % p, lambda mdl: dict(describe(mdl), panic=o.panic))
            return
        cfg_ok = []
        for content, cfg in w.format_calls:
            cfg_ok.append(b_and(i_eq(cfg.get('max_width'), fl['column']), i_eq(cfg.get('tab_spaces'), fl['tab_width']),
                                i_eq(cfg.get('reorder_import_items'), fl['reorder']), i_eq(cfg.get('blank_lines_upper_bound'), 2)))
        written = {}
        for slot, content, okw in w.W:
            written.setdefault(slot, []).append((content, okw))
        any_chg = b_or(*[e['changed'] for e in expected.values()])
        any_io = b_or(*[e['ioerr'] for e in expected.values()])
        # roles: obligations are asserted separately per situation class, so that each class gets its own model and key
        if mode == 'walk':
            hr = hidden(w, 0)
            ur = b_or(*[b_and(e['attempt'], b_not(w.slots[sl]['readable'])) for sl, e in expected.items()])
            wr = w.slots[0].get('walkerr', False)
            roles = [(':unlistable-root', wr), (':hidden-root', b_and(b_not(wr), hr)), (':unreadable-file', b_and(b_not(wr), b_not(hr), ur)),
                     ('', b_and(b_not(wr), b_not(hr), b_not(ur)))]
        else:
            roles = [('', True)]

        octx = ctx

        class _Split:
            def must_hold(self, cond, label, describe=None):
                if isinstance(cond, bool) and cond:
                    return octx.must_hold(True, label, describe)
                for suffix, rc in roles:
                    octx.must_hold(b_implies(rc, cond), label + suffix, describe)

            def witness(self, *a, **k):
                return octx.witness(*a, **k)
        ctx = _Split()
        # ---- C14 ---------------------------------------------------------------------------------------------
        if want14:
            on = check
            ctx.must_hold(b_implies(on, len(w.W) == 0), 'C14:write-in-check-mode', describe)
            leaked = False
            for ent in w.P:
                for v in print_payload(ent):
                    if isinstance(v, OStr) and v.term[0] in ('F', 'c'):
                        leaked = True
            ctx.must_hold(b_implies(on, not leaked), 'C14:text-printed-in-check-mode', describe)
            exp1 = b_or(any_chg, any_io)
            ctx.must_hold(b_implies(on, i_eq(o.exit == 1, exp1)), 'C14:exit-status-untruthful', describe)
            ctx.witness('C14 check mode with a changed file', b_and(on, any_chg))
            ctx.witness('C14 check mode clean', b_and(on, b_not(exp1)))
            ctx.witness('C14 check mode io error', b_and(on, any_io))
        # ---- C15 ---------------------------------------------------------------------------------------------
        if want15 and not stdin_mode:
            on = b_and(b_not(check), inplace) if mode == 'list' else b_not(check)
            for slot, e in expected.items():
                ws = written.get(slot, [])
                should = e['write']
                ctx.must_hold(b_implies(on, i_eq(len(ws) >= 1, should)), 'C15:wrong-write-set', describe)
                ctx.must_hold(b_implies(on, len(ws) <= 1), 'C15:written-twice', describe)
                for content, okw in ws:
                    good = isinstance(content, OStr) and content.term == ('F', ('c', slot))
                    ctx.must_hold(b_implies(on, good), 'C15:written-text-is-not-the-formatted-text', describe)
                ctx.must_hold(b_implies(b_and(on, e['attempt']), slot in w.R), 'C15:eligible-input-not-attempted', describe)
            for slot in written:
                if slot not in expected:
                    ctx.must_hold(b_not(on), 'C15:ineligible-file-written', describe)
            ctx.must_hold(b_implies(b_and(on, any_io), o.exit != 0), 'C15:failure-not-reported', describe)
            ctx.must_hold(b_implies(b_and(on, b_not(any_io)), o.exit == 0), 'C15:spurious-failure-status', describe)
            ctx.must_hold(b_implies(on, b_and(*cfg_ok)), 'C15:wrong-config', describe)
            ctx.witness('C15 a file is written', b_and(on, b_or(*[e['write'] for e in expected.values()])))
            ctx.witness('C15 failure and later success', b_and(on, any_io, b_or(*[e['write'] for e in expected.values()])))
        # ---- C16 ---------------------------------------------------------------------------------------------
        if want16:
            ctx.must_hold(not w.deviations, 'C16:formatter-input-is-not-the-text-read', describe)
            ctx.must_hold(b_and(*cfg_ok), 'C16:options-not-mapped-to-config', describe)
            if mode in ('list', 'stdin'):
                on = b_and(b_not(check), b_not(inplace))
                # stdout = exactly the expected texts in argument order, bare "{}" template, nothing else
                exp_prints = []
                feasible = True
                for slot, e in expected.items():
                    exp_prints.append((slot, e))
                prints = [ent for ent in w.P]
                # on this path the sequence of prints is concrete: compare with what is expected under the path condition
                idx = 0
                for slot, e in exp_prints:
                    # printed iff readable
                    pr = e['print']
                    if idx < len(prints):
                        ent = prints[idx]
                        pay = print_payload(ent)
                        is_print = ent[0] == 'print' and isinstance(ent[1], FmtArgs) and bytes(ent[1].template) == b'\xc0\x00'
                        matches_f = is_print and len(pay) == 1 and isinstance(pay[0], OStr) and pay[0].term == ('F', ('c', slot))
                        matches_c = is_print and len(pay) == 1 and isinstance(pay[0], OStr) and pay[0].term == ('c', slot)
                    else:
                        matches_f = matches_c = False
                    if matches_f or matches_c:
                        # this print belongs to this slot: it must be expected and carry the right text
                        ctx.must_hold(b_implies(on, pr), 'C16:unexpected-print', describe)
                        ctx.must_hold(b_implies(on, i_eq(matches_c, e['erroneous'])), 'C16:printed-text-wrong', describe)
                        idx += 1
                    else:
                        ctx.must_hold(b_implies(on, b_not(pr)), 'C16:expected-text-not-printed', describe)
                ctx.must_hold(b_implies(on, idx == len(prints)), 'C16:extra-output-on-stdout', describe)
                ctx.witness('C16 stdout mode prints', b_and(on, b_or(*[e['print'] for e in expected.values()])))
            else:
                on = b_not(check)
                for slot, ws in written.items():
                    for content, okw in ws:
                        good = isinstance(content, OStr) and content.term == ('F', ('c', slot))
                        ctx.must_hold(b_implies(on, good), 'C16:format-all-writes-other-text', describe)
            if mode == 'list':
                on = b_and(b_not(check), inplace)
                for slot, ws in written.items():
                    for content, okw in ws:
                        good = isinstance(content, OStr) and content.term == ('F', ('c', slot))
                        ctx.must_hold(b_implies(on, good), 'C16:inplace-writes-other-text', describe)

    def collect(ex, tag):
        for lab, mdl, info in ex.violations:
            found.append((lab.split(':')[0], lab.split(':', 1)[1], info))

    # ---- stdin ----------------------------------------------------------------------------------------------------
    def body_stdin(ctx):
        w, m, args, fl = base(ctx, 'stdin', 0)
        describe = describe_factory(w, fl, 'stdin')
        o = run_main(S, ctx, m, f_main, args)
        S.absorb(m)
        if o.exit == 2 and o.panic is None:
            # clap refuses -i without files
            ctx.must_hold(fl['inplace'], 'C15:usage-error-without-inplace', describe)
            return
        s = w.slots[100]
        exp = {100: dict(attempt=True, changed=b_and(s['readable'], b_not(s['err']), s['chg']), ioerr=b_not(s['readable']),
                         write=False, print=s['readable'], erroneous=s['err'])}
        common_checks(ctx, w, m, fl, o, exp, describe, 'stdin', stdin_mode=True)

    ob, ex = S.explore('cli.stdin', 'main() reading standard input: all flag combinations, stdin readable/unreadable, well-formed/erroneous, changed/unchanged',
                       body_stdin, bounds=dict(mode='stdin'))
    collect(ex, 'stdin')

    # ---- file list --------------------------------------------------------------------------------------------------
    for k in range(1, K + 1):
        def body_list(ctx, k=k):
            w, m, args, fl = base(ctx, 'list', k)
            describe = describe_factory(w, fl, 'list')
            o = run_main(S, ctx, m, f_main, args)
            S.absorb(m)
            exp = {}
            for i in range(1, k + 1):
                s = w.slots[i]
                okc = b_and(s['readable'], b_not(s['err']))
                wr = b_and(okc, s['chg'])
                exp[i] = dict(attempt=True, changed=wr, write=wr,
                              ioerr=b_or(b_not(s['readable']), b_and(fl['inplace'], wr, s['wfail'])),
                              print=s['readable'], erroneous=s['err'])
            common_checks(ctx, w, m, fl, o, exp, describe, 'list')
        ob, ex = S.explore('cli.list[k=%d]' % k, 'main() with %d file argument(s): all flags, each file readable/unreadable, erroneous, changed, write failing' % k,
                           body_list, bounds=dict(mode='list', files=k))
        collect(ex, 'list')
        if ob.status.startswith('inconclusive'):
            break

    # ---- format-all ---------------------------------------------------------------------------------------------------
    tasks = []
    for k in range(0, walkK + 1):
        for parents in parent_vectors(k):
            if S.tier == 'quick' and k == 3 and parents not in ((0, 1, 2), (0, 1, 1)):
                continue
            for dir_given in ((True, False) if k <= 1 else (True,)):
                def body_walk(ctx, parents=parents, dir_given=dir_given):
                    w, m, args, fl = base(ctx, 'walk', len(parents), parents, dir_given)
                    if not dir_given:
                        ctx.assume(z3.Not(w.slots[0]['walkerr']))       # the current directory exists
                    describe = describe_factory(w, fl, 'walk', parents)
                    o = run_main(S, ctx, m, f_main, args)
                    S.absorb(m)
                    exp = {}
                    werr = w.slots[0]['walkerr']
                    # an unlistable root is an I/O error of its own; nothing below it is visited then
                    exp[0] = dict(attempt=False, changed=False, write=False, ioerr=werr, print=False, erroneous=False)
                    for i in range(1, len(parents) + 1):
                        s = w.slots[i]
                        el = b_and(b_not(werr), eligible_walk(w, i))
                        okc = b_and(el, s['readable'], b_not(s['err']))
                        wr = b_and(okc, s['chg'])
                        exp[i] = dict(attempt=el, changed=wr, write=wr,
                                      ioerr=b_or(b_and(el, b_not(s['readable'])), b_and(b_not(fl['check']), wr, s['wfail'])),
                                      print=False, erroneous=s['err'])
                    common_checks(ctx, w, m, fl, o, exp, describe, 'walk')
                    if len(parents):
                        ctx.witness('walk: hidden root directory', hidden(w, 0))
                        ctx.witness('walk: eligible unreadable file', b_or(*[b_and(exp[i]['attempt'], b_not(w.slots[i]['readable'])) for i in exp]))
                name = 'cli.walk[%s%s]' % (','.join(map(str, parents)) or 'empty', '' if dir_given else ',cwd')
                tasks.append((name, 'main() format-all over directory tree with parent vector %r (%s): all flags, every entry file/dir/other, '
                              'any name (hidden or not), extension, readability, syntax errors, write failures' % (parents, 'directory given' if dir_given else 'current directory'),
                              body_walk, dict(mode='format-all', entries=len(parents), parents=list(parents))))
    # small trees: one worker each; large trees (thousands of paths each): one after the other, each split over all workers at path level
    small = [t for t in tasks if t[3]['entries'] < 4]
    large = [t for t in tasks if t[3]['entries'] >= 4]
    for ob, viol in S.explore_batch(small):
        for lab, mdl, info in viol:
            found.append((lab.split(':')[0], lab.split(':', 1)[1], info))
    for name, desc, body, bounds in large:
        ob, ex = S.explore(name, desc, body, bounds=bounds, parallel=True)
        for lab, mdl, info in ex.violations:
            found.append((lab.split(':')[0], lab.split(':', 1)[1], info))
        if ob.status.startswith('inconclusive'):
            break
    return found


# ---------------------------------------------------------------------------------------------------------------
# structural obligations from the same MIR dump


def structural(S):
    """(i) clap's derive puts conflicts_with("check") on `inplace`; (ii) no std::fs mutator other than fs::write is called in the bin"""
    binm = S.bin
    res = {}
    aug = [fn for name, fn in binm.fns.items() if name.endswith('::augment_args') and 'cli.rs:5:' in name]
    ok1 = False
    for fn in aug:
        txt = '\n'.join(fn.raw_lines)
        i = txt.find('const "inplace"')
        j = txt.find('conflicts_with', i)
        if i >= 0 and j >= 0 and 'const "check"' in txt[j:j + 400]:
            ok1 = True
    res['inplace conflicts_with check (clap derive MIR)'] = ok1
    muts = []
    import re
    for name, fn in binm.fns.items():
        for l in fn.raw_lines:
            mm = re.search(r'= (std::fs::[a-z_]+|File::[a-z_]+|OpenOptions::[a-z_]+|std::fs::File::[a-z_]+)', l)
            if mm and mm.group(1) not in ('std::fs::read_to_string', 'std::fs::write'):
                muts.append((name, mm.group(1)))
    res['only fs::read_to_string / fs::write touch files'] = not muts
    res['_mutators'] = muts
    return res


# ---------------------------------------------------------------------------------------------------------------
# native replay: build the modelled world in a temp dir and run the real binary

RICH = ('#import "a.typ": c, b, a\n#let   f( x )   =   {\n  if x {\n    (aaaaaaaaaaaa, bbbbbbbbbbbb, cccccccccccc, dddddddddddd, eeeeeeeeeeee, ffffffffffff)\n  }\n}\n'
        '- item\n  - nested #f(true)\n\n\n')      # ends in blank lines: the library keeps them, so must every front-end
ERRONEOUS = '#let x = (\n'


def lib_format(S, src, info):
    col = min(info['column'], 400)
    tab = min(info['tab_width'], 16)
    r = S.driver.call('format', hexs(src), col, tab, 1 if info['reorder'] else 0)
    if r[0] != 'ok':
        return None
    return unhexs(r[1])


def content_for(S, e, info):
    if not e.get('readable', True):
        return b'\xff\xfe#let x = 1\n'        # not UTF-8: read_to_string fails (permissions do not bind root)
    if e.get('err'):
        return ERRONEOUS.encode()
    if e.get('chg'):
        return RICH.encode()
    return lib_format(S, RICH, info).encode()


def replay_native(S, info):
    """build the modelled world in a temp dir, run the real binary, return observations"""
    cli = S.cli
    tmp = tempfile.mkdtemp(prefix='vcli')
    try:
        mode = info['mode']
        slots = info['slots']
        paths = {}
        cmd = [cli]
        if info['inplace']:
            cmd.append('-i')
        check_after = info['check'] and info['inplace'] and info['mode'] == 'walk'      # accepted by clap only on different sides of the subcommand
        if info['check'] and not check_after:
            cmd.append('--check')
        col = min(info['column'], 400)
        tab = min(info['tab_width'], 16)
        cmd += ['-c', str(col), '-t', str(tab)]
        if info['reorder']:
            cmd.append('--reorder-import-items')
        stdin_data = None
        files = {}
        if mode == 'walk':
            parents = info['parents']
            rootname = slots['0']['name0'] + 'root' if slots['0']['name0'] not in ('/', '\x00') else 'root'
            if not slots['0'].get('utf8name', True):
                rootname = 'root'
            paths[0] = os.path.join(tmp, rootname)
            if slots['0'].get('walkerr'):
                parents = []            # the directory given does not exist
            else:
                os.makedirs(paths[0])
            for i, p in enumerate(parents, 1):
                e = slots[str(i)]
                c0 = e['name0'] if e.get('utf8name', True) else 'n'
                if c0 in ('/', '\x00'):
                    c0 = 'n'
                nm = '%sf%d' % (c0, i)
                if e.get('hasext'):
                    nm += '.typ' if e.get('ext_typ') else '.txt'
                paths[i] = os.path.join(paths[p], nm)
                isdir = e.get('isdir') or any(pp == i for pp in parents)
                if isdir:
                    os.makedirs(paths[i])
                elif e.get('isfile'):
                    files[i] = content_for(S, e, info)
                    open(paths[i], 'wb').write(files[i])
                elif e.get('linkfile'):
                    # a symbolic link to a regular file outside the tree: its target must stay untouched
                    tgt = os.path.join(tmp, 'outside-target-%d.txt' % i)
                    files[1000 + i] = content_for(S, e, info)
                    open(tgt, 'wb').write(files[1000 + i])
                    paths[1000 + i] = tgt
                    os.symlink(tgt, paths[i])
                else:
                    os.symlink('/nonexistent-target', paths[i])
            cmd += ['format-all'] + (['--check'] if check_after else []) + [paths[0]]
        elif mode == 'list':
            ids = sorted(int(x) for x in slots if int(x) < 100)
            # file names follow the lexicographic order the model chose for the paths
            import functools

            def cmp(a, b):
                lo, hi = sorted((a, b))
                v = (info.get('path_order') or {}).get('%s<%s' % (lo, hi))
                if v is None:
                    return -1 if a < b else 1
                first = lo if v else hi
                return -1 if a == first else 1
            ranked = sorted(ids, key=functools.cmp_to_key(cmp))
            rank = {sid: r for r, sid in enumerate(ranked)}
            for i in ids:
                e = slots[str(i)]
                ext = '.typ' if e.get('ext_typ', True) else ('.txt' if e.get('hasext') else '')
                paths[i] = os.path.join(tmp, '%s%d%s' % ('abcdefgh'[rank[i]], i, ext))
                files[i] = content_for(S, e, info)
                open(paths[i], 'wb').write(files[i])
                cmd.append(paths[i])
        else:
            stdin_data = content_for(S, slots['100'], info)
        before = {i: open(paths[i], 'rb').read() for i in files}
        r = subprocess.run(cmd, input=stdin_data, stdout=subprocess.PIPE, stderr=subprocess.PIPE, cwd=tmp)
        after = {i: open(paths[i], 'rb').read() for i in files}
        obs = dict(cmd=' '.join(cmd).replace(tmp, '<tmp>'), exit=r.returncode, stdout=r.stdout.decode('utf-8', 'replace'),
                   stderr=r.stderr.decode('utf-8', 'replace')[:400],
                   changed_files=[paths[i].replace(tmp, '<tmp>') for i in files if before[i] != after[i]])
        return obs, before, after, paths, files, stdin_data
    finally:
        shutil.rmtree(tmp, ignore_errors=True)


def eligible_concrete(info, i):
    slots = info['slots']
    e = slots[str(i)]

    def hid(j):
        s = slots[str(j)]
        return s.get('utf8name', True) and s['name0'] == '.'
    if not (e.get('isfile') and e.get('ext_typ') and not hid(i)):
        return False
    p = info['parents'][i - 1]
    while p != 0:
        if hid(p):
            return False
        p = info['parents'][p - 1]
    return True


def confirm(S, prop, label, info):
    """re-evaluate the properties' observables on the real binary for the modelled world"""
    obs, before, after, paths, files, stdin_data = replay_native(S, info)
    mode = info['mode']
    slots = info['slots']
    violated = []
    ids = sorted(files)
    if mode == 'walk':
        elig = {i: (eligible_concrete(info, i) if i < 1000 else False) for i in ids}
    else:
        elig = {i: True for i in ids}
    fmt = lib_format(S, RICH, info)
    def sl(i):
        return slots[str(i if i < 1000 else i - 1000)]
    chg = {i: elig[i] and sl(i).get('readable', True) and not sl(i).get('err') and sl(i).get('chg') for i in ids}
    io = {i: elig[i] and not sl(i).get('readable', True) for i in ids}
    if mode == 'walk' and slots['0'].get('walkerr'):
        io['root'] = True           # the directory given does not exist: an I/O error that must show in the exit status
    if mode == 'stdin':
        e = slots['100']
        chg = {100: e.get('readable', True) and not e.get('err') and e.get('chg')}
        io = {100: not e.get('readable', True)}
    if obs['exit'] == 101:
        violated += ['C14:panic', 'C15:panic', 'C16:panic']
    if info['check']:
        if any(before[i] != after[i] for i in ids):
            violated.append('C14:write-in-check-mode')
        exp = 1 if (any(chg.values()) or any(io.values())) else 0
        if obs['exit'] != exp:
            violated.append('C14:exit-status-untruthful')
        if RICH in obs['stdout'] or (fmt and fmt in obs['stdout']) or ERRONEOUS in obs['stdout']:
            violated.append('C14:text-printed-in-check-mode')
    elif mode == 'walk' or info['inplace']:
        for i in ids:
            should = chg[i]
            if (before[i] != after[i]) != bool(should):
                violated.append('C15:wrong-write-set')
            if should and fmt is not None and after[i] != fmt.encode():
                violated.append('C15:written-text-is-not-the-formatted-text')
                violated.append('C16:file-differs-from-library-output')
        if any(io.values()) and obs['exit'] == 0:
            violated.append('C15:failure-not-reported')
        if not any(io.values()) and obs['exit'] not in (0, 2):
            violated.append('C15:spurious-failure-status')
    else:
        exp_out = ''
        for i in ([x for x in sorted(files) if x < 100] if mode == 'list' else [100]):
            e = slots[str(i)]
            if not e.get('readable', True):
                continue
            exp_out += ERRONEOUS if e.get('err') else (fmt or '')
        if obs['stdout'] != exp_out:
            violated.append('C16:stdout-differs-from-library-output')
    obs['violated'] = violated
    obs['stdout'] = obs['stdout'][:400]
    return obs


def report(S, prop, found):
    """replay solver models natively, then register violations / inconclusives for `prop`"""
    groups = {}
    for p, label, info in found:
        if p == prop:
            groups.setdefault(label, []).append(info)
    for label, infos in sorted(groups.items()):
        base_label = label.split(':')[0]
        confirmed = None
        tried = 0
        # config-mapping violations need option-sensitive input: prefer models with a changed, well-formed file
        def rank(info):
            if info is None or 'slots' not in info:
                return 9
            good = any(e.get('readable', True) and not e.get('err') and e.get('chg') for e in info['slots'].values())
            return 0 if good else 1
        infos = sorted(infos, key=rank)
        for info in infos:
            if info is None or 'mode' not in info:
                continue
            if tried >= 8:
                break
            tried += 1
            obs = confirm(S, prop, label, info)
            if any(v.startswith(prop + ':') for v in obs['violated']):
                confirmed = (info, obs)
                break
        if confirmed:
            info, obs = confirmed
            S.violation('%s:%s:%s' % (prop, info['mode'], label),
                        '%s:%s: `%s` -> exit %d, changed files %r, stdout %r' % (prop, label, obs['cmd'], obs['exit'], obs['changed_files'], obs['stdout'][:80]),
                        dict(api=dict(api='typstyle binary', **obs), model=info))
        else:
            S.inconclusive.append('%s:%s: %d solver model(s) had no native reproduction (write failures cannot be provoked natively as root; '
                                  'otherwise an encoder/contract bug): %r' % (prop, label, tried, infos[0]))


ASSUMPTIONS = [
    'clap admits every flag combination except --check with --inplace on the same side of the subcommand (conflicts_with found in the derive MIR of this run; `-i format-all --check` is accepted and explored)',
    'formatter = uninterpreted F(content); Err iff erroneous(content); output of F is well-formed and a fixed point (C04, C03)',
    'fs::read_to_string / fs::write / walkdir / stdin / print / log behave as their contracts (walkdir contract validated natively at setup)',
    'directory listing errors (unreadable directories) are not modelled: every walk entry is Ok',
    'only the default log level (Info) is explored in the quick tier; -v / -q in the thorough tier',
    'debug flags --ast / --pretty-doc are off',
]
TRUSTED = ['mirsym encoder', 'environment contracts (models_env.py)', 'clap derive semantics for conflicts_with']


def require(S, labels, found):
    """vacuity: every named region must have been reachable in some obligation of this run"""
    if found:
        return
    allw = set()
    for o in S.obls:
        allw |= set(o.witnesses)
    for l in labels:
        if l not in allw:
            S.inconclusive.append('vacuity: `%s` never reachable (harness over-constrained or code path gone)' % l)
