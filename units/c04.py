"""C04 — well-formed in, well-formed out: the anchored mechanisms, decided per unit."""
from mirsym import models_typst as T
from . import lists, flows, mathargs, imports, adjacency, deep
from .common import validate_corpus

EXPLANATION = (
    "Bounded symbolic execution (MIR->SMT, z3) of the mechanisms the property is anchored in; the oracle 'output re-parses without "
    "errors' needs the Typst parser and is NOT claimed end to end. (1) ListStylist (process_iterable_impl, add_item, process_trivia, "
    "try_attach/detach_comments, process_windup, always_fold_if, print_doc) with every ListStyle value that the crate actually builds "
    "(extracted from the ListStyle aggregates in this run's MIR, dynamic fields symbolic, correlated fields tied), every fold style "
    "and stylist option, over every child sequence of up to K nodes from {item, line comment, block comment, comma, whitespace "
    "(symbolic text), hash}: in the all-broken and in the flat-where-possible layout a line comment is always followed by a hard line "
    "break, delimiters are balanced, a list printed without delimiters holds no line break, a single element keeps its trailing "
    "separator where the style asks for it. (2) convert_flow_like_iter + FlowStylist over child sequences {keyword, comments, "
    "whitespace, hash, other} with arbitrary producer results: line comment followed by a line break, no double blank, a blank "
    "exactly where both neighbours allow it. (3) optional_paren / convert_expr_with_optional_paren (all 59 expression kinds) / "
    "parenthesize_if_necessary: delimiters appear exactly in the broken layout, matching, nested by tab_spaces; the wrapped expression "
    "is converted once, in Code/CodeCont mode; no wrapper when breaks are suppressed. (4) convert_args_in_math over child sequences of "
    "{argument, comma, semicolon, whitespace, comments}: a line comment keeps its line break also before the closing parenthesis. (5) convert_import with a comment before / after "
    "the colon and bare, parenthesised or wildcard items: a line comment is followed by a hard line break. Counterexamples are confirmed on a native "
    "corpus of list constructs with comments (format then re-parse). Session 3: a literal that ends in a dot as bare field-access target; tokens printed next to each other form no comment delimiter; the output of whole documents (hand-written and generated families) parses (real parser on the text laid out by the interpreted renderer).")


def run(S):
    T.KT = T.KindTable(S.driver, S.adts)
    KL = 3 if S.tier == 'quick' else 4
    KF = 3 if S.tier == 'quick' else 5
    found = flows.explore_parens(S)
    found += flows.explore_flow(S, KF, want=('C04',))
    found += lists.explore(S, KL, want=('C04',), focus_last=S.tier == 'quick')
    # flow/paren models are confirmed on the same corpus
    lists.report(S, 'C04', found)
    fm = mathargs.explore(S, 3 if S.tier == 'quick' else 5, want=('C04',))
    mathargs.report(S, 'C04', fm)
    fi = imports.explore(S, want=('C04',))
    imports.report(S, 'C04', fi)
    validate_corpus(S, 'lists', [l for l, _ in found if l.startswith('C04:')], lambda: lists.native_sweep(S, 'C04', all_hits=True))
    validate_corpus(S, 'mathargs', [l for l, _ in fm if l.startswith('C04:')], lambda: mathargs.native_sweep(S, 'C04'))
    validate_corpus(S, 'imports', [l for l, _ in fi if l.startswith('C04:')], lambda: imports.native_sweep(S, 'C04'))
    # statements of code bodies stay separated (shapes from real parses, nested conversions opaque)
    from . import conserve
    fs, covs = conserve.explore(S, want=('C04',), per_kind=40 if S.tier == 'quick' else 300, max_nodes=18 if S.tier == 'quick' else 40)
    conserve.report(S, 'C04', fs)
    # token adjacency: embedded parenthesised literals, and whole small documents through the real printer
    fa = adjacency.explore_embedded(S, want=('C04',))
    fa += adjacency.explore_field_target(S, want=('C04',))
    adjacency.report(S, 'C04', fa)
    fd, _ = deep.explore(S, deep.DOCS + deep.EMBED_DOCS, want=('C04',))
    deep.report(S, 'C04', fd)
    allw = set()
    for o in S.obls:
        allw |= set(o.witnesses)
    if not found:
        for w in ('list with line comment', 'tight delimiters', 'flow with line comment', 'wrapped', 'unwrapped'):
            if w not in allw:
                S.inconclusive.append('vacuity: `%s` never reachable' % w)
    S.assumptions += lists.ASSUMPTIONS
    S.assumptions.append('which expression kinds need parentheses when broken (is_paren_needed) is a grammar-level fact and is not decided here')
    # the real printer, the renderer interpreted at representative widths, and the REAL parser on the text that comes out: whole documents, blanks symbolic
    from . import reparse as _rp, deep as _dp
    _docs = _rp.TABLE_DOCS + _rp.NORMALISE_DOCS + _rp.BLOCK_DOCS + _rp.MISC_DOCS + _dp.DOCS + _dp.PROSE + _dp.CODE_DOCS + _dp.EMBED_DOCS + _rp.corpus_docs(S) + _rp.in_contexts(_rp.COMMENT_DOCS) + _rp.PROSE_LINE_DOCS + _rp.EVAL_DOCS
    if S.tier != 'quick':
        _docs += _dp.OFF_DOCS
    _fr, _covr = _rp.explore(S, _docs, tabs=(2,) if S.tier == 'quick' else (2, 4), widths=(0, 40, 1 << 30) if S.tier == 'quick' else (0, 20, 40, 80, 120, 1 << 30), prop='C04')
    _rp.report(S, 'C04', _fr)
    # generated families (construct x spelling x context x comment position, ~4000 well-formed documents): a sample that depends on VERIF_SEED in the
    # quick tier, all of them in the thorough tier
    from . import reparse as _rpf
    _fam = _rpf.families(S, seed=S.seed, limit=600 if S.tier == 'quick' else None)
    if 'C04' == 'C09':
        _fam = [d_ for d_ in _fam if '$' in d_]
    _ff, _covf = _rpf.explore(S, _fam, tabs=(2,), widths=(0, 1 << 30) if S.tier == 'quick' else (0, 20, 40, 80, 1 << 30), prop='C04')
    _rpf.report(S, 'C04', _ff)
    return S.finish(level='other', explanation=EXPLANATION, trusted=['mirsym encoder', 'typst-syntax kind tables', 'pretty Doc algebra and group semantics'])
