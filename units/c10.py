"""C10 — literal content preserved: leaf emission, raw rebuilding, and post-processing versus literal bytes."""
import z3

from mirsym.values import *
from mirsym.explore import Panic
from mirsym import models_typst as T
from mirsym import models_doc as D
from mirsym.models_std import STD, Str, sym_str, str_eq
from mirsym.models_typst import Node, Ast
from mirsym.session import hexs, unhexs
from . import kern, pp
from .common import *

EXPLANATION = (
    "Bounded symbolic execution (MIR->SMT, z3), kernel level. (1) PrettyPrinter::convert_trivia_untyped, convert_verbatim_untyped and "
    "convert_literal emit exactly the token text / node text for every text of up to N code points. (2) strip_trailing_whitespace "
    "against literal bytes: for s = p.t.q (t any token text whose first and last characters are non-blank) the solver shows that "
    "strip(s) contains t with at most the blanks directly before a line feed removed; that t itself survives is FALSE - the known "
    "finding (post-processing is literal-blind), reported per class and replayed through format_content - while any other change of t "
    "would be a new violation. (3) convert_raw on raw elements with 1 or 3 backticks, optional language tag, 1-2 text lines with symbolic "
    "characters and symbolic newline characters between them: an inline raw spanning lines is copied verbatim, a rebuilt raw re-emits "
    "delimiter, tag and text atoms unchanged in order with trimmed whitespace mapped to blank / hard line break. Typst's dedent rule on re-parse and the lexing of numbers/identifiers are outside the claim. Session 3: the library skeleton (result = strip(render(..)) exactly, Typstyle::new keeps the configuration) and a native literal sweep over documents with CR LF / CR / mixed line ends.")


def run(S):
    kt = T.KT = T.KindTable(S.driver, S.adts)
    core = S.core
    N = 4 if S.tier == 'quick' else 6
    kern.strip_validate(S)
    # ---- (1) leaf emission ------------------------------------------------------------------------------
    f_trivia = S.find_fn(core, 'PrettyPrinter::convert_trivia_untyped')
    f_verb = S.find_fn(core, 'PrettyPrinter::convert_verbatim_untyped')
    f_lit = S.find_fn(core, 'PrettyPrinter::convert_literal')
    structural = []
    for n in range(0, N + 1):
        def body(ctx, n=n):
            m = S.machine(core, STD, ctx)
            t = sym_str(ctx, 't', n)
            pr, cfg = pp.printer(m)
            kind = z3.BitVec('kind', 8)
            ctx.assume(z3.ULT(kind, kt.n))
            leaf = Node(kind, text=t)
            d = m.call_fn(f_trivia, [pr, leaf])
            ctx.must_hold(d.k == 'text' and len(d.a) == n and str_eq(d.a, t), 'leaf-token-not-emitted-verbatim', lambda mdl: dict(text=t.concrete(mdl)))
            # inner node with two leaves: verbatim conversion concatenates the leaf texts
            a, b = t.sub(0, n // 2), t.sub(n // 2, n)
            inner = Node(z3.BitVec('kind2', 8), children=[Node(kind, text=a), Node(kind, text=b)])
            d2 = m.call_fn(f_verb, [pr, inner])
            ctx.must_hold(d2.k == 'text' and len(d2.a) == n and str_eq(d2.a, t), 'verbatim-node-text-changed', lambda mdl: dict(text=t.concrete(mdl)))
            d3 = m.call_fn(f_lit, [pr, t])
            ctx.must_hold(d3.k == 'text' and len(d3.a) == n and str_eq(d3.a, t), 'literal-keyword-changed', lambda mdl: dict(text=t.concrete(mdl)))
            S.absorb(m)
        ob, ex = S.explore('leaf.emission[n=%d]' % n, 'convert_trivia_untyped / convert_verbatim_untyped / convert_literal emit the text unchanged (%d code points)' % n,
                           body, bounds=dict(code_points=n))
        for lab, mdl, info in ex.violations:
            structural.append((lab, info))
    for lab, info in structural[:3]:
        # native confirmation: a string literal / identifier with that text must survive formatting
        t = info['text']
        api = kern.literal_api_replay(S, t if t and not py_is_ws(t[0]) and not py_is_ws(t[-1]) else 'a' + t + 'b')
        if api:
            S.violation('C10:' + lab, 'leaf emission changes token text %s' % show(t), dict(api=api, model=info))
        else:
            S.inconclusive.append('C10:%s: model %r did not reproduce through format_content' % (lab, info))
    # ---- (1b) dispatch: convert_expr on a literal / leaf expression of every such kind emits the token text -------------
    fl = explore_literal_dispatch(S, min(N, 3))
    gl = {}
    for lab, info in fl:
        gl.setdefault((lab, info['kind']), []).append(info)
    for (lab, kind), infos in gl.items():
        w = confirm_literal_kind(S, kind)
        if w:
            S.violation('C10:%s:%s' % (lab, kind), 'C10:%s: %s' % (lab, w['what']), dict(api=w, model=infos[0]))
        else:
            S.inconclusive.append('C10:%s: the solver model for a %s token (%r) has no reproduction in the native token corpus' % (lab, kind, infos[0]))
    if not fl:
        for kind in LITERAL_TOKENS:
            w = confirm_literal_kind(S, kind)
            if w:
                S.inconclusive.append('C10: the native token corpus shows a deviation the solver-decided units do not explain: %s' % w['what'])
                break
        else:
            S.validation['literal_token_corpus'] = 'clean (%d tokens)' % sum(len(v) for v in LITERAL_TOKENS.values())
    # ---- (2) post-processing vs literal bytes ---------------------------------------------------------------
    found = kern.strip_literal(S, N)
    groups = {}
    for lab, info in found:
        groups.setdefault(lab, []).append(info)
    for lab, infos in groups.items():
        hit = None
        for info in infos[:8]:
            t = info['t']
            real = S.driver.call('strip', hexs(info['s']))
            out = unhexs(real[1]) if real[0] == 'ok' else None
            if out is not None and t in out:
                continue        # unit level does not reproduce: encoder bug
            api = kern.literal_api_replay(S, t)
            if api:
                hit = (info, api, out)
                break
            if hit is None:
                hit = (info, None, out)
        if hit and (hit[1] is not None):
            S.violation('C10:' + lab, 'post-processing changes literal content: %s inside %s' % (show(hit[0]['t']), show(hit[1]['source'])),
                        dict(unit=dict(fn='utils::strip_trailing_whitespace', input=hit[0]['s'], output=hit[2]), api=hit[1], model=hit[0]))
        elif hit:
            S.violation('C10:' + lab, 'post-processing changes token text %s (unit level: strip(%s) = %s)' % (show(hit[0]['t']), show(hit[0]['s']), show(hit[2] or 'PANIC')),
                        dict(unit=dict(fn='utils::strip_trailing_whitespace', input=hit[0]['s'], output=hit[2]), api=None, model=hit[0]))
        else:
            S.inconclusive.append('C10:%s: no model reproduced natively' % lab)
    # ---- (3) raw elements ------------------------------------------------------------------------------------------
    fr = explore_raw(S)
    gr = {}
    for lab, info in fr:
        gr.setdefault(lab, []).append(info)
    for lab, infos in gr.items():
        hit = None
        for info in infos[:8]:
            w = confirm_raw(S, info)
            if w:
                hit = (info, w)
                break
        if hit:
            S.violation('C10:' + lab, 'C10:%s: %s' % (lab, hit[1]['what']), dict(api=hit[1], model=hit[0]))
        else:
            S.inconclusive.append('C10:%s: no solver model reproduced natively (%r)' % (lab, infos[0]))
    if not any(o.witnesses.get('literal with interior line feed') for o in S.obls):
        S.inconclusive.append('vacuity: no literal with an interior line feed was reachable')
    S.assumptions += [
        'literal tokens start and end with a non-blank character (string quotes, raw fences, digits, identifier characters, label brackets)',
        'one character of context on each side of the literal suffices because strip_trailing_whitespace is line-local (decided in C11/C03 obligations)',
    ]
    # literals in documents with other line-end styles (CR LF, lone CR, mixed): the string / raw / number tokens of the output are those of the source
    # (up to the two open known findings: blanks and CR directly before a line feed inside a literal are deleted by the post-processing)
    wl = literal_sweep(S)
    S.validation['native_literal_sweep'] = 'clean' if not wl else wl['what']
    if wl:
        S.violation('C10:native:literal-changed', '%s (found by the native sweep of the real library)' % wl['what'], dict(api=wl))
    # the library skeleton: every entry point builds its formatter through Typstyle::new, which must keep the configuration (the reorder flag among it),
    # and returns exactly strip(render(..)) - nothing is done to the text (and so to the literals in it) after the post-processing
    from . import libskel as _ls
    _ls.run(S, want_witness=False)
    return S.finish(level='other', explanation=EXPLANATION, trusted=['mirsym encoder', 'std string contracts', 'Doc algebra contracts'])


# literal / leaf expression kinds: fixed token text where the lexer fixes it (keywords), otherwise arbitrary text
LITERAL_KINDS = {'None': 'none', 'Auto': 'auto', 'Bool': None, 'Int': None, 'Float': None, 'Numeric': None, 'Str': None, 'Ident': None,
                 'MathIdent': None, 'Label': None, 'Shorthand': None, 'Escape': None, 'SmartQuote': None, 'Link': None,
                 'MathText': None, 'MathShorthand': None, 'MathAlignPoint': '&'}
# native confirmation corpus: tokens of each kind in a context where they are lexed as that kind (template with %s)
LITERAL_TOKENS = {
    'Int': ('#let x = %s\n', ['0', '7', '007', '0xff', '0XFF', '0b1010', '0o17', '123456789012345678', '00']),
    'Float': ('#let x = %s\n', ['1.0', '1.', '.5', '1e3', '1E3', '1.50', '01.5', '1e+3', '1.0e-3', '0.10']),
    'Numeric': ('#let x = %s\n', ['1pt', '1.50em', '01pt', '1e2pt', '10%%', '0.50fr', '90deg', '1.0cm']),
    'Str': ('#let x = %s\n', ['""', '"a"', '"\\u{41}"', '"a\\nb"', '"  "', '"\\""', '"é"', '"\\t"']),
    'Bool': ('#let x = %s\n', ['true', 'false']),
    'None': ('#let x = %s\n', ['none']),
    'Auto': ('#let x = %s\n', ['auto']),
    'Ident': ('#let x = %s\n', ['a', 'a-b', 'a_b', 'é', 'x1']),
    'Label': ('a %s\n', ['<a>', '<a-b.c>', '<a:b>']),
    'Escape': ('a %s b\n', ['\\#', '\\u{41}', '\\u{1F600}', '\\$']),
    'Shorthand': ('a %s b\n', ['--', '---', '...', '~']),
    'SmartQuote': ('a %sb\n', ['"', "'"]),
    'Link': ('a %s b\n', ['https://a.b/c?d=e#f', 'http://x.y']),
    'MathIdent': ('$ %s $\n', ['alpha', 'pi']),
    'MathText': ('$ %s $\n', ['a', '1', '1.50', '007']),
    'MathShorthand': ('$ a %s b $\n', ['->', '!=', '=>', '<=']),
    'MathAlignPoint': ('$ a %s b $\n', ['&']),
}


def explore_literal_dispatch(S, N):
    kt = T.KT
    core = S.core
    f_expr = S.find_fn(core, 'PrettyPrinter::convert_expr')
    found = []
    for kind, fixed in LITERAL_KINDS.items():
        for n in ([len(fixed)] if fixed is not None else range(1, N + 1)):
            def body(ctx, kind=kind, fixed=fixed, n=n):
                m = S.machine(core, STD, ctx)
                t = Str.lit(fixed) if fixed is not None else sym_str(ctx, 't', n)
                leaf = Node(kt.k(kind), text=t)
                pr, cfg = pp.printer(m)
                c0 = pp.context()
                ctx.assume(z3.ULT(c0.get('mode').disc, 4))
                describe = lambda mdl: dict(kind=kind, text=t.concrete(mdl), mode=model_int(mdl, c0.get('mode').disc))
                try:
                    d = m.call_fn(f_expr, [pr, c0, T.make_cast(m, leaf, 'Expr')])
                except Panic as p:
                    S.absorb(m)
                    ctx.must_hold(False, 'literal-conversion-panics', lambda mdl: dict(describe(mdl), panic=p.msg))
                    return
                S.absorb(m)
                texts = [a for a in D.atoms(d, False) if a[0] != 'nil']
                ok = len(texts) == 1 and texts[0][0] == 't' and isinstance(texts[0][1], Str) and len(texts[0][1]) == n
                ctx.must_hold(ok and str_eq(texts[0][1], t), 'literal-token-not-emitted-verbatim', describe)
            ob, ex = S.explore('literal.dispatch[%s,n=%d]' % (kind, n), 'convert_expr on a %s token of %d code points emits exactly the token text, in every mode' % (kind, n),
                               body, bounds=dict(kind=kind, code_points=n))
            for lab, mdl, info in ex.violations:
                found.append((lab, info))
    return found


def confirm_literal_kind(S, kind):
    tpl, toks = LITERAL_TOKENS.get(kind, ('#let x = %s\n', []))
    for tok in toks:
        src = tpl % tok
        if S.driver.call('erroneous', hexs(src))[1] == '1':
            continue
        for w in (80, 0):
            r = S.driver.call('format', hexs(src), w, 2, 0)
            if r[0] in ('panic', 'abort'):
                return dict(api='Typstyle::format_content', source=src, width=w, what='format_content panics on %s' % show(src))
            if r[0] == 'ok' and tok not in unhexs(r[1]):
                return dict(api='Typstyle::format_content', source=src, width=w, output=unhexs(r[1]),
                            what='the %s token %s is not reproduced: %s -> %s' % (kind, show(tok), show(src), show(unhexs(r[1]))))
    return None


def explore_raw(S):
    """convert_raw: delimiters, language tag and text lines re-emitted in order; trimmed whitespace maps to blank / line break;
    an inline (non-block) raw spanning several lines is copied verbatim"""
    import itertools
    from mirsym.models_std import is_ws, valid_scalar
    from .markup import is_newline, has_newline
    kt = T.KT
    core = S.core
    fn = S.find_fn(core, 'PrettyPrinter::convert_raw')
    found = []
    for ticks, lang, nlines in itertools.product((1, 3), (False, True), (1, 2)):
        if ticks == 1 and lang:
            continue

        def body(ctx, ticks=ticks, lang=lang, nlines=nlines):
            m = S.machine(core, STD, ctx)
            kids = [Node(kt.k('RawDelim'), text=Str.lit('`' * ticks))]
            if lang:
                kids.append(Node(kt.k('RawLang'), text=Str.lit('py')))
            trimmed = []

            def ws(name, must_nl):
                c0 = z3.BitVec(name, 32)
                ctx.assume(valid_scalar(c0))
                ctx.assume(is_ws(c0))
                if must_nl:
                    ctx.assume(is_newline(c0))
                nd = Node(kt.k('RawTrimmed'), text=Str((c0,)))
                trimmed.append(nd)
                return nd
            texts = []
            if ticks == 3:
                kids.append(ws('lead', True))       # block raws: the first line starts after a newline
            for i in range(nlines):
                c = z3.BitVec('line%d' % i, 32)
                ctx.assume(valid_scalar(c))
                ctx.assume(b_not(is_newline(c)))
                t = Node(kt.k('Text'), text=Str((c,)))
                texts.append(t)
                kids.append(t)
                if i + 1 < nlines:
                    kids.append(ws('sep%d' % i, True))   # lines are separated by a newline (lexer fact)
            if ticks == 3:
                kids.append(ws('trail', True))
            kids.append(Node(kt.k('RawDelim'), text=Str.lit('`' * ticks)))
            raw = Node(kt.k('Raw'), children=kids)
            pr, cfg = pp.printer(m)
            try:
                d = m.call_fn(fn, [pr, pp.context(), T.Ast('Raw', raw)])
            except Panic as p:
                S.absorb(m)
                ctx.must_hold(False, 'raw-panic', lambda mdl: dict(ticks=ticks, panic=p.msg))
                return
            S.absorb(m)
            at = D.atoms(d, flat=False)

            def describe(mdl):
                return dict(ticks=ticks, lang=lang, source=raw.into_text().concrete(mdl), atoms=[(a[1].concrete(mdl) if a[0] == 't' else '<NL>') for a in at])
            whole = raw.into_text()
            if ticks == 1 and nlines > 1:
                # inline raw over several lines: verbatim, whatever newline characters separate the lines
                good = len(at) == 1 and at[0][0] == 't' and len(at[0][1]) == len(whole)
                ctx.must_hold(good and str_eq(at[0][1], whole), 'multi-line-inline-raw-not-copied-verbatim', describe)
                ctx.witness('multi-line inline raw')
                return
            # rebuilt: one atom per child, in order
            ctx.must_hold(len(at) == len(kids), 'raw-children-lost-or-invented', describe)
            if len(at) != len(kids):
                return
            conds = []
            for a, nd in zip(at, kids):
                if nd.kind == kt.k('RawTrimmed'):
                    is_nl = a == ('nl',)
                    is_blank = a[0] == 't' and a[1].is_concrete() and a[1].concrete() == ' '
                    conds.append(is_nl or is_blank)
                    conds.append(i_eq(is_nl, has_newline(nd.text)))
                else:
                    conds.append(a[0] == 't' and len(a[1]) == len(nd.text) and str_eq(a[1], nd.text))
            ctx.must_hold(b_and(*conds), 'raw-delimiter-language-or-text-changed', describe)
            ctx.witness('rebuilt raw')
        ob, ex = S.explore('raw[ticks=%d,lang=%d,lines=%d]' % (ticks, lang, nlines), 'convert_raw on a raw element with %d backticks, %s language tag, %d text line(s), symbolic characters' % (ticks, 'a' if lang else 'no', nlines), body)
        for lab, mdl, info in ex.violations:
            found.append((lab, info))
    return found


def confirm_raw(S, info):
    """embed the raw element at non-zero indentation and check that its lines survive (Typst's raw text, via the re-parsed tree, approximated by the source lines)"""
    src_raw = info.get('source')
    if not src_raw:
        return None
    cands = ['#{\n  [' + src_raw + ']\n}\n', '- a\n  - ' + src_raw + '\n', src_raw + '\n']
    for src in cands:
        if S.driver.call('erroneous', hexs(src))[1] == '1':
            continue
        for w in (80, 0):
            r = S.driver.call('format', hexs(src), w, 2, 0)
            if r[0] != 'ok':
                continue
            out = unhexs(r[1])
            a = S.driver.call('rawtexts', hexs(src))
            b = S.driver.call('rawtexts', r[1])
            if a[0] == 'ok' and b[0] == 'ok' and a[1:] != b[1:]:
                return dict(api='Typstyle::format_content', source=src, width=w, output=out,
                            what='raw text changed: %s -> %s (lines %r -> %r)' % (show(src), show(out), [unhexs(x) for x in a[1:]], [unhexs(x) for x in b[1:]]))
    return None


LITERAL_DOCS = [
    '= Title\r\n#let s = "a\nb"\r\n#s\r\n', '\r\n#"\n"', '#let s = "a\nb"\r\ntext\r\n', 'x\r#let s = "a\nb"\r', '#f("a\nb", `c\nd`)\r\n', 'a\r\n```\nraw\nlines\n```\r\n',
    '#let s = "a\nb"\n#let t = "c\r\nd"\n', '$ "a\nb" $\r\n', '#(k: "a\nb")\r\n#[x "a\nb"]\r\n', '#let n = 1.50e3\r\n#let u = 2.0em\r\n<lab>\r\n@ref\r\n', 'a\u2028#let s = "x\ny"\u2028',
]


def literal_sweep(S):
    from .adjacency import leaves
    import re as _re
    kinds = ('Str', 'Int', 'Float', 'Numeric', 'Label', 'RefMarker', 'Link', 'Escape', 'Ident')

    def known(t):
        # the open known findings: blanks / CR directly before a line feed inside a literal are deleted
        return _re.sub(r'[ \t\r]+(?=\n)', '', t)
    for src in LITERAL_DOCS:
        err, toks = leaves(S, src)
        if err or toks is None:
            continue
        for w in (80, 0):
            r = S.driver.call('format', hexs(src), w, 2, 0)
            if r[0] != 'ok':
                continue
            out = unhexs(r[1])
            err2, toks2 = leaves(S, out)
            if err2 or toks2 is None:
                continue
            a = [(k, t) for k, t in toks if k in kinds]
            b = [(k, t) for k, t in toks2 if k in kinds]
            if len(a) != len(b) or any(ka != kb or (tb != ta and tb != known(ta)) for (ka, ta), (kb, tb) in zip(a, b)):
                bad = next(((x, y) for x, y in zip(a, b) if x != y and y[1] != known(x[1])), (a, b))
                return dict(api='Typstyle::format_content', source=src, width=w, output=out,
                            what='a literal of %s changes when formatted (width %d): %r -> %r' % (show(src), w, bad[0], bad[1]))
            ra, rb = S.driver.call('rawtexts', hexs(src)), S.driver.call('rawtexts', r[1])
            if ra[0] == 'ok' and rb[0] == 'ok' and [known(unhexs(x)) for x in ra[1:]] != [known(unhexs(x)) for x in rb[1:]]:
                return dict(api='Typstyle::format_content', source=src, width=w, output=out, what='the text of a raw element of %s changes when formatted (width %d)' % (show(src), w))
    return None
