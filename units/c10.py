"""C10 — literal content preserved: leaf emission, raw rebuilding, and post-processing versus literal bytes."""
import z3

from mirsym.values import *
from mirsym.explore import Panic
from mirsym import models_typst as T
from mirsym import models_doc as D
from mirsym.models_std import STD, Str, sym_str, str_eq
from mirsym.models_typst import Node, Ast
from . import kern, pp
from .common import *

EXPLANATION = (
    "Bounded symbolic execution (MIR->SMT, z3), kernel level. (1) PrettyPrinter::convert_trivia_untyped, convert_verbatim_untyped and "
    "convert_literal emit exactly the token text / node text for every text of up to N code points. (2) strip_trailing_whitespace "
    "against literal bytes: for s = p.t.q (t any token text whose first and last characters are non-blank) the solver shows that "
    "strip(s) contains t with at most the blanks directly before a line feed removed; that t itself survives is FALSE - the known "
    "finding (post-processing is literal-blind), reported per class and replayed through format_content - while any other change of t "
    "would be a new violation. Typst's dedent rule on re-parse and the lexing of numbers/identifiers are outside the claim.")


def run(S):
    kt = T.KT = T.KindTable(S.driver, S.adts)
    core = S.core
    N = 4 if S.tier == 'quick' else 6
    kern.strip_validate(S)
    # ---- (1) leaf emission ------------------------------------------------------------------------------
    f_trivia = S.find_fn(core, 'PrettyPrinter::convert_trivia_untyped')
    f_verb = S.find_fn(core, 'PrettyPrinter::convert_verbatim_untyped')
    f_lit = S.find_fn(core, 'PrettyPrinter::convert_literal')
    structural = []
    for n in range(0, N + 1):
        def body(ctx, n=n):
            m = S.machine(core, STD, ctx)
            t = sym_str(ctx, 't', n)
            pr, cfg = pp.printer(m)
            kind = z3.BitVec('kind', 8)
            ctx.assume(z3.ULT(kind, kt.n))
            leaf = Node(kind, text=t)
            d = m.call_fn(f_trivia, [pr, leaf])
            ctx.must_hold(d.k == 'text' and len(d.a) == n and str_eq(d.a, t), 'leaf-token-not-emitted-verbatim', lambda mdl: dict(text=t.concrete(mdl)))
            # inner node with two leaves: verbatim conversion concatenates the leaf texts
            a, b = t.sub(0, n // 2), t.sub(n // 2, n)
            inner = Node(z3.BitVec('kind2', 8), children=[Node(kind, text=a), Node(kind, text=b)])
            d2 = m.call_fn(f_verb, [pr, inner])
            ctx.must_hold(d2.k == 'text' and len(d2.a) == n and str_eq(d2.a, t), 'verbatim-node-text-changed', lambda mdl: dict(text=t.concrete(mdl)))
            d3 = m.call_fn(f_lit, [pr, t])
            ctx.must_hold(d3.k == 'text' and len(d3.a) == n and str_eq(d3.a, t), 'literal-keyword-changed', lambda mdl: dict(text=t.concrete(mdl)))
            S.absorb(m)
        ob, ex = S.explore('leaf.emission[n=%d]' % n, 'convert_trivia_untyped / convert_verbatim_untyped / convert_literal emit the text unchanged (%d code points)' % n,
                           body, bounds=dict(code_points=n))
        for lab, mdl, info in ex.violations:
            structural.append((lab, info))
    for lab, info in structural[:3]:
        # native confirmation: a string literal / identifier with that text must survive formatting
        t = info['text']
        api = kern.literal_api_replay(S, t if t and not py_is_ws(t[0]) and not py_is_ws(t[-1]) else 'a' + t + 'b')
        if api:
            S.violation('C10:' + lab, 'leaf emission changes token text %s' % show(t), dict(api=api, model=info))
        else:
            S.inconclusive.append('C10:%s: model %r did not reproduce through format_content' % (lab, info))
    # ---- (2) post-processing vs literal bytes ---------------------------------------------------------------
    found = kern.strip_literal(S, N)
    groups = {}
    for lab, info in found:
        groups.setdefault(lab, []).append(info)
    for lab, infos in groups.items():
        hit = None
        for info in infos[:8]:
            t = info['t']
            real = S.driver.call('strip', hexs(info['s']))
            out = unhexs(real[1]) if real[0] == 'ok' else None
            if out is not None and t in out:
                continue        # unit level does not reproduce: encoder bug
            api = kern.literal_api_replay(S, t)
            if api:
                hit = (info, api, out)
                break
            if hit is None:
                hit = (info, None, out)
        if hit and (hit[1] is not None):
            S.violation('C10:' + lab, 'post-processing changes literal content: %s inside %s' % (show(hit[0]['t']), show(hit[1]['source'])),
                        dict(unit=dict(fn='utils::strip_trailing_whitespace', input=hit[0]['s'], output=hit[2]), api=hit[1], model=hit[0]))
        elif hit:
            S.violation('C10:' + lab, 'post-processing changes token text %s (unit level: strip(%s) = %s)' % (show(hit[0]['t']), show(hit[0]['s']), show(hit[2] or 'PANIC')),
                        dict(unit=dict(fn='utils::strip_trailing_whitespace', input=hit[0]['s'], output=hit[2]), api=None, model=hit[0]))
        else:
            S.inconclusive.append('C10:%s: no model reproduced natively' % lab)
    if not any(o.witnesses.get('literal with interior line feed') for o in S.obls):
        S.inconclusive.append('vacuity: no literal with an interior line feed was reachable')
    S.assumptions += [
        'literal tokens start and end with a non-blank character (string quotes, raw fences, digits, identifier characters, label brackets)',
        'one character of context on each side of the literal suffices because strip_trailing_whitespace is line-local (decided in C11/C03 obligations)',
    ]
    return S.finish(level='other', explanation=EXPLANATION, trusted=['mirsym encoder', 'std string contracts', 'Doc algebra contracts'])
