"""Native sweep of the real `typstyle` binary against the library (the reference of C14 / C15 / C16).

The solver-decided CLI obligations treat file contents as opaque values and the formatter as an uninterpreted function.  A change that
edits the text itself on its way through the CLI (a byte order mark, line ends, a temporary file next to the target) calls string or
file-system functions the environment contracts do not cover: those paths are then not decided (inconclusive).  This sweep states the
three properties directly on the real binary for a fixed family of worlds: contents {needs formatting, already formatted, formatted
with CR LF, formatted without final line feed, with a byte order mark, erroneous, empty, blank, not UTF-8} x option sets x modes
{stdout, stdin, several files, in place, format-all} x {--check, not}, with bystander files next to the targets.  The expected text
always comes from the library (native driver, same options).  A deviation is a reproduced violation of the property as stated.
"""
import os
import shutil
import subprocess
import tempfile

from mirsym.session import hexs, unhexs
from .common import show

NEEDS = ('#import "a.typ": c, b, a\n#let   f( x )   =   {\n  if x {\n    (aaaaaaaaaaaa, bbbbbbbbbbbb, cccccccccccc, dddddddddddd, eeeeeeeeeeee, ffffffffffff)\n  }\n}\n'
         'text   with   blanks  \n\n\n\n')
ERR = '#let x = (1,\n'
BOM = '﻿'
OPTS = [(), ('-c', '40', '-t', '4'), ('--reorder-import-items',), ('-c', '0', '-t', '1', '--reorder-import-items')]
OLD = 978307200          # mtime given to every file before the run (2001-01-01)


def _cfg(opts):
    col, tab, re = 80, 2, 0
    o = list(opts)
    while o:
        x = o.pop(0)
        if x == '-c':
            col = int(o.pop(0))
        elif x == '-t':
            tab = int(o.pop(0))
        elif x == '--reorder-import-items':
            re = 1
    return col, tab, re


def lib(S, text, opts):
    """library result for a text: (erroneous?, formatted text)"""
    col, tab, re = _cfg(opts)
    r = S.driver.call('format', hexs(text), col, tab, re)
    if r[0] == 'err':
        return True, text
    if r[0] != 'ok':
        return None, None
    return False, unhexs(r[1])


def contents(S, opts):
    """name -> bytes"""
    _, fmt = lib(S, NEEDS, opts)
    out = {
        'needs': NEEDS.encode(), 'done': fmt.encode(), 'crlf': fmt.replace('\n', '\r\n').encode(), 'nofinal': fmt.rstrip('\n').encode(),
        'bomneeds': (BOM + NEEDS).encode(), 'bomerr': (BOM + ERR).encode(), 'err': ERR.encode(), 'empty': b'', 'blank': b'  \n\n',
        'nbsp': 'a b 　c\n'.encode(), 'notutf8': b'\xff\xfe#let x = 1\n',
    }
    _, bf = lib(S, BOM + NEEDS, opts)
    out['bomdone'] = bf.encode()
    return out


def expect(S, data, opts):
    """(readable, erroneous, formatted bytes) for file bytes"""
    try:
        text = data.decode('utf-8')
    except UnicodeDecodeError:
        return False, False, None
    e, f = lib(S, text, opts)
    return True, bool(e), f.encode()


def snapshot(root):
    out = {}
    for d, dirs, files in os.walk(root, followlinks=False):
        for f in files:
            p = os.path.join(d, f)
            if os.path.islink(p):
                out[p] = ('link', os.readlink(p))
            else:
                out[p] = (open(p, 'rb').read(), int(os.stat(p).st_mtime))
    return out


def run(S, cmd, tmp, stdin=None):
    r = subprocess.run([S.cli] + list(cmd), input=stdin, stdout=subprocess.PIPE, stderr=subprocess.PIPE, cwd=tmp, timeout=120)
    return r.returncode, r.stdout, r.stderr


def put(path, data):
    os.makedirs(os.path.dirname(path), exist_ok=True)
    open(path, 'wb').write(data)
    os.utime(path, (OLD, OLD))


def sweep(S, want=None):
    """list of deviations dict(prop, label, what, cmd)"""
    cached = getattr(S, '_clinative', None)
    if cached is not None:
        return cached
    dev = []

    def note(prop, label, what, cmd):
        if not any(d['prop'] == prop and d['label'] == label for d in dev):
            dev.append(dict(prop=prop, label=label, what=what, cmd=' '.join(cmd)))
    for opts in OPTS:
        C = contents(S, opts)
        for check in (False, True):
            flags = list(opts) + (['--check'] if check else [])
            # -- single inputs: stdout from a file, stdin -------------------------------------------------------------------------
            for name, data in C.items():
                readable, err, fmt = expect(S, data, opts)
                for mode in ('file', 'stdin'):
                    if mode == 'stdin' and not readable:
                        continue
                    tmp = tempfile.mkdtemp(prefix='vnat')
                    try:
                        p = os.path.join(tmp, 'd', name + '.typ')
                        put(p, data)
                        put(os.path.join(tmp, 'd', name + '.tmp'), b'bystander\n')
                        before = snapshot(tmp)
                        if mode == 'file':
                            code, out, _ = run(S, flags + [p], tmp)
                        else:
                            code, out, _ = run(S, flags, tmp, stdin=data)
                        after = snapshot(tmp)
                        cmd = flags + ([name + '.typ'] if mode == 'file' else ['<', name])
                        if code == 101:
                            note('C14' if check else 'C16', 'panic', 'the binary panics on %s' % name, cmd)
                        if before != after:
                            note('C14' if check else 'C15', 'files-touched-in-%s-mode' % ('check' if check else 'stdout'),
                                 '`typstyle %s` changes files on disk (bytes, mtime or the set of files): %s' % (' '.join(cmd), sorted(k.replace(tmp, '') for k in set(before) ^ set(after) | {k for k in before if before.get(k) != after.get(k)})[:3]), cmd)
                        if check:
                            exp_code = 1 if (not readable or (not err and fmt != data)) else 0
                            if code != exp_code:
                                note('C14', 'exit-status-untruthful', '`typstyle %s` on the %s content %s exits %d, expected %d (formatted form %s the content)' % (
                                    ' '.join(cmd), name, show(data.decode('utf-8', 'replace'))[:60], code, exp_code, 'differs from' if exp_code else 'equals'), cmd)
                            if readable and fmt and len(fmt) > 8 and fmt in out and fmt != b'':
                                note('C14', 'text-printed-in-check-mode', '`typstyle %s` prints the formatted text' % ' '.join(cmd), cmd)
                        elif readable:
                            exp_out = data if err else fmt
                            if out != exp_out:
                                note('C16', 'stdout-differs-from-library-output', '`typstyle %s` on the %s content %s prints %s, the library gives %s' % (
                                    ' '.join(cmd), name, show(data.decode('utf-8', 'replace'))[:50], show(out.decode('utf-8', 'replace'))[:80], show(exp_out.decode('utf-8', 'replace'))[:80]), cmd)
                            if code != 0:
                                note('C16', 'spurious-failure-status', '`typstyle %s` exits %d on readable input' % (' '.join(cmd), code), cmd)
                        elif code == 0:
                            note('C15', 'failure-not-reported', '`typstyle %s` exits 0 although the file cannot be read' % ' '.join(cmd), cmd)
                    finally:
                        shutil.rmtree(tmp, ignore_errors=True)
            # -- several files, in argument order ---------------------------------------------------------------------------------
            order = ['needs', 'err', 'bomneeds', 'done', 'crlf']
            for names in (order, list(reversed(order)), ['done', 'bomdone'], ['done', 'notutf8', 'needs']):
                tmp = tempfile.mkdtemp(prefix='vnat')
                try:
                    paths = []
                    for n in names:
                        p = os.path.join(tmp, n + '.typ')
                        put(p, C[n])
                        paths.append(p)
                    before = snapshot(tmp)
                    code, out, _ = run(S, flags + paths, tmp)
                    after = snapshot(tmp)
                    cmd = flags + [n + '.typ' for n in names]
                    exps = [expect(S, C[n], opts) for n in names]
                    if before != after:
                        note('C14' if check else 'C15', 'files-touched-in-%s-mode' % ('check' if check else 'stdout'), '`typstyle %s` changes files on disk' % ' '.join(cmd), cmd)
                    if check:
                        exp_code = 1 if any((not r) or (not e and f != C[n]) for (r, e, f), n in zip(exps, names)) else 0
                        if code != exp_code:
                            note('C14', 'exit-status-untruthful', '`typstyle %s` exits %d, expected %d' % (' '.join(cmd), code, exp_code), cmd)
                    else:
                        exp_out = b''.join((C[n] if e else f) for (r, e, f), n in zip(exps, names) if r)
                        if out != exp_out:
                            note('C16', 'stdout-differs-from-library-output', '`typstyle %s` prints %s, the library gives (in argument order) %s' % (
                                ' '.join(cmd), show(out.decode('utf-8', 'replace'))[:120], show(exp_out.decode('utf-8', 'replace'))[:120]), cmd)
                        if all(r for r, e, f in exps) != (code == 0):
                            note('C15', 'failure-not-reported' if code == 0 else 'spurious-failure-status', '`typstyle %s` exits %d' % (' '.join(cmd), code), cmd)
                finally:
                    shutil.rmtree(tmp, ignore_errors=True)
            # -- in place and format-all over a tree with bystanders --------------------------------------------------------------
            for mode in ('inplace', 'walk'):
                if check and mode == 'inplace':
                    continue            # clap rejects --check with --inplace
                tmp = tempfile.mkdtemp(prefix='vnat')
                try:
                    root = os.path.join(tmp, 'proj')
                    targets = {}
                    for n in ('needs', 'done', 'crlf', 'nofinal', 'bomneeds', 'bomdone', 'err', 'bomerr', 'empty', 'nbsp', 'notutf8'):
                        sub = 'sub' if n in ('crlf', 'bomneeds') else ''
                        targets[os.path.join(root, sub, n + '.typ')] = C[n]
                    others = {
                        os.path.join(root, 'needs.tmp'): b'bystander 1\n', os.path.join(root, 'needs.typ.bak'): NEEDS.encode(), os.path.join(root, 'needs.typ~'): NEEDS.encode(),
                        os.path.join(root, 'needs'): NEEDS.encode(), os.path.join(root, 'sub', 'crlf.tmp'): b'bystander 2\n', os.path.join(root, 'notes.txt'): NEEDS.encode(),
                        os.path.join(root, '.hidden.typ'): NEEDS.encode(), os.path.join(root, '.git', 'x.typ'): NEEDS.encode(), os.path.join(root, 'sub', '.cache', 'y.typ'): NEEDS.encode(),
                        os.path.join(root, 'UPPER.TYP'): NEEDS.encode(), os.path.join(tmp, 'outside.typ'): NEEDS.encode(),
                    }
                    for p, d in list(targets.items()) + list(others.items()):
                        put(p, d)
                    before = snapshot(tmp)
                    if mode == 'inplace':
                        cmd = list(opts) + ['-i'] + sorted(targets)
                    elif check and opts == OPTS[1]:
                        cmd = list(opts) + ['-i', 'format-all', '--check', root]        # accepted by clap: the flags stand on different sides of the subcommand
                    else:
                        cmd = flags + ['format-all', root]
                    code, out, _ = run(S, cmd, tmp)
                    after = snapshot(tmp)
                    shown = [c.replace(tmp, '') for c in cmd]
                    if code == 101:
                        note('C15', 'panic', '`typstyle %s` panics' % ' '.join(shown), shown)
                    if set(before) != set(after):
                        note('C14' if check else 'C15', 'files-created-or-removed', '`typstyle %s` creates or removes files: %s' % (
                            ' '.join(shown), sorted(k.replace(tmp, '') for k in set(before) ^ set(after))), shown)
                    anyio = False
                    anychg = False
                    for p, d in targets.items():
                        readable, err, fmt = expect(S, d, opts)
                        should = readable and not err and fmt != d
                        anyio |= not readable
                        anychg |= should
                        a = after.get(p)
                        if a is None:
                            continue
                        if check:
                            if a != before[p]:
                                note('C14', 'write-in-check-mode', '`typstyle %s` touches %s (bytes or mtime)' % (' '.join(shown), p.replace(tmp, '')), shown)
                        elif should:
                            if a[0] != fmt:
                                note('C15', 'written-text-is-not-the-formatted-text', '`typstyle %s` leaves %s as %s, the library gives %s' % (
                                    ' '.join(shown), p.replace(tmp, ''), show(a[0].decode('utf-8', 'replace'))[:80], show(fmt.decode('utf-8', 'replace'))[:80]), shown)
                                note('C16', 'file-differs-from-library-output', '`typstyle %s`: %s differs from the library output' % (' '.join(shown), p.replace(tmp, '')), shown)
                        elif a != before[p]:
                            note('C15', 'wrong-write-set', '`typstyle %s` touches %s (%s), which needs no change' % (' '.join(shown), p.replace(tmp, ''), 'bytes' if a[0] != before[p][0] else 'mtime'), shown)
                    for p in others:
                        if p in after and after[p] != before[p]:
                            note('C14' if check else 'C15', 'wrong-write-set' if not check else 'write-in-check-mode', '`typstyle %s` touches the bystander %s' % (' '.join(shown), p.replace(tmp, '')), shown)
                    if check:
                        exp_code = 1 if (anychg or anyio) else 0
                        if code != exp_code:
                            note('C14', 'exit-status-untruthful', '`typstyle %s` exits %d, expected %d' % (' '.join(shown), code, exp_code), shown)
                    elif anyio and code == 0:
                        note('C15', 'failure-not-reported', '`typstyle %s` exits 0 although a file cannot be read' % ' '.join(shown), shown)
                finally:
                    shutil.rmtree(tmp, ignore_errors=True)
    S._clinative = dev
    return dev


def report(S, prop):
    """deviations of the sweep that concern `prop` become violations (they are reproduced on the real binary by construction)"""
    dev = [d for d in sweep(S) if d['prop'] == prop]
    S.validation['native_cli_sweep'] = 'clean' if not dev else [d['label'] for d in dev]
    for d in dev:
        key = '%s:native:%s' % (prop, d['label'])
        if any(v.get('key', '').endswith(':' + d['label']) for v in S.violations if isinstance(v, dict)):
            continue
        S.violation(key, '%s (found by the native sweep of the real binary against the library)' % d['what'], dict(api=dict(api='typstyle binary', cmd=d['cmd']), sweep=d))
