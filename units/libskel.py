"""lib.rs skeleton: refusal logic and the composition `Ok(strip(render(doc, cfg.max_width)))`.

Units (real MIR): Typstyle::{format_source_inspect, format_source, format_content, new},
format_with_width (+closure), Config::{new, with_width, default, clone}, Context::default,
PrettyPrinter::new.  Opaque: AttrStore::new, convert_markup, pretty render, strip (decided separately).
"""
import z3

from mirsym.values import *
from mirsym.explore import Panic
from mirsym import models_typst as T
from mirsym.models_std import STD, OStr, Str
from mirsym import models_doc as D
from mirsym.models_typst import Node, Source


def _contracts():
    return STD


FOUND = []
CONFIG_MODELS = []       # (label, configuration) of solver models of the Typstyle::new obligation
MODELS = []      # concrete (content, width) of solver models of the string-level obligations

ERR_SOURCES = ['#(', '#let x = (1,', '$ x', '*bold', '#{ let }', '#f(a b)', '  #(  \n\n', '#(\t']
OK_SOURCES = ['', 'a', '#let x = 1', '= Head\n\n  - item  \n', '```\nraw  \n```', '#{\n  let a = 1\n\n  let b = 2\n}', '/* c  \n*/',
              '// c\t\n', '/* c\t\n*/\n', '```\nraw\t\n```\n', 'a\u3000\nb\n', 'a\u00a0\n', '// c\x0c\nx\n', 'a // c\u2003']


def native_confirm(S):
    """evaluate the refusal / fallback / hygiene observables of the public API natively on a small corpus x configurations"""
    from mirsym.session import hexs, unhexs
    from .common import hygiene_ok, show
    # a configuration the constructor does not keep: the option must still take effect
    for lab, info in CONFIG_MODELS[:12]:
        c = info['config']
        w, t = min(c['max_width'], 1 << 30), min(c['tab_spaces'], 64)
        if 'reorder_import_items' in lab:
            src = '#import "m": b, a\n'
            on = S.driver.call('format', hexs(src), w, t, 1)
            off = S.driver.call('format', hexs(src), w, t, 0)
            if on[0] == 'ok' and off[0] == 'ok' and on[1] == off[1]:
                return dict(api='Typstyle::format_content', source=src, width=w, tab=t, reorder=1,
                            what='with tab_spaces = %d and max_width = %d the option reorder_import_items has no effect: %s is formatted to %s with the option on' % (t, w, show(src), show(unhexs(on[1]))))
        if 'tab_spaces' in lab:
            src = '#{\n  a\n  b\n}\n'
            r1 = S.driver.call('format', hexs(src), 80, t, 0)
            if r1[0] == 'ok':
                ind = [len(l) - len(l.lstrip(' ')) for l in unhexs(r1[1]).split('\n') if l.strip() == 'a']
                if ind and ind[0] != t:
                    return dict(api='Typstyle::format_content', source=src, width=80, tab=t,
                                what='with tab_spaces = %d the body of %s is indented by %d blanks' % (t, show(src), ind[0]))
    # solver models of the string-level obligations first
    for info in MODELS[:20]:
        src, w = info['content'], min(info['width'], 1 << 40)
        r = S.driver.call('format_with_width', hexs(src), w)
        if S.driver.call('erroneous', hexs(src))[1] == '1':
            exp = src
        else:
            r0 = S.driver.call('format', hexs(src), w, 2, 0)
            exp = unhexs(r0[1]) if r0[0] == 'ok' else None
        if r[0] == 'ok' and exp is not None and exp != src and not hygiene_ok(unhexs(r[1])):
            return dict(api='format_with_width', source=src, width=w, output=unhexs(r[1]),
                        what='format_with_width(%s, %d) returns %s: empty, without final line feed, or a line ends in a blank' % (show(src), w, show(unhexs(r[1]))))
        if r[0] != 'ok' or exp is None or unhexs(r[1]) != exp:
            return dict(api='format_with_width', source=src, width=w, what='format_with_width(%s, %d) gives %s, expected %s (the input itself when erroneous, otherwise the text of format_content with Config{max_width, defaults})' % (
                show(src), w, show(unhexs(r[1])) if r[0] == 'ok' else r[0], show(exp) if exp is not None else 'a result'))
    for src in ('\ufeff#(', '\ufeff= a\n', ' #(', '#(\n', '\r\n#(', '\ufeff', '#( \t'):
        for w in (0, 80):
            r = S.driver.call('format_with_width', hexs(src), w)
            if S.driver.call('erroneous', hexs(src))[1] == '1' and (r[0] != 'ok' or unhexs(r[1]) != src):
                return dict(api='format_with_width', source=src, width=w, what='format_with_width does not return the erroneous input %s unchanged (width %d)' % (show(src), w))
    for w, t in ((80, 2), (0, 0), (1, 1), (120, 4), (7, 3), (40, 8)):
        for src in ERR_SOURCES:
            if S.driver.call('erroneous', hexs(src))[1] != '1':
                continue
            r = S.driver.call('format', hexs(src), w, t, 0)
            if r[0] != 'err':
                return dict(api='Typstyle::format_content', source=src, width=w, tab=t, what='erroneous source %s is not refused (width %d, tab %d): %s' % (show(src), w, t, r[0]))
            r = S.driver.call('format_with_width', hexs(src), w)
            if r[0] != 'ok' or unhexs(r[1]) != src:
                return dict(api='format_with_width', source=src, width=w, what='format_with_width does not return the erroneous input %s unchanged (width %d)' % (show(src), w))
        for src in OK_SOURCES:
            r = S.driver.call('format', hexs(src), w, t, 0)
            if r[0] != 'ok':
                return dict(api='Typstyle::format_content', source=src, width=w, tab=t, what='well-formed source %s is refused or panics (width %d, tab %d): %s' % (show(src), w, t, r[0]))
            out = unhexs(r[1])
            if not hygiene_ok(out):
                return dict(api='Typstyle::format_content', source=src, width=w, tab=t, output=out, what='output for %s breaks hygiene (width %d, tab %d): %s' % (show(src), w, t, show(out)))
            if t == 2:
                r2 = S.driver.call('format_with_width', hexs(src), w)
                if r2[0] != 'ok' or unhexs(r2[1]) != out:
                    return dict(api='format_with_width', source=src, width=w, what='format_with_width(%s, %d) differs from format_content with Config{max_width, defaults}' % (show(src), w))
    return None


def report(S):
    if not FOUND:
        # the corpus must agree with the solver's verdict on this tree (guards the corpus itself)
        w = native_confirm(S)
        S.validation['libskel_native_corpus'] = 'clean' if not w else w['what']
        if w:
            S.inconclusive.append('library skeleton: the native corpus shows a deviation the solver-decided units do not explain: %s' % w['what'])
        return
    w = native_confirm(S)
    for lab in sorted(set(FOUND)):
        if w:
            S.violation('lib-skeleton:' + lab, 'library entry points: %s; %s' % (lab, w['what']), dict(api=w, structural=lab))
        else:
            S.inconclusive.append('library skeleton deviates (%s) but no native reproduction over the configuration corpus' % lab)
    del FOUND[:]


def run(S, want_witness=True, collect=None):
    del FOUND[:]
    del MODELS[:]
    del CONFIG_MODELS[:]

    def note(viol):
        for lab, mdl, info in viol:
            if lab.startswith('C17:') and collect is not None:
                collect.append((lab, info))
            else:
                FOUND.append(lab)

    core = S.core
    contracts = _contracts()
    f_inspect = S.find_fn(core, 'Typstyle::format_source_inspect')
    f_content = S.find_fn(core, 'Typstyle::format_content')
    f_width = S.find_fn(core, 'format_with_width')
    kt = T.KT

    def mk_overrides(rec):
        def attr_new(m, a, ci):
            return Opaque('attrs', (a[0].nid,))

        def convert_markup(m, a, ci):
            printer = m.load(a[0])
            rec['printer'] = printer
            rec['ctx'] = a[1]
            rec['markup'] = a[2]
            return D.opaque_doc('doc', (a[2].node.nid,))

        def strip(m, a, ci):
            s = a[0]
            return OStr(('strip', s.term))

        def detached(m, a, ci):
            rec['detached_text'] = a[0]
            return Source(a[0], rec['root'])
        return {'AttrStore::new': attr_new, 'convert_markup': convert_markup, 'strip_trailing_whitespace': strip,
                'detached': detached}

    def sym_cfg(ctx):
        tab = z3.BitVec('cfg_tab', 64)
        width = z3.BitVec('cfg_width', 64)
        blank = z3.BitVec('cfg_blank', 64)
        reorder = z3.Bool('cfg_reorder')
        return Agg('Config', None, (tab, width, blank, reorder), ('tab_spaces', 'max_width', 'blank_lines_upper_bound', 'reorder_import_items'))

    def check_ok_value(ctx, rec, res, cfg, label):
        """res must be Ok(strip(render(doc(root), cfg.max_width))) with the printer configured by cfg"""
        good = (isinstance(res, Agg) and res.variant == 'Ok' and isinstance(res.fields[0], OStr)
                and res.fields[0].term[0] == 'strip' and res.fields[0].term[1][0] == 'render')
        if not good:
            ctx.must_hold(False, label + ': Ok value is not strip(render(..)): %r' % (res,))
            return
        render = res.fields[0].term[1][1]
        doc, width = render.deps
        ok_doc = isinstance(doc, D.Doc) and doc.k == 'opaque' and doc.a == 'doc' and doc.b == (rec['root'].nid,)
        ctx.must_hold(ok_doc, label + ': rendered doc is the converted root markup')
        ctx.must_hold(i_eq(width, cfg.get('max_width')), label + ': render width == config.max_width')
        p = rec.get('printer')
        pc = p.get('config') if p is not None else None
        conds = [i_eq(pc.fields[i], cfg.fields[i]) for i in range(4)] if pc is not None else [False]
        ctx.must_hold(b_and(*conds), label + ': printer config == Typstyle config')
        c = rec.get('ctx')
        ctx.must_hold(c is not None and i_eq(c.get('mode').disc, 0) and c.get('break_suppressed') is False,
                      label + ': root converted in default context (Markup, breaks allowed)')

    # (a) format_source_inspect -------------------------------------------------------
    def body_inspect(ctx):
        rec = {}
        err = z3.Bool('erroneous')
        root = Node(kt.k('Markup'), err=err, nid=1)
        rec['root'] = root
        m = S.machine(core, contracts, ctx, overrides=mk_overrides(rec))
        cfg = sym_cfg(ctx)
        typ = Agg('Typstyle', None, (cfg,), ('config',))
        inspected = []
        insp = PyFn(lambda mm, args: (inspected.append(mm.load(args[0])), UNIT)[1], 'inspector')
        try:
            res = m.call_fn(f_inspect, [typ, Source(OStr(('content',)), root), insp])
        except Panic as p:
            ctx.must_hold(False, 'format_source_inspect panics: %s' % p.msg)
            S.absorb(m)
            return
        S.absorb(m)
        if res.variant == 'Err':
            ctx.must_hold(err, 'Err only if erroneous')
            ctx.must_hold(not inspected and 'printer' not in rec, 'no conversion before refusal')
            ctx.witness('refused')
        else:
            ctx.must_hold(b_not(err), 'Ok only if not erroneous')
            check_ok_value(ctx, rec, res, cfg, 'inspect')
            ctx.must_hold(len(inspected) == 1, 'inspector called exactly once')
            ctx.witness('accepted')

    ob, ex = S.explore('lib.format_source_inspect', 'Err iff root.erroneous(); Ok value = strip(render(convert_markup(root), cfg.max_width))',
                       body_inspect, bounds=dict(config='all 64-bit tab/width/blank, both reorder values', erroneous='symbolic'))
    note(ex.violations)
    if want_witness:
        S.require_witness(ob, ['refused', 'accepted'])

    # (b) format_content ------------------------------------------------------------------
    def body_content(ctx):
        rec = {}
        err = z3.Bool('erroneous')
        root = Node(kt.k('Markup'), err=err, nid=1)
        rec['root'] = root
        m = S.machine(core, contracts, ctx, overrides=mk_overrides(rec))
        cfg = sym_cfg(ctx)
        typ = Agg('Typstyle', None, (cfg,), ('config',))
        content = OStr(('content',))
        try:
            res = m.call_fn(f_content, [typ, content])
        except Panic as p:
            ctx.must_hold(False, 'format_content panics: %s' % p.msg)
            S.absorb(m)
            return
        S.absorb(m)
        ctx.must_hold(rec.get('detached_text') == content, 'source is built from the given content')
        if res.variant == 'Err':
            ctx.must_hold(err, 'Err only if erroneous')
        else:
            ctx.must_hold(b_not(err), 'Ok only if not erroneous')
            check_ok_value(ctx, rec, res, cfg, 'content')

    ob, ex = S.explore('lib.format_content', 'format_content(c) = format_source_inspect(Source::detached(c), no-op)', body_content)
    note(ex.violations)

    # (c) format_with_width ----------------------------------------------------------------
    def body_width(ctx):
        rec = {}
        err = z3.Bool('erroneous')
        root = Node(kt.k('Markup'), err=err, nid=1)
        rec['root'] = root
        m = S.machine(core, contracts, ctx, overrides=mk_overrides(rec))
        w = z3.BitVec('w', 64)
        content = OStr(('content',))
        try:
            res = m.call_fn(f_width, [content, w])
        except Panic as p:
            ctx.must_hold(False, 'format_with_width panics: %s' % p.msg)
            S.absorb(m)
            return
        S.absorb(m)
        if isinstance(res, OStr) and res == content:
            ctx.must_hold(err, 'input returned unchanged only if erroneous')
            ctx.witness('fallback')
        else:
            ctx.must_hold(b_not(err), 'formatted only if not erroneous')
            cfg = Agg('Config', None, (2, w, 2, False), ('tab_spaces', 'max_width', 'blank_lines_upper_bound', 'reorder_import_items'))
            check_ok_value(ctx, rec, ok(res), cfg, 'with_width')
            ctx.witness('formatted')

    ob, ex = S.explore('lib.format_with_width', 'format_with_width(c,w) = c if erroneous else format with Config{max_width:w, defaults}', body_width)
    note(ex.violations)
    if want_witness:
        S.require_witness(ob, ['fallback', 'formatted'])

    # (e) Typstyle::new keeps the configuration it is given (every front-end builds its formatter through it)
    f_new = S.find_fn(core, 'Typstyle::new')

    def body_new(ctx):
        m = S.machine(core, contracts, ctx)
        cfg = sym_cfg(ctx)
        try:
            t = m.call_fn(f_new, [cfg])
        except Panic as p:
            ctx.must_hold(False, 'Typstyle::new panics: %s' % p.msg)
            S.absorb(m)
            return
        S.absorb(m)
        got = t.get('config') if isinstance(t, Agg) else None
        describe = lambda mdl: dict(config=dict(tab_spaces=mdl.eval(cfg.fields[0], model_completion=True).as_long(), max_width=mdl.eval(cfg.fields[1], model_completion=True).as_long(),
                                                blank_lines_upper_bound=mdl.eval(cfg.fields[2], model_completion=True).as_long(), reorder_import_items=z3.is_true(mdl.eval(cfg.fields[3], model_completion=True))))
        names = ('tab_spaces', 'max_width', 'blank_lines_upper_bound', 'reorder_import_items')
        for i_, nm in enumerate(names):
            ctx.must_hold(got is not None and i_eq(got.fields[i_], cfg.fields[i_]), 'Typstyle::new does not keep the configuration it is given: %s' % nm, describe)
        ctx.witness('constructed')
    ob, ex = S.explore('lib.Typstyle::new', 'Typstyle::new(config) holds exactly that configuration, for every value of its four fields', body_new)
    for lab, mdl, info in ex.violations:
        FOUND.append(lab)
        if info:
            CONFIG_MODELS.append((lab, info))

    # (d) format_with_width on a content of symbolic characters: the text handed to the parser is the caller's text, and the refusal
    #     returns the caller's text (every scalar value, so also a byte order mark, blanks, line ends at either end)
    from mirsym.models_std import sym_str, str_eq
    for n in range(0, 3 if S.tier == 'quick' else 4):
        def body_width_sym(ctx, n=n):
            rec = {}
            err = z3.Bool('erroneous')
            root = Node(kt.k('Markup'), err=err, nid=1)
            rec['root'] = root
            m = S.machine(core, contracts, ctx, overrides=mk_overrides(rec))
            w = z3.BitVec('w', 64)
            content = sym_str(ctx, 'content', n)
            describe = lambda mdl: dict(content=content.concrete(mdl), width=mdl.eval(w, model_completion=True).as_long())
            try:
                res = m.call_fn(f_width, [content, w])
            except Panic as p:
                ctx.must_hold(False, 'format_with_width panics: %s' % p.msg, describe)
                S.absorb(m)
                return
            S.absorb(m)
            dt = rec.get('detached_text')
            ctx.must_hold(isinstance(dt, Str) and str_eq(dt, content), 'format_with_width: the text parsed is not the text given', describe)
            if isinstance(res, Str):
                ctx.must_hold(err, 'input returned unchanged only if erroneous', describe)
                ctx.must_hold(str_eq(res, content), 'format_with_width: the refusal does not return the input unchanged', describe)
                ctx.witness('fallback')
            else:
                ctx.must_hold(b_not(err), 'formatted only if not erroneous', describe)
                good = isinstance(res, OStr) and res.term[0] == 'strip' and res.term[1][0] == 'render'
                ctx.must_hold(good, 'format_with_width: the text returned is not strip(render(..)) (something is done to it after the post-processing)', describe)
                ctx.witness('formatted')
        ob, ex = S.explore('lib.format_with_width[content of %d code points]' % n, 'format_with_width parses exactly the given text and returns exactly it on refusal, for every text of %d code points' % n,
                           body_width_sym, bounds=dict(code_points=n))
        for lab, mdl, info in ex.violations:
            if lab.startswith('C17:') and collect is not None:
                collect.append((lab, info))
            else:
                FOUND.append(lab)
                if info:
                    MODELS.append(info)
        if want_witness:
            S.require_witness(ob, ['fallback', 'formatted'])
    report(S)
    S.assumptions += [
        'parser fact: the root of a parsed Source is a Markup node (root.cast::<Markup>() is Some)',
        'Source::detached(text).root().erroneous() is a function of the text only (one symbolic Bool)',
        'AttrStore::new, convert_markup, pretty render and strip_trailing_whitespace are opaque in this obligation (strip is decided separately)',
    ]
