"""C11 — output hygiene: final newline, no trailing blanks."""
from mirsym import models_typst as T
from . import kern, libskel

EXPLANATION = (
    "Bounded symbolic execution (MIR->SMT, z3) of utils::strip_trailing_whitespace over every UTF-8 string of up to N code points "
    "(each an arbitrary Unicode scalar): the solver shows the result is non-empty, ends in LF and no line ends in a White_Space "
    "character. A second group of obligations executes Typstyle::format_source_inspect / format_content / format_with_width from "
    "their MIR with the printer opaque and shows that every Ok value is exactly strip(render(doc, max_width)), so the kernel fact "
    "is what the public API returns. Strings longer than N are outside the claim; the kernel keeps no state across lines.")


def run(S):
    T.KT = T.KindTable(S.driver, S.adts)
    N = S.bounds['N']
    kern.strip_validate(S)
    kern.strip_hygiene(S, N)
    libskel.run(S)
    return S.finish(level='other', explanation=EXPLANATION,
                    trusted=['z3 4.x/5.1 (python API)', 'mirsym MIR->SMT encoder', 'std string contracts (validated natively each run)',
                             'pretty::Doc::pretty is opaque: its output is an arbitrary string'])
