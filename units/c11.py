"""C11 — output hygiene: final newline, no trailing blanks."""
from mirsym import models_typst as T
from . import kern, libskel

EXPLANATION = (
    "Bounded symbolic execution (MIR->SMT, z3) of utils::strip_trailing_whitespace over every UTF-8 string of up to N code points "
    "(each an arbitrary Unicode scalar): the solver shows the result is non-empty, ends in LF and no line ends in a White_Space "
    "character. A second group of obligations executes Typstyle::format_source_inspect / format_content / format_with_width from "
    "their MIR with the printer opaque and shows that every Ok value is exactly strip(render(doc, max_width)), so the kernel fact "
    "is what the public API returns. Strings longer than N are outside the claim; the kernel keeps no state across lines. Session 3: when the post-processing unit is not in the MIR nothing is decided; the property is then stated on the real library over documents with empty lines in nested constructs and carriage returns x widths x indent units up to 257 (native sweep).")


def run(S):
    T.KT = T.KindTable(S.driver, S.adts)
    N = S.bounds['N']
    from mirsym.explore import Inconclusive
    try:
        kern.strip_validate(S)
        kern.strip_hygiene(S, N)
        libskel.run(S)
    except Inconclusive as e:
        # the post-processing is no longer the unit this check executes (renamed, removed, replaced): nothing is decided by the solver.  The
        # property is still stated directly on what the real library returns over the native corpus below.
        S.inconclusive.append(str(e))
    w = native_hygiene(S)
    S.validation['native_hygiene_sweep'] = 'clean' if not w else w['what']
    if w:
        S.violation('C11:native:output-hygiene', '%s (found by the native sweep of the real library)' % w['what'], dict(api=w))
    return S.finish(level='other', explanation=EXPLANATION,
                    trusted=['z3 4.x/5.1 (python API)', 'mirsym MIR->SMT encoder', 'std string contracts (validated natively each run)',
                             'pretty::Doc::pretty is opaque: its output is an arbitrary string'])


HYGIENE_DOCS = [
    '#{\n  let a = 1\n\n  let b = 2\n}\n', '#f(\n  a,\n\n  b,\n)\n', '/* a\n\n   b */\n', '#{\n  /* a\n\n     b */\n}\n', '#let s = "a"   \n', 'text   \n\n\n', 'a \\\nb\n', '- a\n\n  b\n',
    '```\nraw\n\n```\n', '$ a \\\n\n b $\n', '#[\n  a\n\n  b\n]\n', '#{\n  {\n    {\n      a\n\n      b\n    }\n  }\n}\n', 'x' * 100 + ' /*\n\n*/\n', '#f(' * 60 + 'a,\n\nb' + ')' * 60 + '\n',
    'a\r', 'a\r\nb\r\n', '= T\nS /* p\rn */ t\n', '#let s = "a\rb"\n', '```\na\r\nb\n```\n', 'a\u0085b\n', 'a\u2028b\u2029', '#f(a,\r b)\r', '// c\r\na\r\n',
    '= h \t\n', 'a\u00a0\n', '// c \u3000\n', '', ' ', '\n\n', '#{\n  let a = 1 // c   \n\n}\n',
]


def native_hygiene(S):
    """every accepted input gives a non-empty text that ends in a line feed and has no line ending in a blank: stated on the real library
    for documents with empty lines inside nested and deeply indented constructs, over widths and indent units (also very large ones)"""
    from mirsym.session import hexs, unhexs
    from .common import hygiene_ok, show
    for src in HYGIENE_DOCS:
        if S.driver.call('erroneous', hexs(src))[1] == '1':
            continue
        for w in (80, 0, 1000):
            for t in (2, 0, 1, 7, 51, 101, 257):
                r = S.driver.call('format', hexs(src), w, t, 0)
                if r[0] in ('panic', 'abort'):
                    continue            # C05's subject
                if r[0] != 'ok':
                    continue
                out = unhexs(r[1])
                if not hygiene_ok(out):
                    bad = [l for l in out.split('\n') if l and l[-1] in ' \t\u00a0\u3000'][:1]
                    return dict(api='Typstyle::format_content', source=src, width=w, tab=t, output=out[:400],
                                what='output for %s (width %d, tab_spaces %d) breaks hygiene: %s' % (show(src)[:80], w, t, ('a line ends in %d blanks' % (len(bad[0]) - len(bad[0].rstrip())) if bad else 'empty or no final line feed')))
    return None
