"""convert_table (pretty/table.rs): panic freedom for every column count and cell conservation."""
import itertools
import z3

from mirsym.values import *
from mirsym.explore import Panic
from mirsym import models_typst as T
from mirsym import models_doc as D
from mirsym.models_std import STD, Str
from mirsym.models_typst import Node, Ast
from mirsym.session import hexs, unhexs
from . import pp
from .common import *


def explore(S, K, want=('C05',)):
    kt = T.KT
    core = S.core
    fn = S.find_fn(core, 'PrettyPrinter::convert_table')
    found = []
    for k in range(1, K + 1):
        for named in (0, 1):
            def body(ctx, k=k, named=named):
                def conv_arg(m, a, ci):
                    return D.opaque_doc('cell', (T._node(m, a[2]).nid,))

                def conv_named(m, a, ci):
                    return D.opaque_doc('named', (T._node(m, a[2]).nid,))
                m = S.machine(core, STD, ctx, overrides={'convert_arg': conv_arg, 'convert_named': conv_named})
                kids = [Node(kt.k('LeftParen'), text=Str.lit('('))]
                for j in range(named):
                    nm = Node(kt.k('Named'), children=[Node(kt.k('Ident'), text=Str.lit('columns')), Node(kt.k('Colon'), text=Str.lit(':')),
                                                       Node(kt.k('Int'), text=Str.lit('2'))])
                    kids += [nm, Node(kt.k('Comma'), text=Str.lit(',')), Node(kt.k('Space'), text=Str.lit(' '))]
                cells = []
                for j in range(k):
                    c = Node(kt.k('ContentBlock'), children=[Node(kt.k('LeftBracket'), text=Str.lit('[')), Node(kt.k('RightBracket'), text=Str.lit(']'))])
                    cells.append(c)
                    kids += [c, Node(kt.k('Comma'), text=Str.lit(','))]
                kids.append(Node(kt.k('RightParen'), text=Str.lit(')')))
                args = Node(kt.k('Args'), children=kids)
                call = Node(kt.k('FuncCall'), children=[Node(kt.k('Ident'), text=Str.lit('table')), args])
                pr, cfg = pp.printer(m)
                columns = z3.BitVec('columns', 64)

                def describe(mdl):
                    return dict(columns=model_int(mdl, columns), cells=k, named_args=named)
                try:
                    d = m.call_fn(fn, [pr, pp.context(), Ast('FuncCall', call), columns])
                except Panic as p:
                    S.absorb(m)
                    if 'C05' in want:
                        ctx.must_hold(False, 'C05:table-panic', lambda mdl: dict(describe(mdl), panic=p.msg))
                    return
                S.absorb(m)
                at = D.atoms(d, flat=False)
                got = [a[2][0] for a in at if a[0] == 'o' and a[1] == 'cell']
                ctx.must_hold(got == [c.nid for c in cells], 'C05:table-cells-not-conserved', lambda mdl: dict(describe(mdl)))
                ctx.witness('zero columns', columns == 0)
                ctx.witness('more cells than columns', z3.ULT(columns, k))
            ob, ex = S.explore('table[cells=%d,named=%d]' % (k, named), 'convert_table with %d cells, %d named args, every 64-bit column count (0 included)' % (k, named),
                               body, bounds=dict(cells=k, named=named))
            for lab, mdl, info in ex.violations:
                found.append((lab, info))
            if ob.status.startswith('inconclusive'):
                return found
    return found


def native_confirm(S, info):
    cols = info.get('columns', 0)
    variants = []
    if cols == 0:
        variants = ['columns: 0', 'columns: ()']
    elif cols <= 6:
        variants = ['columns: %d' % cols, 'columns: (%s)' % ', '.join(['1fr'] * cols) + (',' if cols == 1 else '')]
    else:
        variants = ['columns: %d' % cols]
    cells = ', '.join('[c%d]' % i for i in range(max(info.get('cells', 1), 1)))
    for v in variants:
        for tpl in ('#table(%s, %s)\n', '#grid(%s, %s)\n', '#{\n  table(%s, %s)\n}\n'):
            src = tpl % (v, cells)
            if S.driver.call('erroneous', hexs(src))[1] == '1':
                continue
            for w in (80, 0):
                r = S.driver.call('format', hexs(src), w, 2, 0)
                if r[0] in ('panic', 'abort'):
                    return dict(api='Typstyle::format_content', source=src, width=w, what='format_content panics on %s (width %d): %s' % (show(src), w, unhexs(r[1]) if len(r) > 1 else ''))
                if r[0] == 'ok':
                    out = unhexs(r[1])
                    if any(('[c%d]' % i) not in out for i in range(info.get('cells', 1))):
                        return dict(api='Typstyle::format_content', source=src, width=w, output=out, what='table cells lost: %s -> %s' % (show(src), show(out)))
    return None


def report(S, prop, found):
    groups = {}
    for lab, info in found:
        if lab.startswith(prop + ':'):
            groups.setdefault(lab, []).append(info)
    for lab, infos in groups.items():
        hit = None
        for info in infos[:6]:
            w = native_confirm(S, info)
            if w:
                hit = (info, w)
                break
        if hit:
            S.violation(lab, '%s: %s' % (lab, hit[1]['what']), dict(api=hit[1], model=hit[0]))
        else:
            S.inconclusive.append('%s: no solver model reproduced natively (%r)' % (lab, infos[0]))
