"""helpers shared by harness specs"""
import z3
from mirsym.values import *
from mirsym.models_std import Str, sym_str, is_ws, c_eq, str_eq
from mirsym.session import hexs, unhexs


def model_str(mdl, s):
    return s.concrete(mdl)


def model_int(mdl, v):
    if not is_sym(v):
        return int(v)
    return mdl.eval(v, model_completion=True).as_long()


def model_bool(mdl, v):
    if isinstance(v, bool):
        return v
    return z3.is_true(mdl.eval(v, model_completion=True))


def show(s):
    """printable rendering of a string with escapes"""
    return s.encode('unicode_escape').decode('ascii')


WS_SET = set()
for a, b in [(0x09, 0x0D), (0x20, 0x20), (0x85, 0x85), (0xA0, 0xA0), (0x1680, 0x1680), (0x2000, 0x200A),
             (0x2028, 0x2029), (0x202F, 0x202F), (0x205F, 0x205F), (0x3000, 0x3000)]:
    for c in range(a, b + 1):
        WS_SET.add(chr(c))


def py_is_ws(ch):
    return ch in WS_SET


def hygiene_ok(out):
    """C11 observable on a concrete string"""
    if not out or not out.endswith('\n'):
        return False
    for line in out.split('\n'):
        if line and py_is_ws(line[-1]):
            return False
    return True


def validate_corpus(S, name, found, sweep):
    """Native confirmation corpora must agree with the solver's verdict on the checked tree: when the solver-decided units
    report nothing, a corpus hit means the corpus or its oracle is wrong (or a unit is missing) - never a pass, never a violation."""
    if found:
        return
    w = sweep()
    if isinstance(w, list):
        w = w[0] if w else None
    S.validation['native_corpus:' + name] = 'clean' if not w else w['what']
    if w:
        S.inconclusive.append('%s: the native corpus shows a deviation the solver-decided units do not explain: %s' % (name, w['what']))
