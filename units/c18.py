"""C18 — work grows linearly with input size: each node is converted a bounded number of times independent of nesting (bounded check)."""
import z3

from mirsym.values import *
from mirsym.explore import Panic
from mirsym import models_typst as T
from mirsym.models_std import STD
from mirsym.session import hexs, unhexs
from . import deep, pp
from .common import *
from .conserve import size_of

EXPLANATION = (
    "Bounded symbolic execution (MIR->SMT, z3) of the whole printer with nothing opaque (AttrStore::new + convert_markup, every converter from its MIR) on "
    "recursive families of sources - calls in calls, arrays, parentheses, code blocks, content blocks, closures, conditionals, loops, math delimiters, "
    "math calls, method chains in arguments, binary operators, dictionaries, unary operators, field / method chains, operator chains, let bindings, "
    "show rules, destructuring, lists in markup - each in a one-line and a multi-line spelling, alone and on a line with text (breaks suppressed), at "
    "nesting depths 1, 2, 4, .. up to D (8 quick / 16 thorough); indent unit and width are symbolic. Decided on every path: (1) convert_expr_impl runs at "
    "most once per syntax node (a converter that converts a child twice - e.g. once per layout alternative - makes the count grow exponentially with "
    "depth and is reported at depth 2 already); (2) the number of MIR basic blocks of typstyle executed per syntax node does not grow with depth "
    "(blocks(2d) / nodes(2d) <= 1.25 * blocks(d) / nodes(d) + 8), i.e. no converter re-walks its subtree per level; (3) calls of the subtree-linear "
    "foreign function SyntaxNode::into_text are made at most twice per node. NOT covered: the cost of the pretty renderer and of the parser, "
    "memory, families not listed, depths beyond D, and the asymptotic statement itself (this is a bounded observation of the mechanism that would "
    "break it).")

FAMILIES = {
    'call': lambda d, nl: '#' + ('f(' + nl) * d + 'x' + (nl + ')') * d,
    'array': lambda d, nl: '#' + ('(' + nl) * d + 'x' + (',' + nl + ')') * d,
    'paren': lambda d, nl: '#' + ('(' + nl) * d + 'x' + (nl + ')') * d,
    'block': lambda d, nl: '#' + ('{' + (nl or ' ')) * d + 'x' + ((nl or ' ') + '}') * d,
    'content': lambda d, nl: ('#[' + nl) * d + 'x' + (nl + ']') * d,
    'closure': lambda d, nl: '#(' + 'x => ' * d + 'x)',
    'cond': lambda d, nl: '#' + ('if a {' + (nl or ' ')) * d + 'x' + ((nl or ' ') + '} else { y }') * d,
    'while': lambda d, nl: '#' + ('while a {' + (nl or ' ')) * d + 'x' + ((nl or ' ') + '}') * d,
    'for': lambda d, nl: '#' + ('for i in a {' + (nl or ' ')) * d + 'x' + ((nl or ' ') + '}') * d,
    'math': lambda d, nl: '$' + ('(' + nl) * d + 'x' + (nl + ')') * d + '$',
    'mathcall': lambda d, nl: '$' + ('vec(' + nl) * d + 'x' + (nl + ')') * d + '$',
    'chain-in-args': lambda d, nl: '#' + ('a.b(' + nl) * d + 'x' + (nl + ')') * d,
    'plain-dot-chain': lambda d, nl: '#' + ('aaa.bbb.ccc(' + nl) * d + 'x' + (nl + ')') * d,
    'binary': lambda d, nl: '#(' + ('a + (' + nl) * d + 'x' + (nl + ')') * d + ')',
    'dict': lambda d, nl: '#' + ('(k: ' + nl) * d + 'x' + (nl + ')') * d,
    'unary': lambda d, nl: '#(' + '-' * d + 'x)',
    'method-chain': lambda d, nl: '#x' + (nl and '' or '') + '.f()' * d,
    'operator-chain': lambda d, nl: '#(x' + (' +' + (nl or ' ') + 'a') * d + ')',
    'let': lambda d, nl: '#' + ('let v = {' + (nl or ' ')) * d + 'x' + ((nl or ' ') + '}') * d,
    'show': lambda d, nl: '#' + 'show a: ' * d + 'x',
    'destruct': lambda d, nl: '#let ' + '(' * d + 'x' + ',)' * d + ' = y',
    'named-args': lambda d, nl: '#' + ('f(k: ' + nl) * d + 'x' + (nl + ')') * d,
    'content-arg': lambda d, nl: '#' + ('f(' + nl + '[#') * d + 'x' + (']' + nl + ')') * d,
    'list': lambda d, nl: ''.join('  ' * i + '- a\n' for i in range(d)) + '  ' * d + 'x',
    # constructs that get optional delimiters, with an operand that opens a new code / markup scope holding the same construct again
    'binary-in-block': lambda d, nl: '#' + ('{ 1 + ' + nl) * d + '{ 1 }' + (nl + ' }') * d,
    'closure-with-binary-body': lambda d, nl: '#let f = ' + ('x => 1 + (' + nl) * d + 'x' + (nl + ')') * d,
    'chain-with-content': lambda d, nl: ('#a.b().c[' + nl) * d + 'x' + (nl + ']') * d,
    'for-over-binary': lambda d, nl: '#{ ' + ('for i in 1 + { ' + nl) * d + '1' + (nl + ' } {}') * d + ' }',
    # kept blank lines between the entries of a list (a look-ahead over the next entry must not convert it)
    'call-with-blank-lines': lambda d, nl: '#' + ('f(a,\n\n' + nl) * d + 'b' + ')' * d,
    'block-with-blank-lines': lambda d, nl: '#' + ('{\na\n\n' + nl) * d + 'b' + '\n}' * d,
    'array-with-blank-lines': lambda d, nl: '#' + ('(a,\n\n' + nl) * d + 'b' + ',)' * d,
    'args-with-comment-lines': lambda d, nl: '#' + ('f(a, // c\n' + nl) * d + 'b' + ')' * d,
    'strong-emph': lambda d, nl: ''.join('*' if i % 2 == 0 else '_' for i in range(d)) + 'x' + ''.join('*' if i % 2 == 0 else '_' for i in reversed(range(d))),
}


def explore(S, D, prefix='C18'):
    """the obligations of this module up to nesting depth D, reported under `prefix` (C05 uses them as 'never hangs': work that doubles per level)"""
    kt = T.KT = T.KindTable(S.driver, S.adts)
    core = S.core
    f_attr = S.find_fn(core, 'AttrStore::new')
    f_markup = S.find_fn(core, 'PrettyPrinter::convert_markup')
    depths = [d for d in (1, 2, 4, 8, 16, 32) if d <= D]
    table = {}
    tasks = []
    metas = []
    for fam, gen in FAMILIES.items():
        for nl in ('', '\n'):
            for textline in (False, True):
                if textline and (fam in ('list',) or nl):
                    continue
                for d in depths:
                    src = ('text ' if textline else '') + gen(d, nl) + '\n'
                    tree = deep.tree_of(S, src)
                    if tree is None:
                        continue            # beyond the nesting the parser accepts for this family, or not well-formed in this spelling
                    variant = '%s%s%s' % (fam, ',multi-line' if nl else '', ',text-line' if textline else '')

                    def body(ctx, tree=tree, src=src, variant=variant, d=d):
                        cnt = {}

                        def counter(m, a, ci):
                            nd = T._node(m, a[2])
                            cnt[nd.nid] = cnt.get(nd.nid, 0) + 1
                            return NotImplemented           # count, then run the real function

                        texts = {}

                        def into_text(m, a, ci):
                            nd = m.load(a[0]) if isinstance(a[0], Ref) else a[0]
                            if hasattr(nd, 'nid'):
                                texts[nd.nid] = texts.get(nd.nid, 0) + 1
                            return NotImplemented
                        m = S.machine(core, STD, ctx, overrides={'convert_expr_impl': counter, 'SyntaxNode::into_text': into_text}, max_steps=5000000)
                        m.max_depth = 4000
                        root = deep.build(ctx, tree, kt, [0], concrete_ws=True)
                        # widths: one path per representative (the only arithmetic on the width is the float product of chain_width, which
                        # is decided for every width in C05; enumerating keeps floating-point reasoning out of these deep runs)
                        WIDTHS = (0, 20, 40, 80, 120, 1 << 40)
                        wsel = z3.Int('width_choice')
                        width = WIDTHS[ctx.choose([wsel == q for q in range(len(WIDTHS))])]
                        cfg = Agg('Config', None, (z3.BitVec('cfg_tab', 64), width, 2, False), pp.CFG_NAMES)
                        ctx.assume(z3.ULT(cfg.fields[0], 1 << 31))

                        def describe(mdl):
                            return dict(family=variant, depth=d, source=src, tab=model_int(mdl, cfg.fields[0]), width=width)
                        try:
                            attrs = m.call_fn(f_attr, [root])
                            pr, _ = pp.printer(m, cfg=cfg, attrs=attrs)
                            m.call_fn(f_markup, [pr, pp.context(mode=0, suppressed=False), T.Ast('Markup', root)])
                        except Panic as p:
                            S.absorb(m)
                            ctx.must_hold(False, 'C05:printer-panic', lambda mdl: dict(describe(mdl), panic=p.msg))
                            return
                        S.absorb(m)
                        worst = max(cnt.values()) if cnt else 0
                        ctx.must_hold(worst <= 1, prefix + ':node-converted-more-than-once', lambda mdl: dict(describe(mdl), conversions_of_one_node=worst, conversions_total=sum(cnt.values())))
                        worst_t = max(texts.values()) if texts else 0
                        ctx.must_hold(worst_t <= 2, prefix + ':subtree-text-built-repeatedly', lambda mdl: dict(describe(mdl), into_text_calls_on_one_node=worst_t))
                        # blocks of typstyle's own MIR executed on this path, per syntax node (checked across depths after the batch)
                        ctx.ex.witness.setdefault('blocks_per_node', 0)
                        ctx.ex.witness['blocks_per_node'] = max(ctx.ex.witness['blocks_per_node'], round(m.steps / float(size_of(tree)), 2))
                    tasks.append(('work.%s[depth=%d]' % (variant, d), 'the whole printer on %s at nesting depth %d: conversions per node, executed blocks per node' % (variant, d),
                                  body, dict(family=variant, depth=d, nodes=size_of(tree))))
                    metas.append((variant, d, src))
    results = S.explore_batch(tasks)
    found = []
    for (ob, viol), (variant, d, src) in zip(results, metas):
        for lab, mdl, info in viol:
            found.append((lab, info))
        bpn = ob.witnesses.get('blocks_per_node')
        if isinstance(bpn, (int, float)) and not ob.status.startswith('inconclusive'):
            table.setdefault(variant, {})[d] = (bpn, src)
    # (2) executed blocks per node do not grow with depth
    growth = []
    for variant, row in sorted(table.items()):
        ds = sorted(row)
        for a, b in zip(ds, ds[1:]):
            if row[b][0] > 1.25 * row[a][0] + 8:
                growth.append(dict(family=variant, depth=b, source=row[b][1], blocks_per_node={str(k): row[k][0] for k in ds}))
                break
    S.validation['blocks_per_node'] = {v: {str(k): row[k][0] for k in sorted(row)} for v, row in sorted(table.items())}
    S.validation['families'] = len(table)
    if len(table) < 20:
        S.inconclusive.append('vacuity: only %d family variants were executed' % len(table))
    for g in growth:
        found.append((prefix + ':work-per-node-grows-with-depth', g))
    # ---- native confirmation: the same growth must show in the real formatter's running time ---------------------------------------
    groups = {}
    for lab, info in found:
        if lab.startswith(prefix + ':') and 'panic' not in lab:
            groups.setdefault((lab, info['family']), []).append(info)
    reported = set()
    for (lab, fam), infos in sorted(groups.items()):
        base = fam.split(',')[0]
        if (lab, base) in reported:
            continue            # the one-line / multi-line / text-line spellings of a family are one finding
        w = confirm_growth(S, fam, [i.get('width', 80) for i in infos[:3]])
        key = '%s:%s' % (lab, base)
        if w:
            reported.add((lab, base))
            S.violation(key, '%s: %s' % (key, w['what']), dict(api=w, model=infos[0], spellings=sorted(f for (l2, f) in groups if l2 == lab and f.split(',')[0] == base)))
        elif all((lab, f) in groups for f in (fam,)) and fam == sorted(f for (l2, f) in groups if l2 == lab and f.split(',')[0] == base)[-1]:
            S.inconclusive.append('%s: the solver-decided count (%r) does not show as super-linear running time natively' % (key, infos[0]))
    return found


def run(S):
    found = explore(S, 8 if S.tier == 'quick' else 16)
    deep.report(S, 'C05', [(l, i) for l, i in found if l.startswith('C05:')])
    S.assumptions += [
        'foreign functions are counted as one step; only SyntaxNode::into_text (linear in the subtree) is counted per node',
        'whitespace is concrete in these sources; indent unit and width symbolic; Context::default() as in lib.rs',
    ]
    return S.finish(level='other', explanation=EXPLANATION, trusted=['mirsym encoder', 'typst-syntax contracts', 'the real parser for the node trees (driver)'])


def confirm_growth(S, variant, widths=(80,)):
    """time the real formatter on the family at growing depths: doubling the depth must not more than quadruple the time, and stays below a second"""
    import time
    parts = variant.split(',')
    gen = FAMILIES[parts[0]]
    nl = '\n' if 'multi-line' in parts else ''
    pre = 'text ' if 'text-line' in parts else ''
    for width in list(dict.fromkeys(min(int(w), 1 << 40) for w in widths)) + [80]:
        times = {}
        for d in (4, 8, 12, 16, 20, 24):
            src = pre + gen(d, nl) + '\n'
            if S.driver.call('erroneous', hexs(src))[1] == '1':
                break
            t = time.time()
            r = S.driver.call('format', hexs(src), width, 2, 0)
            dt = time.time() - t
            times[d] = dt
            if r[0] != 'ok' or dt > 1.5:
                break
        ds = sorted(times)
        for a, b in zip(ds, ds[1:]):
            if times[b] > 0.05 and times[b] > (b / float(a)) ** 2 * 2.0 * max(times[a], 0.002):
                return dict(api='Typstyle::format_content', family=variant, width=width, seconds={str(k): round(v, 4) for k, v in times.items()},
                            what='running time of the real formatter (width %d) grows faster than quadratically with the nesting depth of %s: %r' % (width, variant, {k: round(v, 3) for k, v in times.items()}))
    return None
