"""ListStylist (layout/list.rs): process_iterable_impl .. print_doc over symbolic child sequences and styles.

Obligations used by C04 (a line comment is always followed by a line break; single-element trailing separator),
C06 (comments and items conserved, in order) and C05 (panic freedom).
"""
import itertools
import z3

from mirsym.values import *
from mirsym.explore import Panic
from mirsym import models_typst as T
from mirsym import models_doc as D
from mirsym.models_std import STD, Str, Vec, is_ws, c_eq, valid_scalar, ListIter
from mirsym.models_typst import Node
from mirsym.session import hexs, unhexs
from . import pp
from .common import *
from .markup import is_newline, NEWLINES

STYLE_FIELDS = ('separator', 'delim', 'tight_delim', 'add_delim_space', 'add_trailing_sep_single', 'add_trailing_sep_always',
                'omit_delim_single', 'omit_delim_flat', 'omit_delim_empty', 'no_indent')


def render(d, flat, out):
    """atoms under pretty's group semantics: a group is flat iff its flat projection holds no hardline and the caller prefers flat"""
    k = d.k
    if k == 'nil':
        return
    if k == 'text':
        out.append(('t', d.a))
    elif k == 'hardline':
        out.append(('nl',))
    elif k == 'cat':
        render(d.a, flat, out)
        render(d.b, flat, out)
    elif k == 'group':
        if flat:
            render(d.a, True, out)
        else:
            tmp = []
            render(d.a, True, tmp)
            if render.prefer_flat and not any(a == ('nl',) for a in tmp):
                out.extend(tmp)
            else:
                render(d.a, False, out)
    elif k == 'nest':
        render(d.b, flat, out)
    elif k == 'align':
        render(d.a, flat, out)
    elif k == 'flat_alt':
        render(d.b if flat else d.a, flat, out)
    elif k == 'opaque':
        out.append(('o', d.a, d.b))
    else:
        raise ValueError(k)


def atoms_modes(doc):
    res = {}
    for name, pf in (('broken', False), ('flat-where-possible', True)):
        render.prefer_flat = pf
        out = []
        render(doc, False, out)
        res[name] = out
    # the fragment inside an enclosing group that is laid out flat (possible only when the fragment holds no hard line break at all)
    render.prefer_flat = True
    out = []
    render(doc, True, out)
    if ('nl',) not in out and out != res.get('flat-where-possible'):
        res['enclosing-group-flat'] = out
    return res


KINDS = ['item', 'line', 'block', 'comma', 'space', 'hash']


def call_site_styles(S):
    """every `ListStyle { .. }` aggregate in the fresh MIR dump: constant fields concrete, others symbolic (None)"""
    core = S.core
    defaults = None
    sites = []
    for name, fn in core.fns.items():
        if 'ListStyle {' not in '\n'.join(fn.raw_lines):
            continue
        fn.ensure_parsed()
        assigns = {}
        default_locals = set()
        from mirsym.mirparse import Operand, Rvalue
        for b, blk in fn.blocks.items():
            for st in blk.stmts:
                if st.kind == 'assign' and not st.place.proj:
                    assigns.setdefault(st.place.local, []).append(st.rv)
            t = blk.term
            if t is not None and t.kind == 'call' and not t.dest.proj:
                if 'ListStyle as Default>::default' in t.func:
                    default_locals.add(t.dest.local)
                else:
                    assigns.setdefault(t.dest.local, []).append(Rvalue('callresult', t.func))

        def const_of(op):
            if op.kind == 'const':
                c = op.const
                if c.kind == 'bool':
                    return c.val
                if c.kind == 'str':
                    return ''.join(chr(x) for x in c.val)
                return None
            pl = op.place
            if not pl.proj:
                rvs = assigns.get(pl.local, [])
                if len(rvs) == 1:
                    rv = rvs[0]
                    if rv.kind == 'use':
                        return const_of(rv.a)
                    if rv.kind == 'callresult':
                        return ('sym', pl.local)
                    if rv.kind == 'ref' and not rv.a.proj:
                        return const_of(Operand('copy', rv.a))
                    if rv.kind == 'unop' and rv.a == 'Not':
                        inner = const_of(rv.b)
                        if isinstance(inner, bool):
                            return not inner
                        if isinstance(inner, tuple) and inner and inner[0] in ('sym', 'not'):
                            return ('not', inner)
                        return None
                    if rv.kind == 'tuple':
                        vals = [const_of(o) for o in rv.a]
                        return tuple(vals) if all(isinstance(v, str) for v in vals) else None
                    return None
                if len(rvs) > 1:
                    # assigned on several branches: tuples of constants are offered as alternatives
                    alts = []
                    for rv in rvs:
                        if rv.kind == 'tuple':
                            vals = [const_of(o) for o in rv.a]
                            if all(isinstance(v, str) for v in vals):
                                alts.append(tuple(vals))
                    if alts and len(alts) == len(rvs):
                        # two alternatives assigned on the arms of one `if <bool local>`: tie the choice to that local, which other
                        # fields of the same style may depend on as well (`delim` and `tight_delim` both follow `is_explicit`)
                        if len(alts) == 2:
                            arms = {}
                            for bid, blk in fn.blocks.items():
                                for st in blk.stmts:
                                    if st.kind == 'assign' and not st.place.proj and st.place.local == pl.local and st.rv.kind == 'tuple':
                                        vals = tuple(const_of(o) for o in st.rv.a)
                                        arms[bid] = vals
                            if len(arms) == 2:
                                for bid, blk in fn.blocks.items():
                                    t = blk.term
                                    if t is not None and t.kind == 'switch' and t.targets and len(t.targets) == 1 and t.otherwise is not None:
                                        (val0, tgt0), = list(t.targets.items()) if isinstance(t.targets, dict) else [tuple(x) for x in t.targets]
                                        if {tgt0, t.otherwise} == set(arms) and val0 == 0:
                                            cond = const_of(t.op)
                                            if isinstance(cond, tuple) and cond and cond[0] in ('sym', 'not'):
                                                return ('alts_by', cond, arms[t.otherwise], arms[tgt0])      # (condition, value if true, value if false)
                        return ('alts', tuple(alts))
                    return ('sym', pl.local)
                # never assigned by a statement: parameter or call result -> one symbolic value per local
                return ('sym', pl.local)
            if len(pl.proj) == 1 and pl.proj[0][0] == 'field' and pl.local in default_locals:
                return ('default', pl.proj[0][1])
            return None
        afi = None
        has_afi = any(blk.term is not None and blk.term.kind == 'call' and 'always_fold_if' in blk.term.func for blk in fn.blocks.values())
        if has_afi:
            for b, blk in fn.blocks.items():
                for st in blk.stmts:
                    if st.kind == 'assign' and st.rv.kind == 'adt_struct' and st.rv.a.startswith('{closure@') and len(st.rv.b) == 1:
                        loc = st.rv.a[len('{closure@'):-1]
                        cf = core.closures_by_loc.get(loc)
                        if cf is not None and cf.ensure_parsed() and cf.ret_ty == 'bool' and len(cf.params) == 1:
                            afi = const_of(st.rv.b[0][1])
            if afi is None:
                afi = ('sym', -1)
        for b, blk in fn.blocks.items():
            for st in blk.stmts:
                if st.kind == 'assign' and st.rv.kind == 'adt_struct' and st.rv.a.split('::')[-1].startswith('ListStyle'):
                    fields = {n: const_of(o) for n, o in st.rv.b}
                    fields['_afi'] = afi
                    if name.endswith('::default') and 'list.rs' in name:
                        defaults = fields
                    else:
                        sites.append((name.rsplit('>::', 1)[-1] if '>::' in name else name, fields))
    if defaults is None:
        raise Exception('ListStyle::default not found')
    out = []
    for nm, fields in sites:
        f2 = {}
        for i, n in enumerate(STYLE_FIELDS):
            v = fields.get(n)
            if isinstance(v, tuple) and len(v) == 2 and v[0] == 'default':
                v = defaults[STYLE_FIELDS[v[1]]]
            f2[n] = v
        f2['_afi'] = fields.get('_afi')
        out.append((nm, f2))
    return out


def explore(S, K, want=('C04', 'C05', 'C06'), cats=None, between_items=False, focus_last=False):
    kt = T.KT
    core = S.core
    f_new = S.find_fn(core, 'ListStylist::new')
    f_fold = S.find_fn(core, 'ListStylist::with_fold_style')
    f_front = S.find_fn(core, 'ListStylist::disallow_front_comment')
    f_keep = S.find_fn(core, 'ListStylist::keep_linebreak')
    f_proc = S.find_fn(core, 'ListStylist::process_iterable_impl')
    f_print = S.find_fn(core, 'ListStylist::print_doc')
    f_afi = S.find_fn(core, 'ListStylist::always_fold_if')
    found = []

    def sequences(k):
        for combo in itertools.product(cats or KINDS, repeat=k):
            ok = True
            for i, c in enumerate(combo):
                # lexer fact: a line comment is followed (if anything follows in this node) by whitespace holding the line end
                if c == 'line' and i + 1 < k and combo[i + 1] != 'space':
                    ok = False
                # two adjacent whitespace tokens do not exist
                if c == 'space' and i + 1 < k and combo[i + 1] == 'space':
                    ok = False
            if between_items and (k < 2 or combo[0] != 'item' or combo[-1] != 'item'):
                ok = False
            # quick tier: the longest sequences only where they add something over the shorter ones - at least two comments
            if focus_last and k == K and k >= 3 and sum(1 for c in combo if c in ('line', 'block')) < 2:
                ok = False
            if ok:
                yield combo

    styles = call_site_styles(S)
    S.validation['list_style_call_sites'] = [dict(site=n, style={k: (repr(v) if v is not None else 'symbolic') for k, v in f.items()}) for n, f in styles]

    def make_body(combo, site, sfields):
        def body(ctx):
            m = S.machine(core, STD, ctx)
            nodes = []
            tags = []
            for i, c in enumerate(combo):
                if c == 'item':
                    nd = Node(kt.k('Ident'), text=Str.lit('i%d' % i))
                elif c == 'line':
                    nd = Node(kt.k('LineComment'), text=Str.lit('//c%d' % i))
                elif c == 'block':
                    nd = Node(kt.k('BlockComment'), text=Str.lit('/*c%d*/' % i))
                elif c == 'comma':
                    nd = Node(kt.k('Comma'), text=Str.lit(','))
                elif c == 'hash':
                    nd = Node(kt.k('Hash'), text=Str.lit('#'))
                else:
                    c0 = z3.BitVec('sp%d_0' % i, 32)
                    c1 = z3.BitVec('sp%d_1' % i, 32)
                    for cc in (c0, c1):
                        ctx.assume(valid_scalar(cc))
                        ctx.assume(is_ws(cc))
                    if i > 0 and combo[i - 1] == 'line':
                        ctx.assume(is_newline(c0))
                    nd = Node(kt.k('Space'), text=Str((c0, c1)))
                nodes.append(nd)
                tags.append(c)

            def checker(mm, args):
                node = mm.load(args[1]) if isinstance(args[1], Ref) else args[1]
                if node.kind == kt.k('Ident'):
                    return some(D.opaque_doc('item', (node.nid,)))
                return NONE
            pr, cfg = pp.printer(m)
            fold = z3.BitVec('fold', 64)
            ctx.assume(z3.ULT(fold, 3))
            front = z3.Bool('disallow_front_comment')
            keep = z3.Bool('keep_linebreak')
            def flag(n):
                v = sfields[n]
                if n == '_afi' and v is None:
                    return None
                if isinstance(v, bool):
                    return v
                if isinstance(v, tuple) and v[0] == 'sym':
                    return z3.Bool('local_%d' % v[1])
                if isinstance(v, tuple) and v[0] == 'not':
                    x = v[1]
                    neg = True
                    while x[0] == 'not':
                        x = x[1]
                        neg = not neg
                    b = z3.Bool('local_%d' % x[1])
                    return z3.Not(b) if neg else b
                return z3.Bool(n)
            sty_flags = [flag(n) for n in STYLE_FIELDS[2:]]
            use_sep = sfields['separator'] != '' if sfields['separator'] is not None else z3.Bool('separator_comma')
            sepv = sfields['separator'] if sfields['separator'] is not None else ','
            sep = Str.lit(sepv) if ctx.branch(use_sep) else Str(())
            dv = sfields['delim']
            if isinstance(dv, tuple) and dv and dv[0] == 'alts_by':
                x = dv[1]
                neg = False
                while x[0] == 'not':
                    x = x[1]
                    neg = not neg
                cond_b = z3.Bool('local_%d' % x[1])
                taken = ctx.branch(z3.Not(cond_b) if neg else cond_b)
                dl = dv[2] if taken else dv[3]
            elif isinstance(dv, tuple) and dv and dv[0] == 'alts':
                dl = dv[1][ctx.choose([z3.Int('delim_alt') == i for i in range(len(dv[1]))])]
            elif isinstance(dv, tuple) and len(dv) == 2 and all(isinstance(x, str) for x in dv):
                dl = dv
            else:
                dl = ('(', ')')
            if dl[0] == '' and 'item' not in combo:
                return            # a delimiter-less list (a row of math arguments) exists only around at least one item
            style = Agg('ListStyle', None, (sep, tup(Str.lit(dl[0]), Str.lit(dl[1]))) + tuple(sty_flags), STYLE_FIELDS)

            def describe(mdl):
                return dict(site=site, children=list(combo), fold=('Fit', 'Never', 'Always')[model_int(mdl, fold)],
                            disallow_front_comment=model_bool(mdl, front), keep_linebreak=model_bool(mdl, keep),
                            separator=',' if model_bool(mdl, use_sep) else '',
                            style={n: model_bool(mdl, v) for n, v in zip(STYLE_FIELDS[2:], sty_flags)},
                            spaces={str(i): nodes[i].text.concrete(mdl) for i, c in enumerate(combo) if c == 'space'})
            try:
                st = m.call_fn(f_new, [pr])
                st = m.call_fn(f_fold, [st, CEnum('FoldStyle', fold, 64)])
                if ctx.branch(front):
                    st = m.call_fn(f_front, [st])
                if ctx.branch(keep):
                    st = m.call_fn(f_keep, [st, 2])
                st = m.call_fn(f_proc, [st, pp.context(), ListIter(nodes), PyFn(checker, 'item_checker')])
                afi = flag('_afi')
                if afi is not None:
                    st = m.call_fn(f_afi, [st, PyFn(lambda mm, args: afi, 'always_fold_if predicate')])
                doc = m.call_fn(f_print, [st, style])
            except Panic as p:
                S.absorb(m)
                if 'C05' in want:
                    ctx.must_hold(False, 'C05:list-panic', lambda mdl: dict(describe(mdl), panic=p.msg))
                return
            S.absorb(m)
            try:
                modes = atoms_modes(doc)
            except ValueError as e:
                ctx.must_hold(False, 'C04:list-doc-shape', describe)
                return
            line_texts = {('//c%d' % i) for i, c in enumerate(combo) if c == 'line'}
            block_texts = {('/*c%d*/' % i) for i, c in enumerate(combo) if c == 'block'}
            expected = []
            for i, c in enumerate(combo):
                if c == 'item':
                    expected.append(('item', nodes[i].nid))
                elif c == 'line':
                    expected.append(('cmt', '//c%d' % i))
                elif c == 'block':
                    expected.append(('cmt', '/*c%d*/' % i))
            for mode, at in modes.items():
                seq = []
                swallowed = False
                for j, a in enumerate(at):
                    if a[0] == 'o' and a[1] == 'item':
                        seq.append(('item', a[2][0]))
                    elif a[0] == 't' and a[1].is_concrete():
                        s = a[1].concrete()
                        if s in line_texts or s in block_texts:
                            seq.append(('cmt', s))
                        if s in line_texts and j + 1 < len(at) and at[j + 1] != ('nl',):
                            swallowed = True
                if 'C04' in want:
                    ctx.must_hold(not swallowed, 'C04:line-comment-not-followed-by-line-break',
                                  lambda mdl, mode=mode, at=at: dict(describe(mdl), mode=mode, atoms=show_atoms(at)))
                if 'C04' in want and dl[0] != '':
                    has_open = any(a[0] == 't' and a[1].is_concrete() and a[1].concrete() == dl[0] for a in at)
                    has_close = any(a[0] == 't' and a[1].is_concrete() and a[1].concrete() == dl[1] for a in at)
                    has_nl = any(a == ('nl',) for a in at)
                    ctx.must_hold(has_open == has_close, 'C04:unbalanced-list-delimiters',
                                  lambda mdl, mode=mode, at=at: dict(describe(mdl), mode=mode, atoms=show_atoms(at)))
                    ctx.must_hold(has_open or not has_nl, 'C04:delimiters-omitted-on-multi-line-list',
                                  lambda mdl, mode=mode, at=at: dict(describe(mdl), mode=mode, atoms=show_atoms(at)))
                if 'C03' in want and not any(a == ('nl',) for a in at):
                    # a list laid out on one line must already be in its final form: no doubled blank, no blank before a separator
                    dbl = False
                    for a, b in zip(at, at[1:]):
                        if a[0] == 't' and b[0] == 't' and a[1].is_concrete() and b[1].is_concrete() and a[1].concrete() == ' ' and b[1].concrete() in (' ', ','):
                            dbl = True
                    ctx.must_hold(not dbl, 'C03:one-line-list-layout-is-not-a-fixed-point',
                                  lambda mdl, mode=mode, at=at: dict(describe(mdl), mode=mode, atoms=show_atoms(at)))
                if 'C06' in want:
                    ctx.must_hold(seq == expected, 'C06:list-comments-or-items-not-conserved',
                                  lambda mdl, mode=mode, at=at: dict(describe(mdl), mode=mode, atoms=show_atoms(at)))
            if 'C04' in want and combo.count('item') == 1 and 'line' not in combo and 'block' not in combo:
                # one real item and add_trailing_sep_single: the separator follows the item whenever the delimiters are printed
                for mode, at in modes.items():
                    idx = [j for j, a in enumerate(at) if a[0] == 'o']
                    has_open = any(a[0] == 't' and a[1].is_concrete() and a[1].concrete() == dl[0] for a in at)
                    if idx and has_open:
                        nxt = at[idx[0] + 1] if idx[0] + 1 < len(at) else None
                        is_sep = nxt is not None and nxt[0] == 't' and nxt[1].is_concrete() and nxt[1].concrete() == sepv
                        ctx.must_hold(b_implies(b_and(sty_flags[2], use_sep), is_sep), 'C04:single-element-trailing-separator-missing',
                                      lambda mdl, mode=mode, at=at: dict(describe(mdl), mode=mode, atoms=show_atoms(at)))
            if 'line' in combo:
                ctx.witness('list with line comment')
            ctx.witness('tight delimiters', sty_flags[0])
        return body

    seen_styles = set()
    tasks = []
    for site, sfields in styles:
        key = repr(sorted(sfields.items(), key=lambda kv: kv[0]))
        if key in seen_styles:
            continue
        seen_styles.add(key)
        for k in range(0, K + 1):
            for combo in sequences(k):
                tasks.append(('list@%s[%s]' % (site, ','.join(combo)),
                              'ListStylist with the ListStyle built in %s over children %r, every fold style and stylist option' % (site, combo),
                              make_body(combo, site, sfields), dict(children=k, style_site=site)))
    for ob, viol in S.explore_batch(tasks):
        for lab, mdl, info in viol:
            found.append((lab, info))
    return found


def show_atoms(at):
    out = []
    for a in at:
        if a[0] == 'nl':
            out.append('<NL>')
        elif a[0] == 't':
            out.append(a[1].concrete() if a[1].is_concrete() else '<text>')
        else:
            out.append('<%s>' % a[1])
    return ' '.join(out)


# -- native confirmation over a corpus of real list constructs with comments --------------------------------

def corpus(nl='\n'):
    ctxs = [
        ('args', '#f(%s)\n'), ('array', '#(%s)\n'), ('dict', '#(k: %s)\n'), ('params', '#let f(%s) = 1\n'), ('destruct', '#let (%s) = x\n'),
        ('import', '#import "m.typ": %s\n'), ('inline-eq', 'a $%s$ b\n'), ('block-eq', '$ %s $\n'), ('inline-args', 'text #f(%s) more\n'),
        ('math-args', '$ f(%s) $\n'), ('strong-args', '*b #f(%s)*\n'), ('closure', '#let g = (%s) => 1\n'), ('code-block', '#{%s}\n'), ('code-block', '#f({%s})\n'),
        # the same lists inside another list that may be laid out flat (an enclosing flat group turns optional breaks into blanks)
        ('inline-eq', '#f($%s$)\n'), ('array', '#f((%s))\n'), ('args', '#f(g(%s))\n'), ('inline-eq', '#($%s$, 1)\n'), ('dict', '#f((k: %s))\n'),
        ('params', '#f((%s) => 1)\n'), ('destruct', '#f({ let (%s) = x })\n'), ('math-args', '#f($g(%s)$)\n'),
    ]
    bodies = ['x// c\n', 'x // c\n', '// c\nx', 'x, // c\ny', 'x // c\n, y', 'x, y // c\n', 'x /* c */', '/* c */ x', 'x, /* c */ y', '\n// c\nx\n', 'x\n// c\n',
              'x,// c\n', 'x /* a */ // c\n', '// c\n', '/* c */',
              # several comments in one list: a line comment followed by a block comment, by another line comment, ...
              'x // c\n/* d */', 'x // c\n/* d */ y', '// c\n/* d */', 'x, // c\n/* d */ y', '/* d */ x // c\n/* e */', 'x // c\n// d\n', 'x // c\n/**/', '// c\n/* d */ x']
    for cname, tpl in ctxs:
        for b in bodies:
            yield cname, tpl % b.replace('\n', nl)
    for src in ('$x_#text(red)[y]$\n', '$mat(#box(width: 1em)[y], 2)$\n', '$a^#f(1)[b] / #g(2)[c]$\n', '$sqrt(#h(1em)[z])$\n', '$#f(1)[y]$\n', '#let v = #f(1)\n' if False else '$ #(1 + 2) $\n'):
        yield 'math-hash', src
    # expressions that get wrapped in parentheses / braces when broken (optional_paren, convert_expr_with_optional_paren)
    for src in ('#let f = x => y = aaaaaaaaaaaa * bbbbbbbbbbbbbbb * ccccccccccccc\n', '#items.map(it => total += it.price * it.count * (1 - it.discount))\n',
                '#let same = (a, b) => return a.len() > 0 and b.len() > 0 and a.first() == b.first()\n', '#{\n  let pick = it => let v = it.width / 2 - margin.left - margin.right\n}\n',
                '#let h = x => aaaaaaaa + bbbbbbbbb + ccccccccc\n', '#let a = bbbbbbbbb + ccccccccc + ddddddddd\n', '#if aaaaaa and bbbbbbb and ccccccc { }\n',
                '#while aaaaaa or bbbbbbb or ccccccc { }\n', '#for x in aaaaaaa + bbbbbbbb + ccccccc { }\n', '#{\n  return aaaaaaa + bbbbbbbb + ccccccc\n}\n',
                '#show: it => it.a + it.b + it.c\n', '#let g = x => if x.a and x.b { 1 } else { 2 }\n', '#let k = not aaaaaaa and not bbbbbbb\n',
                '#{\n  x = aaaaaaa + bbbbbbbb + ccccccc\n}\n', '#{\n  x += aaaaaaa * bbbbbbbb * ccccccc\n}\n', '#let f(x) = x.a + x.b + x.c\n',
                '#context aaaaaaa + bbbbbbbb + ccccccc\n', '#f(k: aaaaaaa + bbbbbbbb + ccccccc)\n', '#(k: aaaaaaa + bbbbbbbb + ccccccc)\n'):
        if nl == '\n':
            yield 'wrapped', src
    if nl != '\n':
        for src in ('// c%sa\n', '#let x = 1 // c%s#let y = 2\n', '#{%s  let a = 1 // c%s  let b = 2%s}\n', '$ x // c%s y $\n', '#f(1, // c%s 2)\n'):
            yield 'non-LF-newline', src.replace('%s', nl)


SITE_CONTEXTS = {
    'convert_params': ('closure', 'params'), 'convert_equation': ('inline-eq', 'block-eq'), 'convert_array': ('array', 'math-args'),
    'convert_import_items': ('import',), 'convert_destructuring': ('destruct',), 'convert_dict': ('dict',), 'convert_code_block': ('code-block',),
    'convert_parenthesized_args': ('args', 'inline-args', 'strong-args', 'math-args'), 'convert_parenthesized_impl': (),
}


def native_sweep(S, prop, all_hits=False, nl='\n'):
    """search the corpus for sources whose formatted output is erroneous (C04) or loses/reorders comments (C06)"""
    hits = []
    for cname, src in corpus(nl):
        e = S.driver.call('erroneous', hexs(src))
        if e[0] != 'ok' or e[1] == '1':
            continue
        for width in (80, 0):
            r = S.driver.call('format', hexs(src), width, 2, 0)
            w = None
            if r[0] in ('panic', 'abort'):
                w = dict(api='Typstyle::format_content', context=cname, source=src, width=width, what='panic on %s' % show(src))
            elif r[0] == 'ok':
                out = unhexs(r[1])
                if prop == 'C04' and S.driver.call('erroneous', r[1])[1] == '1':
                    w = dict(api='Typstyle::format_content', context=cname, source=src, width=width, output=out,
                             what='well-formed %s (%s, width %d) is formatted to text with syntax errors: %s' % (show(src), cname, width, show(out)))
                if prop == 'C06':
                    a = S.driver.call('comments', hexs(src))
                    b = S.driver.call('comments', r[1])
                    if a[0] == 'ok' and b[0] == 'ok' and a[1:] != b[1:]:
                        w = dict(api='Typstyle::format_content', context=cname, source=src, width=width, output=out,
                                 what='comments of %s (%s) changed: %r -> %r in %s' % (show(src), cname, [unhexs(x) for x in a[1:]], [unhexs(x) for x in b[1:]], show(out)))
            if w:
                if not all_hits:
                    return w
                hits.append(w)
                break
    return hits if all_hits else None


IDEM_CORPUS = ['#f(a, b,\n\n c)\n', '#f(a,\n\n\n b)\n', '#(a, b,\n\n c)\n', '#let f(a, b,\n\n c) = 1\n', '#(k: 1, j: 2,\n\n l: 3)\n',
               '#let (a, b,\n\n c) = x\n', '#{a; b\n\n c}\n', '#import "m.typ": a, b,\n\n c\n', '$ f(a, b,\n\n c) $\n',
               # bodies that get braces / parentheses when broken: what is inside must read back as one expression
               '#let f = x => y = aaaaaaaa + bbbbbbbbb + ccccccccc\n', '#let add(x) = total += x.width + x.height - x.margin\n', '#f(x => return aaaaaaaa - bbbbbbbbb + ccccccccc)\n',
               '#let h = x => aaaaaaaa + bbbbbbbbb - ccccccccc\n', '#let a = bbbbbbbbb + ccccccccc - ddddddddd\n', '#for x in aaaaaaa + bbbbbbbb - ccccccc { }\n',
               '#{\n  return aaaaaaa - bbbbbbbb + ccccccc\n}\n', '#show: it => it.a + it.b - it.c\n', '#f(k: aaaaaaa + bbbbbbbb - ccccccc)\n', '#context aaaaaaa + bbbbbbbb - ccccccc\n']


def native_idempotence(S):
    for src in IDEM_CORPUS:
        if S.driver.call('erroneous', hexs(src))[1] == '1':
            continue
        for w in (80, 20, 10, 0):
            a = S.driver.call('format', hexs(src), w, 2, 0)
            if a[0] != 'ok':
                continue
            b = S.driver.call('format', a[1], w, 2, 0)
            if b[0] != 'ok' or b[1] != a[1]:
                return dict(api='format(format(x))', source=src, width=w, first=unhexs(a[1]), second=unhexs(b[1]) if b[0] == 'ok' else b[0],
                            what='format is not idempotent on %s (width %d): %s then %s' % (show(src), w, show(unhexs(a[1])), show(unhexs(b[1]) if b[0] == 'ok' else b[0])))
    return None


def report(S, prop, found):
    labs = sorted({lab for lab, info in found if lab.startswith(prop + ':')})
    if not labs:
        return
    if prop == 'C03':
        w = native_idempotence(S)
        for lab in labs:
            info = [i for l, i in found if l == lab][0]
            if w:
                S.violation(lab, '%s: %s' % (lab, w['what']), dict(api=w, model=info))
            else:
                S.inconclusive.append('%s: the solver model (%r) has no reproduction in the native corpus' % (lab, info))
        return
    hits = native_sweep(S, prop, all_hits=True)
    for lab in labs:
        infos = [i for l, i in found if l == lab]
        chosen = None
        # models that hinge on a newline character other than LF are confirmed on the corpus rewritten with that character
        for info in infos[:3]:
            nls = [v[0] for v in (info.get('spaces') or {}).values() if v and ord(v[0]) in NEWLINES and v[0] != '\n' and '\n' not in v]
            if nls:
                h2 = native_sweep(S, prop, all_hits=True, nl=nls[0])
                h2 = [h for h in h2 if h['source'] not in {x['source'] for x in hits}]
                if h2:
                    chosen = (info, h2[0])
                    lab_key = lab + ':non-LF-newline'
                    S.violation(lab_key, '%s: %s' % (lab_key, h2[0]['what']), dict(api=h2[0], model=info))
                    break
        if chosen:
            continue
        for info in infos:
            ctxs = SITE_CONTEXTS.get(info.get('site'), ())
            want_line = 'line' in info.get('children', [])
            for h in hits:
                if h['context'] in ctxs and (('//' in h['source']) == want_line):
                    chosen = (info, h)
                    break
            if chosen:
                break
        if not chosen:
            for info in infos:
                want_line = 'line' in info.get('children', [])
                for h in hits:
                    if ('//' in h['source']) == want_line:
                        chosen = (info, h)
                        break
                if chosen:
                    break
        if chosen:
            S.violation(lab, '%s: %s' % (lab, chosen[1]['what']), dict(api=chosen[1], model=chosen[0]))
        else:
            S.inconclusive.append('%s: the solver model (%r) has no reproduction in the native corpus' % (lab, infos[0]))


ASSUMPTIONS = [
    'lexer facts: a line comment is followed, within its parent, by a whitespace token that starts with a Typst newline; whitespace tokens are not adjacent',
    'item converters are opaque (one opaque atom per item); comment texts are fixed distinct literals (their text handling is decided in comment.* obligations)',
    'group semantics of pretty: a group is flat only if its flat projection holds no hard line break; flat_alt picks per mode; two global modes are observed (all broken / flat wherever possible)',
]
