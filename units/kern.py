"""String kernels of utils.rs / ext.rs decided over all UTF-8 strings up to N code points."""
import random
import z3

from mirsym.values import *
from mirsym.explore import Panic
from mirsym.models_std import STD, Str, sym_str, is_ws, c_eq, str_eq, utf8len
from mirsym.session import hexs, unhexs
from .common import *

# sources that embed an arbitrary text fragment so that it reaches the renderer verbatim
EMBEDDINGS = [
    ('raw-block', lambda s: '```\n' + s + '\n```\n'),
    ('block-comment', lambda s: '/* ' + s + ' */\n'),
    ('document', lambda s: s),
    ('string', lambda s: '#"' + s + '"\n'),
    ('indented-code', lambda s: '#{\n  let a = 1\n\n  /* ' + s + ' */\n  let b = 2\n}\n'),
]


def random_strings(seed, count, maxlen):
    rnd = random.Random(seed)
    alphabet = [' ', ' ', '\t', '\n', '\n', '\r', 'a', 'b', '*', '/', ' ', ' ', '　', '\u0085', 'é', '😀', '\x0b', '\x0c']
    out = ['', ' ', '\n', ' \n - \n', ' \n - \n ', 'a\r\n', 'a \r\n b\r', '\r', 'a ']
    for _ in range(count):
        n = rnd.randint(0, maxlen)
        out.append(''.join(rnd.choice(alphabet) for _ in range(n)))
    return out


def validate_translation(S, name, fn, samples, native, decode):
    """translator validation: run the encoder concretely and the real function natively on the same inputs"""
    from mirsym import explore
    bad = 0
    n = 0
    for inp in samples:
        got = {}

        def body(ctx):
            m = S.machine(S.core, STD, ctx)
            try:
                got['v'] = ('ok', decode(m.call_fn(fn, inp['args'])))
            except Panic:
                got['v'] = ('panic',)
        ex = explore.Explorer(timeout_ms=10000)
        ex.run(body)
        if ex.stats.paths != 1:
            raise explore.Inconclusive('translator validation: concrete run of %s forked' % name)
        real = native(inp)
        n += 1
        if real != got['v']:
            bad += 1
            S.log('TRANSLATOR MISMATCH %s on %r: encoder %r, native %r' % (name, inp.get('show'), got['v'], real))
    S.validation[name] = dict(samples=n, mismatches=bad)
    if bad:
        S.inconclusive.append('translator validation failed for %s (%d/%d)' % (name, bad, n))
    return bad == 0


# ---------------------------------------------------------------------------
# strip_trailing_whitespace


def _native_strip(S, s):
    r = S.driver.call('strip', hexs(s))
    if r[0] == 'ok':
        return ('ok', unhexs(r[1]))
    return ('panic',)


def strip_validate(S):
    fn = S.find_fn(S.core, 'strip_trailing_whitespace')
    samples = [dict(args=[Str.lit(s)], show=s, s=s) for s in random_strings(S.seed, 150, 9)]
    return validate_translation(S, 'strip_trailing_whitespace', fn, samples,
                                lambda inp: _native_strip(S, inp['s']), lambda v: v.concrete())


def api_replay_hygiene(S, frag):
    """try to reproduce a hygiene failure through Typstyle::format_content"""
    for name, emb in EMBEDDINGS:
        src = emb(frag)
        for width in (80, 0):
            r = S.driver.call('format', hexs(src), width, 2, 0)
            if r[0] == 'ok':
                out = unhexs(r[1])
                if not hygiene_ok(out):
                    return dict(api='Typstyle::format_content', embedding=name, source=src, width=width, output=out)
            elif r[0] in ('panic', 'abort'):
                return dict(api='Typstyle::format_content', embedding=name, source=src, width=width, output='<panic>')
    return None


def strip_hygiene(S, N):
    """C11 kernel: result non-empty, ends with LF, no line ends in a White_Space char"""
    fn = S.find_fn(S.core, 'strip_trailing_whitespace')
    found = []

    for n in range(N + 1):
        def body(ctx, n=n):
            m = S.machine(S.core, STD, ctx)
            s = sym_str(ctx, 's', n)
            try:
                r = m.call_fn(fn, [s])
            except Panic as p:
                S.absorb(m)
                ctx.must_hold(False, 'panic', lambda mdl: dict(input=s.concrete(mdl), panic=p.msg))
                return
            S.absorb(m)
            if len(r) == 0:
                ctx.must_hold(False, 'empty-result', lambda mdl: dict(input=s.concrete(mdl)))
                return
            conds = [c_eq(r.chars[-1], 10)]
            for i in range(1, len(r)):
                prev = r.chars[i - 1]
                conds.append(b_implies(c_eq(r.chars[i], 10), b_or(c_eq(prev, 10), b_not(is_ws(prev)))))
            ctx.must_hold(b_and(*conds), 'hygiene', lambda mdl: dict(input=s.concrete(mdl), predicted=r.concrete(mdl)))
            # interesting regions (vacuity witnesses)
            if n >= 2:
                ctx.witness('non-ascii blank before LF', b_and(z3.UGT(s.chars[0], 0x7f), is_ws(s.chars[0]), c_eq(s.chars[1], 10)))
                ctx.witness('CR LF', b_and(c_eq(s.chars[0], 13), c_eq(s.chars[1], 10)))
                ctx.witness('blank at end without LF', b_and(is_ws(s.chars[n - 1]), b_not(c_eq(s.chars[n - 1], 10))))
            if n >= 3:
                ctx.witness('multi-byte char kept', b_and(z3.UGT(s.chars[0], 0xffff), b_not(is_ws(s.chars[0]))))

        ob, ex = S.explore('strip.hygiene[n=%d]' % n, 'strip_trailing_whitespace(s): non-empty, ends with LF, no line ends with White_Space; for every s of %d code points' % n,
                           body, bounds=dict(code_points=n, alphabet='all Unicode scalar values'), parallel=True)
        if n >= 3:
            S.require_witness(ob, ['non-ascii blank before LF', 'CR LF', 'blank at end without LF', 'multi-byte char kept'])
        for lab, mdl, info in ex.violations:
            found.append((lab, info))
        if ex.violations:
            break
    # replay
    seen = set()
    for lab, info in found:
        s = info['input']
        if s in seen:
            continue
        seen.add(s)
        real = _native_strip(S, s)
        bad = real[0] == 'panic' or not hygiene_ok(real[1])
        if not bad:
            S.inconclusive.append('strip.hygiene: model %r did not reproduce natively (encoder/contract bug)' % s)
            continue
        api = api_replay_hygiene(S, s)
        S.violation('strip-hygiene:' + lab,
                    'strip_trailing_whitespace(%s) = %s breaks output hygiene%s' % (show(s), show(real[1]) if real[0] == 'ok' else 'PANIC',
                                                                                  ' (reproduced via format_content on %s)' % show(api['source']) if api else ''),
                    dict(unit=dict(fn='utils::strip_trailing_whitespace', input=s, output=real), api=api))
        if len(seen) >= 5:
            break
    S.assumptions.append('str::{lines,trim_end,len,is_empty}, String::{with_capacity,push_str,push}, to_string modelled by contracts validated natively (ws table, random differential)')


def strip_idempotent(S, N):
    """C03 kernel: strip(strip(s)) == strip(s)"""
    fn = S.find_fn(S.core, 'strip_trailing_whitespace')
    found = []
    for n in range(N + 1):
        def body(ctx, n=n):
            m = S.machine(S.core, STD, ctx)
            s = sym_str(ctx, 's', n)
            try:
                r1 = m.call_fn(fn, [s])
                r2 = m.call_fn(fn, [r1])
            except Panic as p:
                S.absorb(m)
                ctx.must_hold(False, 'panic', lambda mdl: dict(input=s.concrete(mdl)))
                return
            S.absorb(m)
            eq = False if len(r1) != len(r2) else str_eq(r1, r2)
            ctx.must_hold(eq, 'idempotent', lambda mdl: dict(input=s.concrete(mdl)))
            if n >= 2:
                ctx.witness('something stripped', len(r1) < n + 1)
        ob, ex = S.explore('strip.idempotent[n=%d]' % n, 'strip(strip(s)) = strip(s) for every s of %d code points' % n, body,
                           bounds=dict(code_points=n))
        if n >= 2:
            S.require_witness(ob, ['something stripped'])
        for lab, mdl, info in ex.violations:
            found.append((lab, info))
        if ex.violations:
            break
    seen = set()
    for lab, info in found:
        s = info['input']
        if s in seen:
            continue
        seen.add(s)
        r1 = _native_strip(S, s)
        r2 = _native_strip(S, r1[1]) if r1[0] == 'ok' else r1
        if r1 == r2 and r1[0] == 'ok':
            S.inconclusive.append('strip.idempotent: model %r did not reproduce natively' % s)
            continue
        # API: format(format(x)) on embeddings
        api = None
        for name, emb in EMBEDDINGS:
            src = emb(s)
            a = S.driver.call('format', hexs(src), 80, 2, 0)
            if a[0] != 'ok':
                continue
            b = S.driver.call('format', a[1], 80, 2, 0)
            if b[0] != 'ok' or b[1] != a[1]:
                api = dict(api='format(format(x))', embedding=name, source=src, first=unhexs(a[1]), second=unhexs(b[1]) if b[0] == 'ok' else b[0])
                break
        S.violation('strip-idempotence', 'strip_trailing_whitespace is not idempotent on %s' % show(s),
                    dict(unit=dict(fn='utils::strip_trailing_whitespace', input=s, once=r1, twice=r2), api=api))
        if len(seen) >= 3:
            break


# ---------------------------------------------------------------------------
# trim_range / count_spaces_after_last_newline


def _native_trim_range(S, s, a, b):
    r = S.driver.call('trim_range', hexs(s), a, b)
    if r[0] == 'ok':
        return ('ok', (int(r[1]), int(r[2])))
    return ('panic',)


def trim_range_validate(S):
    fn = S.find_fn(S.core, 'trim_range')
    rnd = random.Random(S.seed + 1)
    samples = []
    for s in random_strings(S.seed + 1, 120, 8):
        bs = s.encode('utf-8')
        bounds = [i for i in range(len(bs) + 1) if i == len(bs) or (bs[i] & 0xC0) != 0x80]
        a = rnd.choice(bounds)
        b = rnd.choice([x for x in bounds if x >= a])
        samples.append(dict(args=[Str.lit(s), rng(a, b)], show=(s, a, b), s=s, a=a, b=b))
    return validate_translation(S, 'trim_range', fn, samples,
                                lambda inp: _native_trim_range(S, inp['s'], inp['a'], inp['b']),
                                lambda v: (simp(v.fields[0]), simp(v.fields[1])))


# ---------------------------------------------------------------------------
# C10: post-processing versus literal content


def strip_literal(S, N):
    """s = p . t . q with t an arbitrary token text (first and last char non-blank, as for every literal token).
    Phi0 (what C10 needs): t occurs unchanged in strip(s)            -> fails: known finding, two classes
    Phi1 (complement)    : E(t) occurs in strip(s), E = t minus blanks directly before a line feed -> must hold"""
    fn = S.find_fn(S.core, 'strip_trailing_whitespace')
    found = []
    for n in range(1, N + 1):
        for lp in range(0, n):
            for lt in range(1, n - lp + 1):
                lq = n - lp - lt
                if lq > 1 or lp > 1:
                    continue       # one character of context on each side is enough: the kernel is line-local
                def body(ctx, n=n, lp=lp, lt=lt):
                    m = S.machine(S.core, STD, ctx)
                    s = sym_str(ctx, 's', n)
                    t = s.sub(lp, lp + lt)
                    ctx.assume(b_not(is_ws(t.chars[0])))
                    ctx.assume(b_not(is_ws(t.chars[-1])))
                    try:
                        r = m.call_fn(fn, [s])
                    except Panic as p:
                        S.absorb(m)
                        ctx.must_hold(False, 'panic', lambda mdl: dict(s=s.concrete(mdl), t=t.concrete(mdl)))
                        return
                    S.absorb(m)
                    # E(t): drop every maximal blank run that directly precedes a LF (character tests are decided on this path already)
                    keep = []
                    i = 0
                    cs = t.chars
                    while i < len(cs):
                        j = i
                        while j < len(cs) and ctx.branch(b_and(is_ws(cs[j]), b_not(c_eq(cs[j], 10)))):
                            j += 1
                        if j > i and j < len(cs) and ctx.branch(c_eq(cs[j], 10)):
                            i = j          # run followed by LF: dropped
                            continue
                        keep.extend(cs[i:max(j, i + 1)])
                        i = max(j, i + 1)
                    et = Str(keep)

                    def occurs(x):
                        k = len(x)
                        return b_or(*[str_eq(r.sub(o, o + k), x) for o in range(0, len(r) - k + 1)])
                    describe = lambda mdl: dict(s=s.concrete(mdl), t=t.concrete(mdl), stripped=r.concrete(mdl))
                    ctx.must_hold(occurs(et), 'literal-corrupted-beyond-line-end-blanks', describe)
                    has_cr = b_or(*[b_and(c_eq(cs[k], 13), c_eq(cs[k + 1], 10)) for k in range(len(cs) - 1)])
                    has_blank = b_or(*[b_and(is_ws(cs[k]), b_not(c_eq(cs[k], 13)), b_not(c_eq(cs[k], 10)), c_eq(cs[k + 1], 10)) for k in range(len(cs) - 1)])
                    ot = occurs(t)
                    ctx.must_hold(b_implies(has_blank, ot), 'blank-before-LF-inside-literal', describe)
                    ctx.must_hold(b_implies(b_and(has_cr, b_not(has_blank)), ot), 'CR-before-LF-inside-literal', describe)
                    ctx.must_hold(b_implies(b_and(b_not(has_cr), b_not(has_blank)), ot), 'literal-changed', describe)
                    ctx.witness('literal with interior line feed', b_or(*[c_eq(c, 10) for c in cs]))
                ob, ex = S.explore('strip.literal[p=%d,t=%d,q=%d]' % (lp, lt, lq),
                                   'strip(p.t.q) keeps token text t (|p|=%d,|t|=%d,|q|=%d code points) apart from blanks directly before a line feed' % (lp, lt, lq),
                                   body, bounds=dict(p=lp, t=lt, q=lq))
                for lab, mdl, info in ex.violations:
                    found.append((lab, info))
    return found


def literal_api_replay(S, t):
    """does a string / raw literal with content t survive Typstyle::format_content?"""
    cands = []
    if '"' not in t and '\\' not in t:
        cands.append(('string', '#let s = "' + t + '"\n', '"' + t + '"'))
    if '`' not in t:
        cands.append(('raw-block', '````\n' + t + '\n````\n', t))
    for kind, src, needle in cands:
        if S.driver.call('erroneous', hexs(src))[1] == '1':
            continue
        r = S.driver.call('format', hexs(src), 80, 2, 0)
        if r[0] != 'ok':
            continue
        out = unhexs(r[1])
        if needle not in out:
            return dict(api='Typstyle::format_content', literal=kind, source=src, output=out)
    return None
