"""markup whitespace kernels and the markup line loop (shared by C08, C04, C06)"""
import itertools
import z3

from mirsym.values import *
from mirsym.explore import Panic
from mirsym import models_typst as T
from mirsym import models_doc as D
from mirsym.models_std import STD, Str, sym_str, is_ws, c_eq, str_eq
from mirsym.models_typst import Node, Ast
from mirsym.session import hexs, unhexs
from . import pp
from .common import *

NEWLINES = (0x0A, 0x0B, 0x0C, 0x0D, 0x85, 0x2028, 0x2029)   # typst_syntax::is_newline


def is_newline(c):
    return b_or(*[c_eq(c, k) for k in NEWLINES])


def has_newline(s):
    return b_or(*[is_newline(c) for c in s.chars])


def count_newlines_sym(ctx, s):
    """typst's count_newlines (CR LF counts once); forks on character classes"""
    n = 0
    prev_cr = False
    for c in s.chars:
        if ctx.branch(is_newline(c)):
            if not (prev_cr and ctx.branch(c_eq(c, 10))):
                n += 1
            prev_cr = ctx.branch(c_eq(c, 13))
        else:
            prev_cr = False
    return n


def ws_token(ctx, name, n):
    s = sym_str(ctx, name, n)
    for c in s.chars:
        ctx.assume(is_ws(c))      # lexer fact: whitespace tokens consist of char::is_whitespace characters
    return s


def explore_tokens(S, N):
    kt = T.KT
    core = S.core
    f_space = S.find_fn(core, 'PrettyPrinter::convert_space')
    f_par = S.find_fn(core, 'PrettyPrinter::convert_parbreak')
    f_text = S.find_fn(core, 'PrettyPrinter::convert_text')
    found = []
    for n in range(1, N + 1):
        def body(ctx, n=n):
            m = S.machine(core, STD, ctx)
            t = ws_token(ctx, 'sp', n)
            pr, cfg = pp.printer(m)
            node = Node(kt.k('Space'), text=t)
            try:
                d = m.call_fn(f_space, [pr, Ast('Space', node)])
            except Panic as p:
                S.absorb(m)
                ctx.must_hold(False, 'C05:space-panic', lambda mdl: dict(token='Space', text=t.concrete(mdl)))
                return
            S.absorb(m)
            at = D.atoms(d, flat=False)
            is_nl = at == [('nl',)]
            is_blank = len(at) == 1 and at[0][0] == 't' and at[0][1].is_concrete() and at[0][1].concrete() == ' '
            ctx.must_hold(is_nl or is_blank, 'C08:space-token-shape', lambda mdl: dict(token='Space', text=t.concrete(mdl)))
            ctx.must_hold(i_eq(is_nl, has_newline(t)), 'C08:line-break-in-space-token-lost-or-invented', lambda mdl: dict(token='Space', text=t.concrete(mdl)))
            ctx.witness('space with non-LF newline', b_and(has_newline(t), b_not(b_or(*[c_eq(c, 10) for c in t.chars]))))
            ctx.witness('space without newline', b_not(has_newline(t)))
        ob, ex = S.explore('markup.space[n=%d]' % n, 'convert_space on every whitespace token of %d code points' % n, body, bounds=dict(code_points=n))
        S.require_witness(ob, ['space with non-LF newline', 'space without newline'])
        for lab, mdl, info in ex.violations:
            found.append((lab, info))
    for n in range(2, N + 2):
        def body(ctx, n=n):
            m = S.machine(core, STD, ctx)
            t = ws_token(ctx, 'pb', n)
            k = count_newlines_sym(ctx, t)
            if k < 2:
                return      # lexer fact: a Parbreak holds at least two newlines
            pr, cfg = pp.printer(m)
            node = Node(kt.k('Parbreak'), text=t)
            try:
                d = m.call_fn(f_par, [pr, Ast('Parbreak', node)])
            except Panic as p:
                S.absorb(m)
                ctx.must_hold(False, 'C05:parbreak-panic', lambda mdl: dict(token='Parbreak', text=t.concrete(mdl)))
                return
            S.absorb(m)
            at = D.atoms(d, flat=False)
            ctx.must_hold(all(a == ('nl',) for a in at) and len(at) == k, 'C08:paragraph-break-count-changed',
                          lambda mdl: dict(token='Parbreak', text=t.concrete(mdl), expected=k, got=len(at)))
            ctx.witness('parbreak of CRs', b_and(*[c_eq(c, 13) for c in t.chars]))
        ob, ex = S.explore('markup.parbreak[n=%d]' % n, 'convert_parbreak on every whitespace token of %d code points holding >= 2 newlines' % n, body, bounds=dict(code_points=n))
        S.require_witness(ob, ['parbreak of CRs'])
        for lab, mdl, info in ex.violations:
            found.append((lab, info))
    for n in range(0, N + 1):
        def body(ctx, n=n):
            m = S.machine(core, STD, ctx)
            t = sym_str(ctx, 'tx', n)
            pr, cfg = pp.printer(m)
            node = Node(kt.k('Text'), text=t)
            d = m.call_fn(f_text, [pr, Ast('Text', node)])
            S.absorb(m)
            ctx.must_hold(d.k == 'text' and len(d.a) == n and str_eq(d.a, t), 'C08:text-not-verbatim', lambda mdl: dict(token='Text', text=t.concrete(mdl)))
        ob, ex = S.explore('markup.text[n=%d]' % n, 'convert_text emits the token text verbatim (%d code points)' % n, body, bounds=dict(code_points=n))
        for lab, mdl, info in ex.violations:
            found.append((lab, info))
    return found


def explore_markup(S, K):
    return []


# -- native confirmation ---------------------------------------------------------------------------------


def classify_ws(out_between):
    """classify the whitespace between two words in formatter output: none / space / break / parbreak(n)"""
    if out_between == '':
        return 'none'
    n = out_between.count('\n')
    if n == 0:
        return 'space'
    if n == 1:
        return 'break'
    return 'parbreak(%d)' % n


def expected_class(ws):
    k = 0
    prev_cr = False
    for ch in ws:
        if ord(ch) in NEWLINES:
            if not (prev_cr and ch == '\n'):
                k += 1
            prev_cr = ch == '\r'
        else:
            prev_cr = False
    if k == 0:
        return 'space'
    if k == 1:
        return 'break'
    return 'parbreak(%d)' % k


def confirm_token(S, info):
    """markup `a<ws>b`: the whitespace class between the two words must survive formatting"""
    ws = info['text']
    src = 'a' + ws + 'b\n'
    if S.driver.call('erroneous', hexs(src))[1] == '1':
        return None
    r = S.driver.call('format', hexs(src), 80, 2, 0)
    if r[0] != 'ok':
        return dict(what='format panics/refuses %s' % show(src), api=dict(api='Typstyle::format_content', source=src, result=r[0]))
    out = unhexs(r[1])
    i, j = out.find('a'), out.rfind('b')
    got = classify_ws(out[i + 1:j]) if i >= 0 and j > i else 'words lost'
    exp = expected_class(ws)
    if got != exp:
        return dict(what='markup %s: whitespace between the words is %s in the source but %s in the output %s' % (show(src), exp, got, show(out)),
                    api=dict(api='Typstyle::format_content', source=src, output=out, expected=exp, got=got))
    return None


def report(S, prop, found):
    groups = {}
    for lab, info in found:
        if lab.startswith(prop + ':'):
            groups.setdefault(lab, []).append(info)
    for lab, infos in groups.items():
        hit = None
        for info in infos[:6]:
            w = confirm_token(S, info) if 'token' in info else confirm_markup(S, info)
            if w:
                hit = (info, w)
                break
        if hit:
            key = lab
            ws = hit[0].get('text', '')
            if ws and any(ord(c) in NEWLINES and c != '\n' for c in ws):
                key += ':non-LF-newline'
            S.violation(key, '%s: %s' % (lab, hit[1]['what']), dict(api=hit[1].get('api'), model=hit[0]))
        else:
            S.inconclusive.append('%s: no solver model reproduced natively (%r)' % (lab, infos[0]))


def confirm_markup(S, info):
    return None


ASSUMPTIONS = [
    'lexer facts: whitespace tokens consist of char::is_whitespace characters; a Parbreak holds >= 2 Typst newlines (LF VT FF CR NEL LS PS, CR LF counted once), a markup Space at most one',
    'converters of non-whitespace children are opaque in the markup-loop obligation',
]
