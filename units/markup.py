"""markup whitespace kernels and the markup line loop (shared by C08, C04, C06)"""
import itertools
import z3

from mirsym.values import *
from mirsym.explore import Panic
from mirsym import models_typst as T
from mirsym import models_doc as D
from mirsym.models_std import STD, Str, sym_str, is_ws, c_eq, str_eq, valid_scalar
from mirsym.models_typst import Node, Ast
from mirsym.session import hexs, unhexs
from . import pp
from .common import *

NEWLINES = (0x0A, 0x0B, 0x0C, 0x0D, 0x85, 0x2028, 0x2029)   # typst_syntax::is_newline


def is_newline(c):
    return b_or(*[c_eq(c, k) for k in NEWLINES])


def has_newline(s):
    return b_or(*[is_newline(c) for c in s.chars])


def count_newlines_sym(ctx, s):
    """typst's count_newlines (CR LF counts once); forks on character classes"""
    n = 0
    prev_cr = False
    for c in s.chars:
        if ctx.branch(is_newline(c)):
            if not (prev_cr and ctx.branch(c_eq(c, 10))):
                n += 1
            prev_cr = ctx.branch(c_eq(c, 13))
        else:
            prev_cr = False
    return n


def ws_token(ctx, name, n):
    s = sym_str(ctx, name, n)
    for c in s.chars:
        ctx.assume(is_ws(c))      # lexer fact: whitespace tokens consist of char::is_whitespace characters
    return s


def explore_tokens(S, N, prefix='C08'):
    kt = T.KT
    core = S.core
    f_space = S.find_fn(core, 'PrettyPrinter::convert_space')
    f_par = S.find_fn(core, 'PrettyPrinter::convert_parbreak')
    f_text = S.find_fn(core, 'PrettyPrinter::convert_text')
    found = []
    for n in range(1, N + 1):
        def body(ctx, n=n):
            m = S.machine(core, STD, ctx)
            t = ws_token(ctx, 'sp', n)
            pr, cfg = pp.printer(m)
            node = Node(kt.k('Space'), text=t)
            try:
                d = m.call_fn(f_space, [pr, Ast('Space', node)])
            except Panic as p:
                S.absorb(m)
                ctx.must_hold(False, 'C05:space-panic', lambda mdl: dict(token='Space', text=t.concrete(mdl)))
                return
            S.absorb(m)
            at = D.atoms(d, flat=False)
            is_nl = at == [('nl',)]
            is_blank = len(at) == 1 and at[0][0] == 't' and at[0][1].is_concrete() and at[0][1].concrete() == ' '
            ctx.must_hold(is_nl or is_blank, prefix + ':space-token-shape', lambda mdl: dict(token='Space', text=t.concrete(mdl)))
            ctx.must_hold(i_eq(is_nl, has_newline(t)), prefix + ':line-break-in-space-token-lost-or-invented', lambda mdl: dict(token='Space', text=t.concrete(mdl)))
            ctx.witness('space with non-LF newline', b_and(has_newline(t), b_not(b_or(*[c_eq(c, 10) for c in t.chars]))))
            ctx.witness('space without newline', b_not(has_newline(t)))
        ob, ex = S.explore('markup.space[n=%d]' % n, 'convert_space on every whitespace token of %d code points' % n, body, bounds=dict(code_points=n))
        S.require_witness(ob, ['space with non-LF newline', 'space without newline'])
        for lab, mdl, info in ex.violations:
            found.append((lab, info))
    for n in range(2, N + 2):
        def body(ctx, n=n):
            m = S.machine(core, STD, ctx)
            t = ws_token(ctx, 'pb', n)
            k = count_newlines_sym(ctx, t)
            if k < 2:
                return      # lexer fact: a Parbreak holds at least two newlines
            pr, cfg = pp.printer(m)
            node = Node(kt.k('Parbreak'), text=t)
            try:
                d = m.call_fn(f_par, [pr, Ast('Parbreak', node)])
            except Panic as p:
                S.absorb(m)
                ctx.must_hold(False, 'C05:parbreak-panic', lambda mdl: dict(token='Parbreak', text=t.concrete(mdl)))
                return
            S.absorb(m)
            at = D.atoms(d, flat=False)
            ctx.must_hold(all(a == ('nl',) for a in at) and len(at) == k, prefix + ':paragraph-break-count-changed',
                          lambda mdl: dict(token='Parbreak', text=t.concrete(mdl), expected=k, got=len(at), blank_lines_upper_bound=model_int(mdl, cfg.get('blank_lines_upper_bound'))))
            ctx.witness('parbreak of CRs', b_and(*[c_eq(c, 13) for c in t.chars]))
        ob, ex = S.explore('markup.parbreak[n=%d]' % n, 'convert_parbreak on every whitespace token of %d code points holding >= 2 newlines' % n, body, bounds=dict(code_points=n))
        S.require_witness(ob, ['parbreak of CRs'])
        for lab, mdl, info in ex.violations:
            found.append((lab, info))
    for n in range(0, N + 1):
        def body(ctx, n=n):
            m = S.machine(core, STD, ctx)
            t = sym_str(ctx, 'tx', n)
            pr, cfg = pp.printer(m)
            node = Node(kt.k('Text'), text=t)
            d = m.call_fn(f_text, [pr, Ast('Text', node)])
            S.absorb(m)
            ctx.must_hold(d.k == 'text' and len(d.a) == n and str_eq(d.a, t), prefix + ':text-not-verbatim', lambda mdl: dict(token='Text', text=t.concrete(mdl)))
        ob, ex = S.explore('markup.text[n=%d]' % n, 'convert_text emits the token text verbatim (%d code points)' % n, body, bounds=dict(code_points=n))
        for lab, mdl, info in ex.violations:
            found.append((lab, info))
    return found


MCATS = ['text', 'space', 'par', 'expr', 'strong', 'line', 'block', 'hash', 'item', 'inline']
INLINE_KINDS = ['Escape', 'Shorthand', 'SmartQuote', 'Link', 'Label', 'Ref']     # prose that is not a Text token (the property lists them)


def explore_markup(S, K, want=('C08',), focus_last=False):
    """collect_markup_repr + convert_markup_impl: interior whitespace maps 1-1; children conserved; mixed lines suppress breaks"""
    from .lists import show_atoms, atoms_modes
    kt = T.KT
    core = S.core
    fn = S.find_fn(core, 'PrettyPrinter::convert_markup_impl')
    found = []

    def sequences(k):
        for combo in itertools.product(MCATS, repeat=k):
            ok = True
            for i, c in enumerate(combo):
                nxt = combo[i + 1] if i + 1 < k else None
                if c in ('space', 'par') and nxt in ('space', 'par'):
                    ok = False          # whitespace tokens are never adjacent
                if c == 'line' and nxt is not None and nxt not in ('space', 'par'):
                    ok = False          # a line comment ends at a newline
                if c == 'hash' and nxt not in ('expr',):
                    ok = False          # a hash is followed by its expression
            # quick tier: the longest sequences only where they add something over the shorter ones - a whitespace token between two children
            if focus_last and k == K and k >= 3 and not any(c in ('space', 'par') for c in combo[1:-1]):
                ok = False
            if ok:
                yield combo

    def make_body(combo):
        def body(ctx):
            calls = {}

            def conv_expr(m, a, ci):
                nd = T._node(m, a[2])
                calls[nd.nid] = a[1]
                return D.opaque_doc('expr', (nd.nid,))
            ml = z3.Bool('is_multiline')
            m = S.machine(core, STD, ctx, overrides={'convert_expr': conv_expr, 'is_multiline': (lambda mm, a, ci: ml)})
            kids = []
            for i, c in enumerate(combo):
                if c == 'text':
                    kids.append(Node(kt.k('Text'), text=Str.lit('w%d' % i)))
                elif c == 'space':
                    c0 = z3.BitVec('sp%d_0' % i, 32)
                    ctx.assume(valid_scalar(c0))
                    ctx.assume(is_ws(c0))
                    if i > 0 and combo[i - 1] == 'line':
                        ctx.assume(is_newline(c0))
                    kids.append(Node(kt.k('Space'), text=Str((c0,))))
                elif c == 'par':
                    c0 = z3.BitVec('pb%d_0' % i, 32)
                    c1 = z3.BitVec('pb%d_1' % i, 32)
                    c2 = z3.BitVec('pb%d_2' % i, 32)
                    for cc in (c0, c1, c2):
                        ctx.assume(valid_scalar(cc))
                        ctx.assume(is_ws(cc))
                    # at least two newlines: first two characters are newlines that do not pair up as CR LF
                    ctx.assume(is_newline(c0))
                    ctx.assume(is_newline(c1))
                    ctx.assume(z3.Not(z3.And(c0 == 13, c1 == 10)))
                    kids.append(Node(kt.k('Parbreak'), text=Str((c0, c1, c2))))
                elif c == 'expr':
                    kids.append(Node(kt.k('FuncCall'), text=Str.lit('f%d' % i)))
                elif c == 'strong':
                    kids.append(Node(kt.k('Strong'), text=Str.lit('s%d' % i)))
                elif c == 'inline':
                    ik = z3.BitVec('inline_kind%d' % i, 8)
                    ctx.assume(T.kind_in(ik, {kt.k(x) for x in INLINE_KINDS}))
                    kids.append(Node(ik, text=Str.lit('q%d' % i)))
                elif c == 'line':
                    kids.append(Node(kt.k('LineComment'), text=Str.lit('//c%d' % i)))
                elif c == 'block':
                    kids.append(Node(kt.k('BlockComment'), text=Str.lit('/*c%d*/' % i)))
                elif c == 'hash':
                    kids.append(Node(kt.k('Hash'), text=Str.lit('#')))
                else:
                    kids.append(Node(kt.k('ListItem'), text=Str.lit('i%d' % i)))
            markup = Node(kt.k('Markup'), children=kids)
            pr, cfg = pp.printer(m)
            c0_ = pp.context()
            scope = z3.BitVec('scope', 64)
            ctx.assume(z3.ULT(scope, 4))

            def describe(mdl):
                return dict(children=list(combo), scope=('Document', 'ContentBlock', 'Strong', 'Item')[model_int(mdl, scope)], multiline=model_bool(mdl, ml),
                            suppressed=model_bool(mdl, c0_.get('break_suppressed')),
                            inline_kinds={str(i): kt.names[model_int(mdl, kids[i].kind)] for i, c in enumerate(combo) if c == 'inline'},
                            blank_lines_upper_bound=(model_int(mdl, cfg.get('blank_lines_upper_bound')) if is_sym(cfg.get('blank_lines_upper_bound')) else cfg.get('blank_lines_upper_bound')),
                            ws={str(i): kids[i].text.concrete(mdl) for i, c in enumerate(combo) if c in ('space', 'par')})
            try:
                d = m.call_fn(fn, [pr, c0_, Ast('Markup', markup), CEnum('MarkupScope', scope, 64)])
            except Panic as p:
                S.absorb(m)
                ctx.must_hold(False, 'C05:markup-panic', lambda mdl: dict(describe(mdl), panic=p.msg))
                return
            S.absorb(m)
            nonws = [i for i, c in enumerate(combo) if c not in ('space', 'par')]
            if not nonws:
                return          # only whitespace: everything is edge whitespace

            def key_of(i):
                c = combo[i]
                nd = kids[i]
                if c in ('expr', 'strong', 'item', 'inline'):
                    return ('o', nd.nid)
                return ('t', nd.text.concrete())
            for mode, at in atoms_modes(d).items():
                def akey(a):
                    if a[0] == 'o':
                        return ('o', a[2][0])
                    if a[0] == 't' and a[1].is_concrete():
                        return ('t', a[1].concrete())
                    return a
                keys = [akey(a) for a in at]
                # locate the non-whitespace children in order
                pos = []
                start = 0
                okc = True
                for i in nonws:
                    k_ = key_of(i)
                    try:
                        j = keys.index(k_, start)
                    except ValueError:
                        okc = False
                        break
                    pos.append(j)
                    start = j + 1
                extra = [k_ for idx, k_ in enumerate(keys) if idx not in pos and k_ not in (('t', ' '), ('nl',))]
                ctx.must_hold(okc and not extra, 'C08:markup-children-lost-duplicated-or-reordered', lambda mdl, mode=mode, at=at: dict(describe(mdl), mode=mode, atoms=show_atoms(at)))
                if not okc:
                    continue
                conds = []
                for (i1, j1), (i2, j2) in zip(zip(nonws, pos), zip(nonws[1:], pos[1:])):
                    between = keys[j1 + 1:j2]
                    if i2 == i1 + 1:
                        conds.append(between == [])
                    else:
                        w = kids[i1 + 1]
                        if combo[i1 + 1] == 'space':
                            is_nl = between == [('nl',)]
                            is_blank = between == [('t', ' ')]
                            conds.append(is_nl or is_blank)
                            conds.append(i_eq(is_nl, has_newline(w.text)))
                        else:
                            n = count_newlines_sym(ctx, w.text)
                            conds.append(between == [('nl',)] * n)
                ctx.must_hold(b_and(*conds), 'C08:interior-markup-whitespace-changed', lambda mdl, mode=mode, at=at: dict(describe(mdl), mode=mode, atoms=show_atoms(at)))
            # expressions on a line that also holds text/strong/emph/raw are converted with breaks suppressed
            line_start = 0
            lines = []
            cur = []
            for i, c in enumerate(combo):
                brk = c == 'par' or (c == 'space' and False)
                cur.append(i)
                if c == 'par':
                    lines.append(cur)
                    cur = []
            lines.append(cur)
            conds = []
            conds_inline = []
            for i, c in enumerate(combo):
                if c in ('expr', 'strong') and kids[i].nid in calls:
                    cx = calls[kids[i].nid]
                    conds.append(i_eq(cx.get('mode').disc, 0, 64))     # markup mode
                    # same source line = no whitespace-with-newline / parbreak between
                    mixed = False
                    mixed_inline = False
                    for j, c2 in enumerate(combo):
                        if c2 in ('text', 'strong', 'inline') and j != i or (c2 == 'strong' and j == i):
                            lo, hi = min(i, j), max(i, j)
                            sep = False
                            for q in range(lo + 1, hi):
                                if combo[q] == 'par':
                                    sep = True
                                elif combo[q] == 'space':
                                    sep = b_or(sep, has_newline(kids[q].text))
                            if c2 == 'inline':
                                mixed_inline = b_or(mixed_inline, b_not(sep))
                            else:
                                mixed = b_or(mixed, b_not(sep))
                    conds.append(b_implies(mixed, cx.get('break_suppressed')))
                    conds.append(b_implies(b_and(b_not(mixed), b_not(mixed_inline), b_not(c0_.get('break_suppressed'))), b_not(cx.get('break_suppressed'))))
                    # prose that is not a Text token (escape, shorthand, smart quote, link, label, reference) counts as well
                    conds_inline.append(b_implies(b_and(mixed_inline, b_not(mixed)), cx.get('break_suppressed')))
            ctx.must_hold(b_and(*conds), 'C08:expression-on-a-text-line-may-break', describe)
            if conds_inline:
                ctx.must_hold(b_and(*conds_inline), 'C08:expression-on-a-line-with-inline-prose-may-break', describe)
            if 'par' in combo:
                ctx.witness('markup with paragraph break')
            if 'text' in combo and 'expr' in combo:
                ctx.witness('mixed text and code')
        return body

    tasks = []
    for k in range(1, K + 1):
        for combo in sequences(k):
            tasks.append(('markup[%s]' % ','.join(combo), 'convert_markup_impl over children %r, every scope / context / multiline flag' % (combo,),
                          make_body(combo), dict(children=k)))
    for ob, viol in S.explore_batch(tasks):
        for lab, mdl, info in viol:
            found.append((lab, info))
    return found


# -- native confirmation ---------------------------------------------------------------------------------


def classify_ws(out_between):
    """classify the whitespace between two words in formatter output: none / space / break / parbreak(n)"""
    if out_between == '':
        return 'none'
    n = out_between.count('\n')
    if n == 0:
        return 'space'
    if n == 1:
        return 'break'
    return 'parbreak(%d)' % n


def expected_class(ws):
    k = 0
    prev_cr = False
    for ch in ws:
        if ord(ch) in NEWLINES:
            if not (prev_cr and ch == '\n'):
                k += 1
            prev_cr = ch == '\r'
        else:
            prev_cr = False
    if k == 0:
        return 'space'
    if k == 1:
        return 'break'
    return 'parbreak(%d)' % k


def confirm_token(S, info):
    """markup `a<ws>b`: the whitespace class between the two words must survive formatting"""
    ws = info['text']
    src = 'a' + ws + 'b\n'
    if S.driver.call('erroneous', hexs(src))[1] == '1':
        return None
    r = S.driver.call('format', hexs(src), 80, 2, 0)
    if r[0] != 'ok':
        return dict(what='format panics/refuses %s' % show(src), api=dict(api='Typstyle::format_content', source=src, result=r[0]))
    out = unhexs(r[1])
    i, j = out.find('a'), out.rfind('b')
    got = classify_ws(out[i + 1:j]) if i >= 0 and j > i else 'words lost'
    exp = expected_class(ws)
    if got != exp:
        return dict(what='markup %s: whitespace between the words is %s in the source but %s in the output %s' % (show(src), exp, got, show(out)),
                    api=dict(api='Typstyle::format_content', source=src, output=out, expected=exp, got=got))
    return None


def report(S, prop, found):
    groups = {}
    for lab, info in found:
        if lab.startswith(prop + ':'):
            groups.setdefault(lab, []).append(info)
    for lab, infos in groups.items():
        hit = None
        for info in infos[:6]:
            w = confirm_token(S, info) if 'token' in info else confirm_markup(S, dict(info, label=lab))
            if w:
                hit = (info, w)
                break
        if hit:
            key = lab
            ws = hit[0].get('text', '')
            if ws and any(ord(c) in NEWLINES and c != '\n' for c in ws):
                key += ':non-LF-newline'
            S.violation(key, '%s: %s' % (lab, hit[1]['what']), dict(api=hit[1].get('api'), model=hit[0]))
        else:
            S.inconclusive.append('%s: no solver model reproduced natively (%r)' % (lab, infos[0]))


INLINE_RENDER = {'Escape': '\\#', 'Shorthand': '---', 'SmartQuote': '"', 'Link': 'https://a.b/c', 'Label': '<l%d>', 'Ref': '@r%d'}
RENDER = {'inline': None, 'text': 'w%d', 'expr': '#f%d()', 'strong': '*s%d*', 'line': '// c%d', 'block': '/* c%d */', 'hash': '', 'item': '- i%d'}


def confirm_markup(S, info):
    """rebuild the markup from the model and compare whitespace classes between consecutive children natively"""
    kinds = info.get('children') or []
    ws = info.get('ws') or {}
    toks = []
    src = ''
    for i, c in enumerate(kinds):
        if c in ('space', 'par'):
            src += ws.get(str(i), ' ')
            toks.append(None)
        else:
            r = RENDER[c] if c != 'inline' else INLINE_RENDER[(info.get('inline_kinds') or {}).get(str(i), 'Shorthand')]
            t = r % i if '%d' in r else r
            if c == 'text' and i > 0 and kinds[i - 1] == 'text':
                t = '\u3000' + t           # two adjacent Text tokens: the lexer starts a new one at a blank that is not Typst whitespace
            src += t
            toks.append(t if t else None)
    if 'may-break' in info.get('label', ''):
        # the line with an expression that can break: at a narrow width its pieces must stay on one line
        line = src.replace('()', '(aaaa, bbbb)')
        for v in (line + '\n', '#[' + line + ']\n'):
            if S.driver.call('erroneous', hexs(v))[1] == '1' or '\n' in line.strip('\n'):
                continue
            r = S.driver.call('format', hexs(v), 10, 2, 0)
            if r[0] == 'ok' and unhexs(r[1]).strip('\n').count('\n') > v.strip('\n').count('\n') and '(aaaa, bbbb)' not in unhexs(r[1]):
                out = unhexs(r[1])
                return dict(what='prose and embedded code that were on one line are spread over several: %s -> %s (width 10)' % (show(v), show(out)),
                            api=dict(api='Typstyle::format_content', source=v, width=10, output=out))
        return None
    variants = [src + '\n', '[' + src + ']\n' if False else '#[' + src + ']\n', '*' + src + '*\n' if 'strong' not in kinds and 'par' not in kinds else None]
    for v in variants:
        if v is None or S.driver.call('erroneous', hexs(v))[1] == '1':
            continue
        blub = info.get('blank_lines_upper_bound')
        for w, bl in [(80, None), (0, None)] + ([(80, min(blub, 1 << 20))] if isinstance(blub, int) and blub != 2 else []):
            r = S.driver.call('format', hexs(v), w, 2, 0, *([bl] if bl is not None else []))
            if r[0] != 'ok':
                return dict(what='format fails (%s) on %s' % (r[0], show(v)), api=dict(api='Typstyle::format_content', source=v, width=w))
            out = unhexs(r[1])
            pos = 0
            prev_end = None
            prev_idx = None
            for i, t in enumerate(toks):
                if t is None:
                    continue
                j = out.find(t, pos)
                if j < 0:
                    return dict(what='markup child %s lost: %s -> %s' % (t, show(v), show(out)), api=dict(api='Typstyle::format_content', source=v, width=w, output=out))
                if prev_end is not None:
                    between_src = ''.join(ws.get(str(q), ' ') for q in range(prev_idx + 1, i) if kinds[q] in ('space', 'par'))
                    exp = expected_class(between_src) if between_src else 'none'
                    got = classify_ws(out[prev_end:j])
                    if got != exp and not (kinds[i] == 'item' or kinds[prev_idx] == 'item'):
                        return dict(what='whitespace between %s and %s is %s in %s but %s in the output %s%s' % (toks[prev_idx], t, exp, show(v), got, show(out), '' if bl is None else ' (Config.blank_lines_upper_bound = %d)' % bl),
                                    api=dict(api='Typstyle::format_content', source=v, width=w, output=out, blank_lines_upper_bound=bl))
                prev_end = j + len(t)
                prev_idx = i
                pos = prev_end
    return None


ASSUMPTIONS = [
    'lexer facts: whitespace tokens consist of char::is_whitespace characters; a Parbreak holds >= 2 Typst newlines (LF VT FF CR NEL LS PS, CR LF counted once), a markup Space at most one',
    'converters of non-whitespace children are opaque in the markup-loop obligation',
]
