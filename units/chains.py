"""dot chains (code_chain.rs + layout/chain.rs): comments inside field-access chains are conserved."""
import itertools
import z3

from mirsym.values import *
from mirsym.explore import Panic
from mirsym import models_typst as T
from mirsym import models_doc as D
from mirsym.models_std import STD, Str, Vec
from mirsym.models_typst import Node, Ast
from mirsym.session import hexs, unhexs
from . import pp
from .common import *
from .lists import show_atoms, atoms_modes

GAPS = ['none', 'block', 'line']


def explore(S, want=('C06', 'C04', 'C05'), depth=2):
    kt = T.KT
    core = S.core
    fn = S.find_fn(core, 'PrettyPrinter::convert_field_access')
    f_try = S.find_fn(core, 'PrettyPrinter::try_convert_dot_chain')
    found = []
    # gaps: before and after each dot
    for gaps in itertools.product(GAPS, repeat=2 * depth):
        if sum(1 for g in gaps if g != 'none') > 2:
            continue
        for with_call in (False, True):
            def body(ctx, gaps=gaps, with_call=with_call):
                def conv_args(m, a, ci):
                    return D.opaque_doc('args')

                def conv_expr(m, a, ci):
                    return D.opaque_doc('expr', (T._node(m, a[2]).nid,))
                cw = z3.BitVec('chain_width', 64)
                m = S.machine(core, STD, ctx, overrides={'convert_args': conv_args, 'chain_width': (lambda mm, a, ci: cw)})
                cmts = []

                def gap(kind, idx):
                    if kind == 'none':
                        return []
                    if kind == 'block':
                        n = Node(kt.k('BlockComment'), text=Str.lit('/*c%d*/' % idx))
                        cmts.append(n)
                        return [n]
                    n = Node(kt.k('LineComment'), text=Str.lit('//c%d' % idx))
                    cmts.append(n)
                    return [Node(kt.k('Space'), text=Str.lit(' ')), n, Node(kt.k('Space'), text=Str.lit('\n'))]
                cur = Node(kt.k('Ident'), text=Str.lit('a'))
                for d in range(depth):
                    kids = [cur] + gap(gaps[2 * d], 2 * d) + [Node(kt.k('Dot'), text=Str.lit('.'))] + gap(gaps[2 * d + 1], 2 * d + 1) + [Node(kt.k('Ident'), text=Str.lit('f%d' % d))]
                    cur = Node(kt.k('FieldAccess'), children=kids)
                top = cur
                if with_call:
                    # a.f0.f1(args): the call node is what convert_func_call hands to try_convert_dot_chain
                    args = Node(kt.k('Args'), children=[Node(kt.k('LeftParen'), text=Str.lit('(')), Node(kt.k('RightParen'), text=Str.lit(')'))])
                    top = Node(kt.k('FuncCall'), children=[cur, args])
                pr, cfg = pp.printer(m)
                c0 = pp.context()

                def describe(mdl):
                    return dict(gaps=list(gaps), mode=model_int(mdl, c0.get('mode').disc), suppressed=model_bool(mdl, c0.get('break_suppressed')),
                                chain_width=model_int(mdl, cw))
                try:
                    if with_call:
                        r = m.call_fn(f_try, [pr, c0, top])
                        if r.variant == 'None':
                            S.absorb(m)
                            return       # not laid out as a chain: the call is converted by the ordinary path, the callee through convert_field_access
                        d = r.fields[0]
                    else:
                        d = m.call_fn(fn, [pr, c0, Ast('FieldAccess', top)])
                except Panic as p:
                    S.absorb(m)
                    if 'C05' in want:
                        ctx.must_hold(False, 'C05:chain-panic', lambda mdl: dict(describe(mdl), panic=p.msg))
                    return
                S.absorb(m)
                # comments in field accesses only exist in code (the lexer ends an embedded expression at a comment in markup/math)
                in_code = b_or(i_eq(c0.get('mode').disc, 1, 64), i_eq(c0.get('mode').disc, 2, 64))
                for mode, at in atoms_modes(d).items():
                    got = [a[1].concrete() for a in at if a[0] == 't' and a[1].is_concrete() and (a[1].concrete().startswith('/*') or a[1].concrete().startswith('//'))]
                    exp = [c.text.concrete() for c in cmts]
                    if 'C06' in want:
                        ctx.must_hold(b_implies(in_code, got == exp), 'C06:comment-in-field-access-chain-lost',
                                      lambda mdl, mode=mode, at=at: dict(describe(mdl), layout=mode, atoms=show_atoms(at)))
                    if 'C04' in want:
                        sw = False
                        for j, a in enumerate(at):
                            if a[0] == 't' and a[1].is_concrete() and a[1].concrete().startswith('//') and j + 1 < len(at) and at[j + 1] != ('nl',):
                                sw = True
                        ctx.must_hold(b_implies(in_code, not sw), 'C04:chain-line-comment-not-followed-by-line-break',
                                      lambda mdl, mode=mode, at=at: dict(describe(mdl), layout=mode, atoms=show_atoms(at)))
                    idents = [a[1].concrete() for a in at if a[0] == 't' and a[1].is_concrete() and a[1].concrete() in ('a', 'f0', 'f1', 'f2', '.')]
                    exp_id = ['a'] + sum([['.', 'f%d' % dd] for dd in range(depth)], [])
                    if 'C06' in want:
                        ctx.must_hold(idents == exp_id, 'C06:chain-links-lost-or-reordered', lambda mdl, mode=mode, at=at: dict(describe(mdl), layout=mode, atoms=show_atoms(at)))
                if cmts:
                    ctx.witness('chain with comment', in_code)
            ob, ex = S.explore('chain[%s%s]' % (','.join(gaps), ',call' if with_call else ''), 'convert_field_access on a.f0.f1 with comments %r at the gaps around the dots' % (gaps,), body,
                               bounds=dict(depth=depth, gaps=list(gaps)))
            for lab, mdl, info in ex.violations:
                found.append((lab, info))
            if ob.status.startswith('inconclusive'):
                return found
    return found


CORPUS = ['#{\n  a/* c */.b.c\n}\n', '#{\n  a./* c */b.c(1)\n}\n', '#{\n  a // c\n    .b.c(1)\n}\n', 'text #f(a/* c */.b)\n', 'text #f(a.b/* c */.c(1))\n', '*bold #f(a/* c */.b.c)*\n',
          '#let x = cfg/* which */.page.at(0)\n', '#let x = cfg // pick\n  .page.at(0)\n', '#let x = state/* which */.pos.get(key)\n', '#{\n  a.b/* c */.c.d(1)\n}\n', 'text #{ a/* c */.b }\n',
          # inside lists that may be laid out flat
          '#f(a/* c */.b.c, x)\n', '#(a // c\n  .b.c(1), 2)\n', '#f(g(a./* c */b.c(1)))\n', '$ #f(a/* c */.b) $\n', '#f[#a/* c */.b.c(1)]\n', '#let f(x: a/* c */.b) = 1\n']


def native_sweep(S, prop):
    hits = []
    for src in CORPUS:
        if S.driver.call('erroneous', hexs(src))[1] == '1':
            continue
        for w in (80, 40, 0):
            r = S.driver.call('format', hexs(src), w, 2, 0)
            if r[0] != 'ok':
                continue
            out = unhexs(r[1])
            if prop == 'C04' and S.driver.call('erroneous', r[1])[1] == '1':
                hits.append(dict(api='Typstyle::format_content', source=src, width=w, output=out, suppressed=src.startswith(('text', '*')),
                                 what='well-formed %s is formatted to text with syntax errors: %s' % (show(src), show(out))))
                break
            if prop == 'C06':
                a = S.driver.call('comments', hexs(src))
                b = S.driver.call('comments', r[1])
                if a[0] == 'ok' and b[0] == 'ok' and a[1:] != b[1:]:
                    hits.append(dict(api='Typstyle::format_content', source=src, width=w, output=out, suppressed=src.startswith(('text', '*')),
                                     what='comments of %s changed (width %d): %r -> %r in %s' % (show(src), w, [unhexs(x) for x in a[1:]], [unhexs(x) for x in b[1:]], show(out))))
                    break
    return hits


def report(S, prop, found):
    labs = sorted({lab for lab, info in found if lab.startswith(prop + ':')})
    if not labs:
        return
    hits = native_sweep(S, prop)
    for lab in labs:
        infos = [i for l, i in found if l == lab]
        # role: does the loss need suppressed breaks (code inside a text line)?
        sup = [i for i in infos if i.get('suppressed')]
        nos = [i for i in infos if not i.get('suppressed')]
        for role, group in ((':breaks-suppressed', sup), ('', nos)):
            if not group:
                continue
            h = [x for x in hits if bool(x['suppressed']) == bool(role)]
            if h:
                S.violation(lab + role, '%s%s: %s' % (lab, role, h[0]['what']), dict(api=h[0], model=group[0]))
            else:
                S.inconclusive.append('%s%s: the solver model (%r) has no reproduction in the native corpus' % (lab, role, group[0]))
