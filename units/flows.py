"""convert_flow_like_iter + FlowStylist (code_flow.rs / layout/flow.rs) and optional parentheses (parened_expr.rs)."""
import itertools
import z3

from mirsym.values import *
from mirsym.explore import Panic
from mirsym import models_typst as T
from mirsym import models_doc as D
from mirsym.models_std import STD, Str, Vec, is_ws, c_eq, valid_scalar, ListIter
from mirsym.models_typst import Node, Ast
from mirsym.session import hexs, unhexs
from . import pp
from .common import *
from .markup import is_newline, NEWLINES
from .lists import show_atoms

CATS = ['kw', 'line', 'block', 'space', 'hash', 'other']


def flow_item(doc, sb, sa):
    return Agg('FlowItem', None, (some(Agg('FlowItemRepr', None, (doc, sb, sa), ('doc', 'space_before', 'space_after'))),), ('0',))


FLOW_NONE = Agg('FlowItem', None, (NONE,), ('0',))


def explore_flow(S, K, want=('C04', 'C05', 'C06')):
    kt = T.KT
    core = S.core
    fn = S.find_fn(core, 'PrettyPrinter::convert_flow_like_iter')
    found = []

    def sequences(k):
        for combo in itertools.product(CATS, repeat=k):
            ok = True
            for i, c in enumerate(combo):
                if c == 'line' and i + 1 < k and combo[i + 1] != 'space':
                    ok = False
                if c == 'space' and i + 1 < k and combo[i + 1] == 'space':
                    ok = False
            if ok:
                yield combo

    def make_body(combo):
        def body(ctx):
            m = S.machine(core, STD, ctx)
            nodes = []
            flags = {}
            for i, c in enumerate(combo):
                if c == 'kw':
                    nd = Node(kt.k('Let'), text=Str.lit('let'))
                elif c == 'line':
                    nd = Node(kt.k('LineComment'), text=Str.lit('//c%d' % i))
                elif c == 'block':
                    nd = Node(kt.k('BlockComment'), text=Str.lit('/*c%d*/' % i))
                elif c == 'hash':
                    nd = Node(kt.k('Hash'), text=Str.lit('#'))
                elif c == 'space':
                    c0 = z3.BitVec('sp%d_0' % i, 32)
                    c1 = z3.BitVec('sp%d_1' % i, 32)
                    for cc in (c0, c1):
                        ctx.assume(valid_scalar(cc))
                        ctx.assume(is_ws(cc))
                    if i > 0 and combo[i - 1] == 'line':
                        ctx.assume(is_newline(c0))      # lexer fact: a line comment ends at a Typst newline
                    nd = Node(kt.k('Space'), text=Str((c0, c1)))
                else:
                    nd = Node(kt.k('Ident'), text=Str.lit('x%d' % i))
                    flags[nd.nid] = (z3.Bool('none%d' % i), z3.Bool('sb%d' % i), z3.Bool('sa%d' % i))
                nodes.append(nd)
            # Space children reach the producer too (unless they follow a line comment): producers ignore them or emit breaks
            for i, c in enumerate(combo):
                if c == 'space':
                    flags[nodes[i].nid] = (z3.Bool('none%d' % i), z3.Bool('sb%d' % i), z3.Bool('sa%d' % i))
            produced = []

            ctxs = {}

            def producer(mm, args):
                node = mm.load(args[1]) if isinstance(args[1], Ref) else args[1]
                ctxs[node.nid] = args[0]
                none, sb, sa = flags[node.nid]
                if mm.ctx.branch(none):
                    return FLOW_NONE
                produced.append(node.nid)
                return flow_item(D.opaque_doc('item', (node.nid,)), sb, sa)
            pr, cfg = pp.printer(m)

            def describe(mdl):
                return dict(children=list(combo), spaces={str(i): nodes[i].text.concrete(mdl) for i, c in enumerate(combo) if c == 'space'},
                            items={str(i): dict(none=model_bool(mdl, flags[nodes[i].nid][0]), space_before=model_bool(mdl, flags[nodes[i].nid][1]),
                                                space_after=model_bool(mdl, flags[nodes[i].nid][2])) for i, c in enumerate(combo) if nodes[i].nid in flags})
            c_in = pp.context()
            try:
                doc = m.call_fn(fn, [pr, c_in, ListIter(nodes), PyFn(producer, 'producer')])
            except Panic as p:
                S.absorb(m)
                if 'C05' in want:
                    ctx.must_hold(False, 'C05:flow-panic', lambda mdl: dict(describe(mdl), panic=p.msg))
                return
            S.absorb(m)
            at = D.atoms(doc, flat=False)
            line_texts = {('//c%d' % i) for i, c in enumerate(combo) if c == 'line'}
            # (F1) a line comment is followed by a line break or nothing
            swallowed = False
            adjacent_blanks = False
            for j, a in enumerate(at):
                if a[0] == 't' and a[1].is_concrete():
                    s = a[1].concrete()
                    if s in line_texts and j + 1 < len(at) and at[j + 1] != ('nl',):
                        swallowed = True
                    if s == ' ' and j + 1 < len(at) and at[j + 1][0] == 't' and at[j + 1][1].is_concrete() and at[j + 1][1].concrete() == ' ':
                        adjacent_blanks = True
            nonls = False
            for i, c in enumerate(combo):
                if c == 'space' and i > 0 and combo[i - 1] == 'line':
                    nonls = True
            if 'C04' in want:
                ctx.must_hold(not swallowed, 'C04:flow-line-comment-not-followed-by-line-break', lambda mdl: dict(describe(mdl), atoms=show_atoms(at)))
                ctx.must_hold(not adjacent_blanks, 'C04:flow-double-blank', lambda mdl: dict(describe(mdl), atoms=show_atoms(at)))
            # (F2) conservation
            if 'C06' in want:
                expected = []
                for i, c in enumerate(combo):
                    nd = nodes[i]
                    if c == 'kw':
                        expected.append('let')
                    elif c in ('line', 'block'):
                        expected.append(nd.text.concrete())
                    elif c == 'hash':
                        expected.append('#')
                    elif nd.nid in produced:
                        expected.append(('item', nd.nid))
                got = []
                for a in at:
                    if a[0] == 'o':
                        got.append(('item', a[2][0]))
                    elif a[0] == 't' and a[1].is_concrete() and a[1].concrete() != ' ':
                        got.append(a[1].concrete())
                ctx.must_hold(got == expected, 'C06:flow-comments-or-items-not-conserved', lambda mdl: dict(describe(mdl), atoms=show_atoms(at)))
            # (F3) keyword / item separation: a blank sits between two consecutive atoms iff the left allows a blank after and the right before
            if 'C04' in want:
                toks = []     # (atom index, allows_before, allows_after)
                for j, a in enumerate(at):
                    if a[0] == 'o':
                        none, sb, sa = flags[a[2][0]]
                        toks.append((j, sb, sa))
                    elif a[0] == 't' and a[1].is_concrete():
                        s = a[1].concrete()
                        if s == 'let':
                            toks.append((j, True, True))
                        elif s.startswith('/*'):
                            toks.append((j, True, True))
                        elif s == '#':
                            toks.append((j, True, False))
                        elif s.startswith('//'):
                            toks.append((j, True, None))
                    elif a == ('nl',):
                        toks.append((j, False, False))
                conds = []
                for (j1, b1, a1), (j2, b2, a2) in zip(toks, toks[1:]):
                    if a1 is None or at[j1] == ('nl',) or at[j2] == ('nl',):
                        continue
                    blank_between = (j2 == j1 + 2)
                    # a line comment that is not at the start of a line always gets a blank before it
                    if at[j2][0] == 't' and at[j2][1].is_concrete() and at[j2][1].concrete().startswith('//'):
                        conds.append(blank_between)
                    else:
                        conds.append(i_eq(blank_between, b_and(a1, b2)))
                ctx.must_hold(b_and(*conds), 'C04:flow-spacing-wrong', lambda mdl: dict(describe(mdl), atoms=show_atoms(at)))
            # mode tracking: the child right after a hash is produced in Code mode, every other child in the incoming mode
            if 'C04' in want:
                conds = []
                for i, c in enumerate(combo):
                    nd = nodes[i]
                    if nd.nid in ctxs:
                        cx = ctxs[nd.nid]
                        after_hash = i > 0 and combo[i - 1] == 'hash'
                        conds.append(i_eq(cx.get('mode').disc, 1 if after_hash else c_in.get('mode').disc, 64))
                        conds.append(i_eq(cx.get('break_suppressed'), c_in.get('break_suppressed')))
                ctx.must_hold(b_and(*conds), 'C04:flow-mode-tracking-wrong', lambda mdl: dict(describe(mdl), atoms=show_atoms(at)))
            if 'line' in combo:
                ctx.witness('flow with line comment')
            if 'hash' in combo:
                ctx.witness('flow with hash')
        return body

    tasks = []
    for k in range(0, K + 1):
        for combo in sequences(k):
            tasks.append(('flow[%s]' % ','.join(combo), 'convert_flow_like_iter over children %r with arbitrary producer results' % (combo,),
                          make_body(combo), dict(children=k)))
    for ob, viol in S.explore_batch(tasks):
        for lab, mdl, info in viol:
            found.append((lab, info))
    return found


def explore_parens(S, prop='C04'):
    """optional_paren / convert_expr_with_optional_paren / parenthesize_if_necessary"""
    kt = T.KT
    core = S.core
    f_opt = S.find_fn(core, 'optional_paren')
    f_conv = S.find_fn(core, 'PrettyPrinter::convert_expr_with_optional_paren')
    f_par = S.find_fn(core, 'PrettyPrinter::parenthesize_if_necessary')
    found = []

    def check_wrapper(ctx, doc, body_doc, indent, delims, label, describe):
        """doc must be group(nest(indent, flat_alt(open.hardline, nil) . body) . flat_alt(hardline.close, nil))"""
        ok_shape = doc.k == 'group'
        flat = D.atoms(doc, flat=True) if ok_shape else None
        broken = D.atoms(doc, flat=False) if ok_shape else None
        body_flat = D.atoms(body_doc, flat=True)
        body_broken = D.atoms(body_doc, flat=False)
        ctx.must_hold(ok_shape and flat == body_flat, label + ':parentheses-present-when-flat', describe)
        exp = [('t', delims[0]), ('nl',)] + body_broken + [('nl',), ('t', delims[1])]
        got = [(a[0], a[1].concrete()) if a[0] == 't' and a[1].is_concrete() else a for a in (broken or [])]
        exp2 = [(a[0], a[1]) if a[0] == 't' and isinstance(a[1], str) else ((a[0], a[1].concrete()) if a[0] == 't' and a[1].is_concrete() else a) for a in exp]
        ctx.must_hold(ok_shape and got == exp2, label + ':parentheses-missing-or-unbalanced-when-broken', describe)
        nests = D.nest_offsets(doc) if ok_shape else []
        ctx.must_hold(len(nests) >= 1 and i_eq(nests[0], indent, 64), label + ':indent-is-not-the-configured-unit', describe)

    def body_opt(ctx):
        m = S.machine(core, STD, ctx)
        indent = z3.BitVec('indent', 64)
        ctx.assume(z3.ULT(indent, 1 << 31))
        which = z3.Bool('braces')
        delims = ('{', '}') if ctx.branch(which) else ('(', ')')
        bd = D.opaque_doc('body')
        doc = m.call_fn(f_opt, [Opaque('arena', ()), bd, indent, tup(Str.lit(delims[0]), Str.lit(delims[1]))])
        S.absorb(m)
        check_wrapper(ctx, doc, bd, indent, delims, prop + ':optional-paren', lambda mdl: dict(indent=model_int(mdl, indent), delims=delims))
    ob, ex = S.explore('parens.optional_paren', 'optional_paren: delimiters appear exactly in the broken layout, matching, nested by the given indent', body_opt)
    for lab, mdl, info in ex.violations:
        found.append((lab, info))

    # convert_expr_with_optional_paren: every expression kind
    expr_kinds = sorted(kt.cast_variant['Expr'].items())
    for kind, variant in expr_kinds:
        def body_conv(ctx, kind=kind, variant=variant):
            rec = {}

            def conv(mm, a, ci):
                rec['ctx'] = a[1]
                rec['calls'] = rec.get('calls', 0) + 1
                return D.opaque_doc('expr')
            m = S.machine(core, STD, ctx, overrides={'convert_expr': conv})
            pr, cfg = pp.printer(m)
            node = Node(kind, text=Str.lit('e'))
            expr = T.make_cast(m, node, 'Expr')
            c = pp.context()
            braces = z3.Bool('use_braces')
            doc = m.call_fn(f_conv, [pr, c, expr, braces])
            S.absorb(m)
            describe = lambda mdl: dict(kind=kt.names[kind], use_braces=model_bool(mdl, braces), suppressed=model_bool(mdl, c.get('break_suppressed')),
                                        mode=model_int(mdl, c.get('mode').disc))
            ctx.must_hold(rec.get('calls') == 1, prop + ':expression-converted-not-exactly-once', describe)
            if doc.k == 'opaque':
                # no wrapper: context passed through unchanged
                ctx.must_hold(b_and(i_eq(rec['ctx'].get('mode').disc, c.get('mode').disc), i_eq(rec['ctx'].get('break_suppressed'), c.get('break_suppressed'))),
                              prop + ':context-changed-without-wrapper', describe)
                ctx.witness('unwrapped')
            else:
                ctx.must_hold(b_not(c.get('break_suppressed')), prop + ':wrapper-added-although-breaks-are-suppressed', describe)
                d = ('{', '}') if ctx.branch(braces) else ('(', ')')
                exp_mode = 1 if d[0] == '{' else 2
                ctx.must_hold(i_eq(rec['ctx'].get('mode').disc, exp_mode, 64), prop + ':wrapped-expression-converted-in-wrong-mode', describe)
                check_wrapper(ctx, doc, D.opaque_doc('expr'), cfg.get('tab_spaces'), d, prop + ':optional-paren', describe)
                ctx.witness('wrapped')
        ob, ex = S.explore('parens.expr[%s]' % kt.names[kind], 'convert_expr_with_optional_paren on %s: wrapper only when breaks are allowed, correct mode and delimiters' % kt.names[kind],
                           body_conv, bounds=dict(kind=kt.names[kind]))
        for lab, mdl, info in ex.violations:
            found.append((lab, info))

    def body_par(ctx):
        rec = {}

        def bodyfn(mm, args):
            rec['ctx'] = args[0]
            rec['calls'] = rec.get('calls', 0) + 1
            return D.opaque_doc('body')
        m = S.machine(core, STD, ctx)
        pr, cfg = pp.printer(m)
        c = pp.context()
        doc = m.call_fn(f_par, [pr, c, PyFn(bodyfn, 'body')])
        S.absorb(m)
        describe = lambda mdl: dict(mode=model_int(mdl, c.get('mode').disc), suppressed=model_bool(mdl, c.get('break_suppressed')))
        ctx.must_hold(rec.get('calls') == 1, prop + ':body-converted-not-exactly-once', describe)
        ctx.must_hold(i_eq(rec['ctx'].get('mode').disc, 2, 64), prop + ':body-not-converted-in-continued-code-mode', describe)
        if doc.k == 'opaque':
            ctx.must_hold(i_eq(c.get('mode').disc, 2, 64), prop + ':no-parentheses-outside-continued-code-mode', describe)
        else:
            check_wrapper(ctx, doc, D.opaque_doc('body'), cfg.get('tab_spaces'), ('(', ')'), prop + ':optional-paren', describe)
    ob, ex = S.explore('parens.parenthesize_if_necessary', 'parenthesize_if_necessary: body converted once in CodeCont; wrapper unless already in CodeCont', body_par)
    for lab, mdl, info in ex.violations:
        found.append((lab, info))
    return found
