"""pretty/comment.rs kernels over all block-comment texts up to N code points.

Units (real MIR): comment, line_comment, block_comment, get_comment_style, get_follow_leading (+closures),
align_multiline, align_multiline_simple.  Obligations used by C03 (second pass computes the same alignment),
C05 (panic freedom: unwrap, slice index, unreachable!) and C06 (comment text preserved).
"""
import z3

from mirsym.values import *
from mirsym.explore import Panic
from mirsym import models_typst as T
from mirsym import models_doc as D
from mirsym.models_std import STD, Str, sym_str, is_ws, c_eq, str_eq, valid_scalar
from mirsym.models_typst import Node
from mirsym.session import hexs, unhexs
from .common import *


def comment_text_open(ctx, n_inner):
    """a block comment the source never closes: '/*' + X up to the end of the text (the lexer reads it as one comment token, not as an error).
    X holds no closing delimiter (it would end the comment) and no opening one (nesting is excluded as for closed comments)"""
    inner = sym_str(ctx, 't', n_inner)
    for i in range(n_inner - 1):
        a, b = inner.chars[i], inner.chars[i + 1]
        ctx.assume(z3.Not(z3.And(a == ord('*'), b == ord('/'))))
        ctx.assume(z3.Not(z3.And(a == ord('/'), b == ord('*'))))
    return Str((ord('/'), ord('*')) + inner.chars), inner


def comment_text(ctx, n_inner):
    """a block comment token: '/*' + X + '*/' where the lexer's scan (state machine over '*/' and '/*') ends exactly at the final '/':
    X contains neither delimiter as a substring and does not end with '/' (which would open a nested comment with the closing '*')"""
    inner = sym_str(ctx, 't', n_inner)
    for i in range(n_inner - 1):
        a, b = inner.chars[i], inner.chars[i + 1]
        ctx.assume(z3.Not(z3.And(a == ord('*'), b == ord('/'))))
        ctx.assume(z3.Not(z3.And(a == ord('/'), b == ord('*'))))
    if n_inner:
        ctx.assume(inner.chars[-1] != ord('/'))
    return Str((ord('/'), ord('*')) + inner.chars + (ord('*'), ord('/'))), inner


def split_lines(ctx, s):
    """spec-level split at LF (characters already decided by the code's own `lines()` calls, so no new paths in general)"""
    lines = []
    cur = []
    for c in s.chars:
        if ctx.branch(c_eq(c, 10)):
            lines.append(Str(cur))
            cur = []
        else:
            cur.append(c)
    lines.append(Str(cur))
    return lines


def doc_lines(doc):
    """lines of a comment doc: list of Str (text atoms concatenated between hardlines); also returns the style of wrapper"""
    at = D.atoms(doc, flat=False)
    lines = [()]
    for a in at:
        if a[0] == 'nl':
            lines.append(())
        elif a[0] == 't':
            lines[-1] = lines[-1] + a[1].chars
        else:
            raise ValueError('unexpected atom %r' % (a,))
    return [Str(l) for l in lines]


def wrapper_kind(doc):
    """'align' for Plain (doc.align()), 'hang1' for Bullet (nest(1).align()), 'text' for a bare text"""
    if doc.k == 'align' and doc.a.k == 'nest':
        return 'hang', doc.a.a
    if doc.k == 'align':
        return 'align', 0
    if doc.k == 'text':
        return 'text', 0
    return doc.k, None


def eq_modulo_blanks(out, inp, first):
    """out == inp[k : len-r] with inp[:k] and inp[len-r:] all White_Space (k = 0 for the first line)"""
    d = len(inp) - len(out)
    if d < 0:
        return False
    alts = []
    for k in range(0, (0 if first else d) + 1):
        r = d - k
        conds = [is_ws(c) for c in inp.chars[:k]] + [is_ws(c) for c in inp.chars[len(inp) - r:]] if r else [is_ws(c) for c in inp.chars[:k]]
        conds += [c_eq(a, b) for a, b in zip(out.chars, inp.chars[k:len(inp) - r])]
        alts.append(b_and(*conds))
    return b_or(*alts)


def rstrip_sym(ctx, s):
    j = len(s)
    while j > 0 and ctx.branch(is_ws(s.chars[j - 1])):
        j -= 1
    return s.sub(0, j)


def explore_block(S, n_inner_max, cols, want=('C03', 'C05', 'C06')):
    kt = T.KT
    core = S.core
    fn = S.find_fn(core, 'block_comment')
    found = []
    for n, closed in [(n_, True) for n_ in range(0, n_inner_max + 1)] + [(n_, False) for n_ in range(0, n_inner_max + 1) if 'C05' in want]:
        def body(ctx, n=n, closed=closed):
            m = S.machine(core, STD, ctx)
            t, inner = comment_text(ctx, n) if closed else comment_text_open(ctx, n)
            node = Node(kt.k('BlockComment'), text=t)

            def describe(mdl):
                return dict(text=t.concrete(mdl))
            try:
                doc = m.call_fn(fn, [Opaque('arena', ()), node])
            except Panic as p:
                S.absorb(m)
                if 'C05' in want:
                    ctx.must_hold(False, 'C05:comment-panic', lambda mdl: dict(describe(mdl), panic=p.msg))
                return
            S.absorb(m)
            wk, wn = wrapper_kind(doc)
            try:
                outs = doc_lines(doc)
            except ValueError as e:
                ctx.must_hold(False, 'C06:comment-doc-shape', describe)
                return
            ins = split_lines(ctx, t)
            if 'C06' in want and closed:      # (a comment that is never closed ends with the text: its trailing line ends merge with the end of the output)
                ctx.must_hold(len(outs) == len(ins), 'C06:comment-line-count', describe)
                if len(outs) == len(ins):
                    conds = [eq_modulo_blanks(o, i, k == 0) for k, (o, i) in enumerate(zip(outs, ins))]
                    ctx.must_hold(b_and(*conds), 'C06:comment-text-changed', describe)
                ctx.must_hold(wk in ('align', 'hang', 'text') and (wk != 'hang' or wn == 1), 'C06:comment-doc-shape', describe)
                if len(ins) > 1:
                    ctx.witness('multi-line comment')
            if 'C03' in want and closed and wk in ('align', 'hang') and len(outs) == len(ins):
                ctx.witness('style ' + wk)
                for col in cols:
                    indent = col + (1 if wk == 'hang' else 0)
                    # what the rendered and post-processed comment looks like at column `col`
                    final = []
                    for k, o in enumerate(outs):
                        line = o if k == 0 else Str((32,) * indent + o.chars)
                        if k < len(outs) - 1:
                            line = rstrip_sym(ctx, line)
                        final.append(line)
                    cs = ()
                    for k, l in enumerate(final):
                        cs = cs + l.chars + ((10,) if k < len(final) - 1 else ())
                    t2 = Str(cs)
                    m2 = S.machine(core, STD, ctx)
                    try:
                        doc2 = m2.call_fn(fn, [Opaque('arena', ()), Node(kt.k('BlockComment'), text=t2)])
                    except Panic as p:
                        ctx.must_hold(False, 'C03:second-pass-panics', lambda mdl: dict(describe(mdl), column=col, second_input=t2.concrete(mdl)))
                        continue
                    wk2, wn2 = wrapper_kind(doc2)
                    outs2 = doc_lines(doc2)
                    same = wk2 == wk and len(outs2) == len(outs)
                    if same:
                        conds = []
                        for k, (o1, o2) in enumerate(zip(outs, outs2)):
                            l1 = o1 if k == 0 else Str((32,) * indent + o1.chars)
                            l2 = o2 if k == 0 else Str((32,) * indent + o2.chars)
                            if k < len(outs) - 1:
                                l1 = rstrip_sym(ctx, l1)
                                l2 = rstrip_sym(ctx, l2)
                            conds.append(False if len(l1) != len(l2) else str_eq(l1, l2))
                        same = b_and(*conds)
                    ctx.must_hold(same, 'C03:comment-realigned-differently', lambda mdl: dict(describe(mdl), column=col, second_input=t2.concrete(mdl)))

        ob, ex = S.explore('comment.block[inner=%d%s]' % (n, '' if closed else ',unterminated'),
                           'block_comment on every "/*" + %d code points' % n + (' + "*/"' if closed else ' (never closed: the comment runs to the end of the text)') + ': panic freedom, text preserved line by line modulo leading/trailing '
                           'blanks, and a second pass over the laid-out comment (columns %r) yields the same text' % (list(cols),),
                           body, bounds=dict(inner_code_points=n, columns=list(cols)), parallel=True)
        for lab, mdl, info in ex.violations:
            found.append((lab, info))
        if ob.status.startswith('inconclusive') or ex.violations:
            break
    return found


def explore_line(S, n_max):
    """line comments are emitted byte-identically"""
    kt = T.KT
    core = S.core
    fn = S.find_fn(core, 'comment')
    found = []
    for n in range(0, n_max + 1):
        def body(ctx, n=n):
            m = S.machine(core, STD, ctx)
            inner = sym_str(ctx, 't', n)
            for c in inner.chars:
                ctx.assume(c != 10)     # lexer fact: a line comment ends before the line feed
            t = Str((ord('/'), ord('/')) + inner.chars)
            kind = z3.BitVec('kind', 8)
            ctx.assume(z3.Or(kind == kt.k('LineComment'), kind == kt.k('BlockComment')))
            ctx.assume(kind == kt.k('LineComment'))
            node = Node(kind, text=t)
            try:
                doc = m.call_fn(fn, [Opaque('arena', ()), node])
            except Panic as p:
                S.absorb(m)
                ctx.must_hold(False, 'C05:comment-panic', lambda mdl: dict(text=t.concrete(mdl), panic=p.msg))
                return
            S.absorb(m)
            good = doc.k == 'text' and len(doc.a) == len(t)
            ctx.must_hold(good and str_eq(doc.a, t), 'C06:line-comment-text-changed', lambda mdl: dict(text=t.concrete(mdl)))
        ob, ex = S.explore('comment.line[n=%d]' % n, 'comment() on every line comment "//" + %d code points: emitted byte-identically' % n, body,
                           bounds=dict(code_points=n))
        for lab, mdl, info in ex.violations:
            found.append((lab, info))
    return found


def native_block(S, text, col):
    r = S.driver.call('block_comment', hexs(text), hexs(' ' * col))
    if r[0] != 'ok':
        return None
    return unhexs(r[1])[col:]


def py_strip(s):
    return '\n'.join(l.rstrip(''.join(WS_SET)) for l in s.split('\n'))


def confirm(S, lab, info):
    """native reproduction through the real block_comment (hook) and through Typstyle::format_content"""
    text = info['text']
    prop = lab.split(':')[0]
    if 'second_input' in info or prop == 'C03':
        col = info.get('column', 2)
        a = native_block(S, text, col)
        if a is None:
            return dict(what='block_comment panics on %s' % show(text), unit=dict(fn='comment::block_comment', text=text))
        a1 = py_strip(a)
        b = native_block(S, a1, col)
        if b is None or py_strip(b) != a1:
            # API: a comment at that column inside code
            api = None
            src = '#{\n' + ' ' * 2 + text + '\n}\n'
            f1 = S.driver.call('format', hexs(src), 80, 2, 0)
            if f1[0] == 'ok':
                f2 = S.driver.call('format', f1[1], 80, 2, 0)
                if f2[0] != 'ok' or f2[1] != f1[1]:
                    api = dict(api='format(format(x))', source=src, first=unhexs(f1[1]), second=unhexs(f2[1]) if f2[0] == 'ok' else f2[0])
            return dict(what='block comment %s at column %d is re-aligned differently by a second pass: %s then %s' % (show(text), col, show(a1), show(py_strip(b) if b else 'PANIC')),
                        unit=dict(fn='comment::block_comment', text=text, column=col, first=a1, second=b), api=api)
        return None
    if lab.endswith('panic'):
        r = S.driver.call('block_comment', hexs(text), '-')
        if r[0] in ('panic', 'abort'):
            src = '#{\n  ' + text + '\n}\n' if text.endswith('*/') else 'a ' + text
            f = S.driver.call('format', hexs(src), 80, 2, 0)
            return dict(what='block_comment panics on %s' % show(text), unit=dict(fn='comment::block_comment', text=text),
                        api=dict(api='Typstyle::format_content', source=src, result=f[0]))
        return None
    # C06 text preservation
    if text.startswith('//'):
        r = S.driver.call('line_comment', hexs(text))
        out = unhexs(r[1]) if r[0] == 'ok' else None
        if out != text:
            return dict(what='line comment %s emitted as %s' % (show(text), show(out or 'PANIC')), unit=dict(fn='comment::comment', text=text, out=out))
        return None
    out = native_block(S, text, 0)
    if out is None:
        return dict(what='block_comment panics on %s' % show(text), unit=dict(fn='comment::block_comment', text=text))
    ws = ''.join(WS_SET)
    il = text.split('\n')
    ol = out.split('\n')
    bad = len(il) != len(ol)
    if not bad:
        for k, (i, o) in enumerate(zip(il, ol)):
            if k == 0:
                bad |= i.rstrip(ws) != o.rstrip(ws)
            else:
                bad |= i.strip(ws) != o.strip(ws)
    if bad:
        src = '#{\n  ' + text + '\n}\n'
        f = S.driver.call('format', hexs(src), 80, 2, 0)
        return dict(what='block comment %s is emitted as %s' % (show(text), show(out)), unit=dict(fn='comment::block_comment', text=text, out=out),
                    api=dict(api='Typstyle::format_content', source=src, output=unhexs(f[1]) if f[0] == 'ok' else f[0]))
    return None


def report(S, prop, found):
    groups = {}
    for lab, info in found:
        if lab.startswith(prop + ':'):
            groups.setdefault(lab, []).append(info)
    for lab, infos in groups.items():
        ok_ = None
        for info in infos[:5]:
            w = confirm(S, lab, info)
            if w:
                ok_ = (info, w)
                break
        if ok_:
            S.violation(lab, '%s: %s' % (lab, ok_[1]['what']), dict(unit=ok_[1].get('unit'), api=ok_[1].get('api'), model=ok_[0]))
        else:
            S.inconclusive.append('%s: no solver model reproduced natively (%r)' % (lab, infos[0]))


ASSUMPTIONS = [
    'lexer fact: a block comment token is "/*" ... "*/" with balanced interior (interiors containing comment delimiters are excluded), a line comment contains no line feed',
    'layout of align()/hang(1): continuation lines are indented to the column of the comment start (+1 for hang) - pretty\'s documented semantics, validated natively per counterexample',
    'continuation lines are compared after strip_trailing_whitespace (that is what the second pass sees)',
]
