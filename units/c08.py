"""C08 — prose untouched: whitespace tokens map 1-1 to blank / line break / paragraph break(n); text verbatim."""
import z3

from mirsym.values import *
from mirsym.explore import Panic
from mirsym import models_typst as T
from mirsym import models_doc as D
from mirsym.models_std import STD, Str, sym_str, is_ws, c_eq, str_eq
from mirsym.models_typst import Node, Ast
from mirsym.session import hexs, unhexs
from . import pp, markup
from .common import *

EXPLANATION = (
    "Bounded symbolic execution (MIR->SMT, z3). Kernels: PrettyPrinter::convert_space / convert_parbreak / convert_text with "
    "StrExt::has_linebreak / count_linebreaks and DocExt::repeat_n over every whitespace token of up to N code points (each an "
    "arbitrary White_Space scalar, so every newline character Typst recognises - LF, VT, FF, CR, NEL, LS, PS - is covered): a Space "
    "token yields a hard line break iff it contains a Typst newline and one blank otherwise; a Parbreak with k newlines (CR LF = 1) "
    "yields exactly k hard line breaks; Text is emitted verbatim. Markup loop: collect_markup_repr + convert_markup_impl over every "
    "child sequence of up to K nodes with symbolic kinds and whitespace texts, converters opaque: interior whitespace children map in "
    "order to blank / 1 hardline / k hardlines, other children appear once each in order, and expressions on a line that also holds "
    "text are converted with breaks suppressed.  Nested markup composition and what the renderer does with the atoms are outside the claim. Session 3: whole documents through the real printer, the interpreted renderer at narrow and wide widths and the REAL parser: a line that holds prose stays one line and none of its elements gains a line break inside (tables and multi-statement / commented code blocks, which the printer always expands, are exempt).")


def run(S):
    kt = T.KT = T.KindTable(S.driver, S.adts)
    N = 3 if S.tier == 'quick' else 4
    K = 3 if S.tier == 'quick' else 4
    found = []
    found += markup.explore_tokens(S, N)
    if not found:
        found += markup.explore_markup(S, K, focus_last=S.tier == 'quick')
    markup.report(S, 'C08', found)
    # whole prose documents through the real printer (nested markup: list items, headings, strong / emph, content blocks), blanks symbolic
    from . import deep
    fd, cov = deep.explore(S, deep.PROSE + deep.DOCS, want=('C08',))
    deep.report(S, 'C08', fd)
    if cov['decided'] < cov['docs']:
        S.inconclusive.append('deep prose documents: %r' % (cov['gaps'][:3],))
    S.assumptions += markup.ASSUMPTIONS
    # whole documents through the real printer, the interpreted renderer at narrow and wide widths and the real parser: a line that holds prose stays
    # one line and none of its elements gains a line break inside
    from . import reparse as _rp
    _docs = _rp.PROSE_LINE_DOCS + deep.PROSE + _rp.EVAL_DOCS
    _fr, _covr = _rp.explore(S, _docs, tabs=(2,) if S.tier == 'quick' else (2, 4), widths=(0, 15, 40, 1 << 30) if S.tier == 'quick' else (0, 10, 15, 20, 30, 40, 80, 1 << 30), prop='C08')
    _rp.report(S, 'C08', _fr)
    # generated families (construct x spelling x context x comment position, ~4000 well-formed documents): a sample that depends on VERIF_SEED in the
    # quick tier, all of them in the thorough tier
    from . import reparse as _rpf
    _fam = _rpf.families(S, seed=S.seed, limit=600 if S.tier == 'quick' else None)
    if 'C08' == 'C09':
        _fam = [d_ for d_ in _fam if '$' in d_]
    _ff, _covf = _rpf.explore(S, _fam, tabs=(2,), widths=(0, 1 << 30) if S.tier == 'quick' else (0, 20, 40, 80, 1 << 30), prop='C08')
    _rpf.report(S, 'C08', _ff)
    return S.finish(level='other', explanation=EXPLANATION, trusted=['mirsym encoder', 'typst-syntax kind tables', 'pretty Doc algebra contracts'])
