"""helpers for harnesses over the PrettyPrinter methods"""
import z3

from mirsym.values import *
from mirsym import models_doc as D
from mirsym.models_std import STD, Str, OStr, Vec, MapV

CFG_NAMES = ('tab_spaces', 'max_width', 'blank_lines_upper_bound', 'reorder_import_items')


def sym_config(prefix='cfg'):
    return Agg('Config', None, (z3.BitVec(prefix + '_tab', 64), z3.BitVec(prefix + '_width', 64), z3.BitVec(prefix + '_blank', 64),
                                z3.Bool(prefix + '_reorder')), CFG_NAMES)


def printer(m, cfg=None, attrs=None):
    """a &PrettyPrinter: struct {config, attr_store, arena} in a heap cell"""
    if cfg is None:
        cfg = sym_config()
    if attrs is None:
        attrs = Agg('AttrStore', None, (MapV(),), ('attr_map',))     # no marks: nothing disabled, nothing multiline
    p = Agg('PrettyPrinter', None, (cfg, attrs, Opaque('arena', ())), ('config', 'attr_store', 'arena'))
    return m.heap.alloc(p), cfg


def context(mode=None, suppressed=None):
    if mode is None:
        mode = z3.BitVec('ctx_mode', 64)
    if suppressed is None:
        suppressed = z3.Bool('ctx_suppressed')
    return Agg('Context', None, (CEnum('Mode', mode, 64), suppressed), ('mode', 'break_suppressed'))
