"""helpers for harnesses over the PrettyPrinter methods"""
import z3

from mirsym.values import *
from mirsym import models_doc as D
from mirsym.models_std import STD, Str, OStr, Vec, MapV

CFG_NAMES = ('tab_spaces', 'max_width', 'blank_lines_upper_bound', 'reorder_import_items')


def sym_config(prefix='cfg'):
    return Agg('Config', None, (z3.BitVec(prefix + '_tab', 64), z3.BitVec(prefix + '_width', 64), z3.BitVec(prefix + '_blank', 64),
                                z3.Bool(prefix + '_reorder')), CFG_NAMES)


def printer(m, cfg=None, attrs=None):
    """a &PrettyPrinter: struct {config, attr_store, arena} in a heap cell"""
    if cfg is None:
        cfg = sym_config()
    if attrs is None:
        attrs = Agg('AttrStore', None, (MapV(),), ('attr_map',))     # no marks: nothing disabled, nothing multiline
    p = Agg('PrettyPrinter', None, (cfg, attrs, Opaque('arena', ())), ('config', 'attr_store', 'arena'))
    return m.heap.alloc(p), cfg


def context(mode=None, suppressed=None):
    if mode is None:
        mode = z3.BitVec('ctx_mode', 64)
    if suppressed is None:
        suppressed = z3.Bool('ctx_suppressed')
    # field order from the current sources; fields this harness does not know are flags that start out false (as in Context::default())
    from mirsym import adts as _adts
    global _CTX_FIELDS
    if _CTX_FIELDS is None:
        _CTX_FIELDS = tuple(_adts.load_adts().structs.get('Context') or ('mode', 'break_suppressed'))
    vals = {'mode': CEnum('Mode', mode, 64), 'break_suppressed': suppressed}
    return Agg('Context', None, tuple(vals.get(n, False) for n in _CTX_FIELDS), _CTX_FIELDS)


_CTX_FIELDS = None
