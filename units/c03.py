"""C03 — convergence: the anchored string-level mechanisms are fixed points."""
from mirsym import models_typst as T
from . import kern, comments, lists

EXPLANATION = (
    "Bounded symbolic execution (MIR->SMT, z3) of two of the three mechanisms the property is anchored in; the end-to-end statement "
    "format(format(x)) = format(x) needs the parser on formatter output and is NOT claimed. (1) utils::strip_trailing_whitespace: "
    "strip(strip(s)) = strip(s) for every UTF-8 string of up to N code points. (2) pretty/comment.rs (block_comment, get_comment_style, "
    "get_follow_leading, align_multiline, align_multiline_simple): for every block comment '/*' + up to M code points + '*/' and each "
    "start column in the stated set, the comment as laid out by align()/hang(1) and post-processed is mapped by a second "
    "block_comment pass to the same text and the same style. (3) ListStylist with every ListStyle the crate builds over item/comma/"
    "whitespace sequences of up to K nodes: a list laid out on one line holds no doubled blank and no blank before a separator, i.e. "
    "kept blank lines leave no trace when the list is folded. Multiline-flavour / attach-detach / boundary reproduction (mechanism 1 of "
    "the anchors) is outside the claim.")


def run(S):
    T.KT = T.KindTable(S.driver, S.adts)
    N = S.bounds['N']
    M = 5 if S.tier == 'quick' else 7
    cols = (0, 2) if S.tier == 'quick' else (0, 1, 2, 5)
    kern.strip_validate(S)
    kern.strip_idempotent(S, N)
    found = comments.explore_block(S, M, cols, want=('C03',))
    comments.report(S, 'C03', found)
    # one-line list layouts are fixed points (kept blank lines must not leave traces when the list is folded)
    f3 = lists.explore(S, 4 if S.tier == 'quick' else 5, want=('C03',), cats=('item', 'comma', 'space'), between_items=True)
    lists.report(S, 'C03', f3)
    S.assumptions += comments.ASSUMPTIONS + lists.ASSUMPTIONS
    return S.finish(level='other', explanation=EXPLANATION, trusted=['mirsym encoder', 'std string contracts', 'pretty align/hang semantics'])
