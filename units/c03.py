"""C03 — convergence: the anchored string-level mechanisms are fixed points."""
from mirsym import models_typst as T
from . import kern, comments, lists, c19, mathargs, twopass
from .common import validate_corpus

EXPLANATION = (
    "Bounded symbolic execution (MIR->SMT, z3) of two of the three mechanisms the property is anchored in; the end-to-end statement "
    "format(format(x)) = format(x) needs the parser on formatter output and is NOT claimed. (1) utils::strip_trailing_whitespace: "
    "strip(strip(s)) = strip(s) for every UTF-8 string of up to N code points. (2) pretty/comment.rs (block_comment, get_comment_style, "
    "get_follow_leading, align_multiline, align_multiline_simple): for every block comment '/*' + up to M code points + '*/' and each "
    "start column in the stated set, the comment as laid out by align()/hang(1) and post-processed is mapped by a second "
    "block_comment pass to the same text and the same style. (3) ListStylist with every ListStyle the crate builds over item/comma/"
    "whitespace sequences of up to K nodes: a list laid out on one line holds no doubled blank and no blank before a separator, i.e. "
    "kept blank lines leave no trace when the list is folded. (4) convert_import_items with reordering on: the order chosen for items "
    "with source spacing (doubled blanks, blanks around dots) equals the order chosen for the same items with formatted spacing. "
    "Multiline-flavour / attach-detach / boundary reproduction (mechanism 1 of "
    "the anchors) is outside the claim. Session 3: wrapper obligations (mode per delimiter) with a two-pass corpus; two passes of the real printer with the REAL parser in between on whole documents (hand-written and generated families), pretty's layout algorithm interpreted at representative widths: both passes give the same text. Open known findings are keyed by document.")


def run(S):
    T.KT = T.KindTable(S.driver, S.adts)
    N = S.bounds['N']
    M = 5 if S.tier == 'quick' else 7
    cols = (0, 2) if S.tier == 'quick' else (0, 1, 2, 5)
    kern.strip_validate(S)
    kern.strip_idempotent(S, N)
    found = comments.explore_block(S, M, cols, want=('C03',))
    comments.report(S, 'C03', found)
    # one-line list layouts are fixed points (kept blank lines must not leave traces when the list is folded)
    f3 = lists.explore(S, 4 if S.tier == 'quick' else 5, want=('C03',), cats=('item', 'comma', 'space'), between_items=True)
    # expressions that get parentheses / braces when broken must be converted in the mode the delimiter opens (code inside braces, continued code
    # inside parentheses): otherwise a broken operator chain is printed in a way that reads back as several statements
    from . import flows
    f3 += flows.explore_parens(S, prop='C03')
    lists.report(S, 'C03', f3)
    validate_corpus(S, 'list / wrapper idempotence', [l for l, _ in f3 if l.startswith('C03:')], lambda: lists.native_idempotence(S))
    # math call arguments that come out on one line are laid out identically when read again
    f5 = mathargs.explore(S, 3 if S.tier == 'quick' else 4, want=('C03',))
    mathargs.report(S, 'C03', f5)
    validate_corpus(S, 'mathargs-idempotence', f5, lambda: mathargs.confirm_fixed_point(S, None))
    # two passes of the real printer over call arguments / arrays with comments and symbolic line breaks (nothing opaque)
    G4 = [(), ('sp',), ('blk',), ('sp', 'blk')]
    A3 = [' ', '\n', '\n\n\n\n']
    ALL = ('call', 'array', 'dict', 'params', 'destruct')
    if S.tier == 'quick':
        # (the real-parser two-pass harness below covers all five constructs on whole documents; the relexing harness keeps the deeper gap enumeration for two)
        f6 = twopass.explore(S, max_items=1, constructs=('call',), gaps=G4, ws_alts=A3, max_spaces=2)
        f6 += twopass.explore(S, max_items=1, constructs=('params', 'array', 'dict', 'destruct'), gaps=[(), ('sp',), ('blk',)], ws_alts=[' ', '\n'], max_spaces=2)
        f6 += twopass.explore(S, max_items=2, constructs=('call',), gaps=[(), ('sp',)], ws_alts=A3, min_items=2)
    else:
        f6 = twopass.explore(S, max_items=1, constructs=ALL, max_spaces=4)
        f6 += twopass.explore(S, max_items=2, constructs=ALL, gaps=[(), ('sp',), ('blk',)], ws_alts=A3, max_spaces=4, min_items=2)
    # line comments (they force the broken layout; their line break is part of the following whitespace token)
    GL = [(), ('sp',), ('lc', 'nlsp'), ('sp', 'lc', 'nlsp')]
    if S.tier == 'quick':
        f6 += twopass.explore(S, max_items=1, constructs=('call',), gaps=GL, ws_alts=A3, max_spaces=2)
    else:
        f6 += twopass.explore(S, max_items=1, constructs=ALL, gaps=GL, ws_alts=A3, max_spaces=4)
        f6 += twopass.explore(S, max_items=2, constructs=('call', 'array'), gaps=GL, ws_alts=[' ', '\n'], max_spaces=3, min_items=2)
    # items that always expand (a code block with two statements) inside a list on a text line
    f6 += twopass.explore(S, max_items=2, constructs=('call',) if S.tier == 'quick' else ('call', 'array'), gaps=[(), ('sp',)] if S.tier == 'quick' else [(), ('sp',), ('blk',)],
                          ws_alts=[' ', '\n'], max_spaces=3, min_items=1, last_kinds=('cblock2', 'cblock1'))
    # content blocks `f[..]` with words, embedded code and blanks / line breaks at every position
    f6 += twopass.explore_content(S, max_atoms=2 if S.tier == 'quick' else 3)
    # chains of binary operators with blanks, line breaks and comments at every gap, inside a call / an array
    f6 += twopass.explore_binary(S, operands=2 if S.tier == 'quick' else 3)
    # code blocks with blanks, line breaks, blank lines, semicolons and comments between the statements
    f6 += twopass.explore_codeblock(S, max_stmts=2 if S.tier == 'quick' else 3)
    # dot chains `a.m1().m2` with blanks, line breaks and comments around every dot
    f6 += twopass.explore_dotchain(S, links=1 if S.tier == 'quick' else 2)
    # equations with letters, line-break backslashes, alignment points; blanks / line breaks at every gap and edge
    f6 += twopass.explore_equation(S, max_atoms=2 if S.tier == 'quick' else 4)
    twopass.report(S, 'C03', f6)
    # two passes with the real parser in between: whole documents (tables, content blocks, chains, imports, equations, lists, prose), blanks symbolic,
    # the renderer interpreted at representative widths
    from . import reparse, deep
    rdocs = reparse.TABLE_DOCS + reparse.NORMALISE_DOCS + reparse.BLOCK_DOCS + reparse.MISC_DOCS + reparse.corpus_docs(S) + (reparse.COMMENT_DOCS if S.tier == 'quick' else deep.DOCS + deep.PROSE + reparse.in_contexts(reparse.COMMENT_DOCS)) + reparse.PROSE_LINE_DOCS + reparse.EVAL_DOCS + ['#f(a, /* @typstyle off */\n b  +  c)\n', '$ mat(a, // c\n b; c) $\n', 'text #box[- a\n           b]\n', '#let x = [ #f(aaaaaaaaaaaa, bbbbbbbbbbbbbb, cccccccccccccc, ddddddddddddd, eeeeeeeeeeeeee, fffffffffff)]\n', 'a #[ /* c */] b\n', '==/* c */\n']
    if S.tier != 'quick':
        rdocs += deep.OFF_DOCS + deep.CODE_DOCS + deep.EMBED_DOCS
    fr, covr = reparse.explore(S, rdocs, tabs=(2,) if S.tier == 'quick' else (2, 4), widths=(0, 1 << 30) if S.tier == 'quick' else (0, 20, 40, 80, 120, 1 << 30))
    # what the printer normalises, at the widths in between as well: a decision that measures the source (blanks inside a chain, redundant parentheses)
    # flips between the passes only near its threshold
    fr2, covr2 = reparse.explore(S, reparse.NORMALISE_DOCS + reparse.TABLE_DOCS, tabs=(2,) if S.tier == 'quick' else (1, 2, 4), widths=(20, 27, 40, 80) if S.tier == 'quick' else (10, 27, 30, 60, 90, 100))
    reparse.report(S, 'C03', fr + fr2)
    # with reordering on, the chosen order must not depend on spacing that formatting normalises
    f4 = c19.explore_spacing(S, 2 if S.tier == 'quick' else 3)
    groups = {}
    for lab, info in f4:
        groups.setdefault(lab, []).append(info)
    for lab, infos in groups.items():
        hit = None
        for info in infos[:8]:
            w = c19.confirm_spacing(S, info)
            if w:
                hit = (info, w)
                break
        if hit:
            S.violation(lab, '%s: %s' % (lab, hit[1]['what']), dict(api=hit[1], model=hit[0]))
        else:
            S.inconclusive.append('%s: no solver model reproduced natively (%r)' % (lab, infos[0]))
    S.assumptions += comments.ASSUMPTIONS + lists.ASSUMPTIONS
    # generated families (construct x spelling x context x comment position, ~4000 well-formed documents): a sample that depends on VERIF_SEED in the
    # quick tier, all of them in the thorough tier
    from . import reparse as _rpf
    _fam = _rpf.families(S, seed=S.seed, limit=600 if S.tier == 'quick' else None)
    if 'C03' == 'C09':
        _fam = [d_ for d_ in _fam if '$' in d_]
    _ff, _covf = _rpf.explore(S, _fam, tabs=(2,), widths=(0, 1 << 30) if S.tier == 'quick' else (0, 20, 40, 80, 1 << 30), prop='C03')
    _rpf.report(S, 'C03', _ff)
    return S.finish(level='other', explanation=EXPLANATION, trusted=['mirsym encoder', 'std string contracts', 'pretty align/hang semantics'])
