"""C15 — in-place modes write exactly the formatted text, only where they should."""
from . import cli, clinative

EXPLANATION = (
    "Bounded symbolic execution (MIR->SMT, z3) of the real CLI code (main .. write_back, see C14) against a symbolic file-system world. "
    "For `-i` with up to K files and for format-all over every directory tree of up to K entries (each entry file/dir/other, hidden or "
    "not, any extension, readable or not, erroneous or not, changed or not, write failing or not) z3 decides on every path: the set of "
    "files written is exactly {eligible, readable, well-formed, changed}, each written once with F(content) for the configured options; "
    "every eligible input is attempted whatever happened to earlier ones; a read or write failure yields a non-zero exit status and "
    "no failure yields 0.  Eligibility for format-all: regular file, extension typ, not hidden, no hidden directory strictly between "
    "it and the given directory - the directory's own name is irrelevant.")


def run(S):
    K = 2 if S.tier == 'quick' else 3
    walkK = 3 if S.tier == 'quick' else 4
    st = cli.structural(S)
    found = cli.explore(S, ('C15',), K, walkK)
    for k, v in st.items():
        if not k.startswith('_') and not v:
            S.inconclusive.append('structural obligation failed: %s %r' % (k, st.get('_mutators')))
    cli.require(S, ['C15 a file is written', 'C15 failure and later success', 'walk: hidden root directory', 'walk: eligible unreadable file'], found)
    cli.report(S, 'C15', found)
    # the property stated on the real binary for a fixed family of worlds (contents as real text: byte order mark, CR LF, bystander files)
    clinative.report(S, 'C15')
    S.assumptions += cli.ASSUMPTIONS
    S.assumptions.append('a second run being a no-op follows from the write-set obligation applied to the post-world under F(F(c)) = F(c) (C03); it is not run separately')
    return S.finish(level='other', explanation=EXPLANATION, trusted=cli.TRUSTED)
