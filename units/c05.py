"""C05 — totality: refusal logic decided; panic freedom of the string / comment / layout kernels."""
import z3

from mirsym.values import *
from mirsym.explore import Panic
from mirsym import models_typst as T
from mirsym.models_std import STD, Str, sym_str
from . import libskel, kern, comments, lists, flows, markup, tables, mathargs, chains, conserve, deep, adjacency
from mirsym.session import hexs, unhexs
from .common import *

EXPLANATION = (
    "Bounded symbolic execution (MIR->SMT, z3). (1) Refusal logic, fully: Typstyle::format_source_inspect / format_source / "
    "format_content / format_with_width executed from MIR with the printer opaque: Err iff the root is erroneous, no conversion before "
    "the refusal, format_with_width returns the input itself on refusal and uses Config{max_width: w, defaults}. (2) Panic freedom "
    "(overflow, slice bounds, char boundaries, unwrap, unreachable!, remove) of the kernels for every input within the bounds: "
    "strip_trailing_whitespace, has_linebreak, count_linebreaks (strings <= N code points), comment / block_comment / align_multiline / "
    "align_multiline_simple / get_follow_leading (comments of <= M interior code points), convert_space / convert_parbreak, "
    "ListStylist and convert_flow_like_iter over child sequences <= K, optional_paren, convert_table for every 64-bit column count "
    "(0 included) and up to 3/4 cells, convert_args_in_math and the dot-chain converters over their child sequences. (3) The whole printer, nothing "
    "opaque: convert_expr on node shapes taken from real parses (15 / 400 per kind, up to 16 / 40 nodes) and AttrStore::new + convert_markup on a list of "
    "small documents, with context, indent unit, width and the blanks of whitespace tokens symbolic: no path ends in a panic. Panics and hangs inside the parser, the pretty "
    "renderer and the tree-walking code not listed are outside the claim, as is 'bounded time'. Session 3: format_with_width on contents of symbolic code points; block comments that are never closed; work that doubles per nesting level (the obligations of C18 up to depth 4 / 8) as 'never hangs'.")


def run(S):
    T.KT = T.KindTable(S.driver, S.adts)
    core = S.core
    N = S.bounds['N']
    libskel.run(S)
    # refusal violations are replayed through the public API
    for v in list(S.violations):
        pass
    # string kernels
    found = []
    for name in ('<str as StrExt>::has_linebreak', '<str as StrExt>::count_linebreaks', 'strip_trailing_whitespace'):
        fn = S.find_fn(core, name)
        for n in range(0, N + 1):
            def body(ctx, n=n, fn=fn, name=name):
                m = S.machine(core, STD, ctx)
                s = sym_str(ctx, 's', n)
                try:
                    m.call_fn(fn, [s])
                except Panic as p:
                    ctx.must_hold(False, 'C05:kernel-panic', lambda mdl: dict(fn=name, input=s.concrete(mdl), panic=p.msg))
                S.absorb(m)
            ob, ex = S.explore('nopanic.%s[n=%d]' % (name.split('::')[-1], n), '%s does not panic on any string of %d code points' % (name, n), body,
                               bounds=dict(code_points=n))
            for lab, mdl, info in ex.violations:
                found.append((lab, info))
    for lab, info in found[:3]:
        r = S.driver.call('strip', hexs(info['input']))
        if r[0] in ('panic', 'abort'):
            S.violation(lab, '%s panics on %s' % (info['fn'], show(info['input'])), dict(unit=info))
        else:
            api = kern.api_replay_hygiene(S, info['input'])
            if api and api.get('output') == '<panic>':
                S.violation(lab, '%s panics on %s' % (info['fn'], show(info['input'])), dict(unit=info, api=api))
            else:
                S.inconclusive.append('%s: model %r did not reproduce natively' % (lab, info))
    # comment kernels
    M = 4 if S.tier == 'quick' else 6
    f2 = comments.explore_block(S, M, (), want=('C05',))
    f2 += comments.explore_line(S, 3)
    comments.report(S, 'C05', f2)
    # whitespace tokens, lists, flows, parens
    f3 = markup.explore_tokens(S, 3)
    markup.report(S, 'C05', f3)
    f4 = flows.explore_flow(S, 3 if S.tier == 'quick' else 5, want=('C05',))
    f4 += lists.explore(S, 2 if S.tier == 'quick' else 4, want=('C05',))
    lists.report(S, 'C05', f4)
    f6 = mathargs.explore(S, 3 if S.tier == 'quick' else 5, want=('C05',))
    mathargs.report(S, 'C05', f6)
    f7 = chains.explore(S, want=('C05',))
    chains.report(S, 'C05', f7)
    f5 = tables.explore(S, 3 if S.tier == 'quick' else 4)
    tables.report(S, 'C05', f5)
    # configuration arithmetic: Config::chain_width for every 64-bit width (IEEE semantics of the `as f32` / `as usize` casts via z3's FP theory)
    def body_cw(ctx):
        m = S.machine(S.core, STD, ctx)
        w = z3.BitVec('max_width', 64)
        cfg = Agg('Config', None, (z3.BitVec('tab', 64), w, 2, False), ('tab_spaces', 'max_width', 'blank_lines_upper_bound', 'reorder_import_items'))
        try:
            r = m.call_fn(S.find_fn(S.core, 'Config::chain_width'), [m.heap.alloc(cfg)])
        except Panic as p:
            S.absorb(m)
            ctx.must_hold(False, 'C05:chain-width-panic', lambda mdl: dict(max_width=model_int(mdl, w), panic=p.msg))
            return
        S.absorb(m)
        ctx.must_hold(z3.ULE(r, w) if is_sym(r) else True, 'C05:chain-width-exceeds-line-width', lambda mdl: dict(max_width=model_int(mdl, w)))
    ob, ex = S.explore('config.chain_width', 'Config::chain_width does not panic and stays within the line width for every 64-bit max_width', body_cw)
    for lab, mdl, info in ex.violations:
        wv = info['max_width']
        hit = None
        for src in ('#let x = aaa.bbb.ccc(1, 2)\n', 'text #foo.bar.baz(1) more\n', '#let x = aaaa.bbbb().cccc().dddd()\n', '#a.b(c)\n'):
            r = S.driver.call('format', hexs(src), wv, 2, 0)
            if r[0] in ('panic', 'abort'):
                hit = src
                break
        if hit:
            S.violation(lab, '%s: format_content panics with max_width = %d on %s (%s)' % (lab, wv, show(hit), info.get('panic')),
                        dict(api=dict(api='Typstyle::format_content', source=hit, width=wv), model=info))
        else:
            S.inconclusive.append('%s: solver model (max_width = %d) did not reproduce natively' % (lab, wv))
    # every converter real on shapes from real parses and on small whole documents: no path panics, for any context / configuration
    f8, cov8 = conserve.explore(S, want=('C05',), per_kind=15 if S.tier == 'quick' else 400, max_nodes=16 if S.tier == 'quick' else 40, deep=True)
    conserve.report(S, 'C05', f8)
    f9, cov9 = deep.explore(S, want=('C05',))
    deep.report(S, 'C05', f9)
    f10 = adjacency.explore_embedded(S, want=('C05',))
    adjacency.report(S, 'C05', [(l, i) for l, i in f10 if l.startswith('C05:')])
    # never hangs: a converter that converts a child once per layout alternative doubles the work per nesting level; the recursive families of C18 up to
    # depth 4 (8): every node is converted at most once per path, confirmed by the running time of the real formatter
    from . import c18
    c18.explore(S, 4 if S.tier == 'quick' else 8, prefix='C05')
    S.assumptions += comments.ASSUMPTIONS + lists.ASSUMPTIONS
    return S.finish(level='other', explanation=EXPLANATION, trusted=['mirsym encoder', 'std / typst-syntax / pretty contracts'])
