"""convert_args_in_math (func_call.rs): math call arguments keep every separator, comment and argument; a line comment keeps its line break."""
import itertools
import z3

from mirsym.values import *
from mirsym.explore import Panic
from mirsym import models_typst as T
from mirsym import models_doc as D
from mirsym.models_std import STD, Str, is_ws, valid_scalar
from mirsym.models_typst import Node, Ast
from mirsym.session import hexs, unhexs
from . import pp
from .common import *
from .markup import is_newline
from .lists import show_atoms, atoms_modes, render

CATS = ['arg', 'comma', 'semi', 'space', 'line', 'block']


def explore(S, K, want=('C04', 'C06', 'C05')):
    kt = T.KT
    core = S.core
    fn = S.find_fn(core, 'PrettyPrinter::convert_args_in_math')
    found = []

    def sequences(k):
        for combo in itertools.product(CATS, repeat=k):
            ok = True
            for i, c in enumerate(combo):
                nxt = combo[i + 1] if i + 1 < k else None
                if c == 'line' and nxt != 'space':
                    ok = False        # a line comment ends at a newline; inside the parentheses something (at least the newline) follows
                if c == 'space' and nxt == 'space':
                    ok = False
            if ok:
                yield combo

    tasks = []
    for k in range(0, K + 1):
        for combo in sequences(k):
            def body(ctx, combo=combo):
                def conv_arg(m, a, ci):
                    return D.opaque_doc('arg', (T._node(m, a[2]).nid,))
                ml = z3.Bool('is_multiline')
                m = S.machine(core, STD, ctx, overrides={'convert_arg': conv_arg, 'is_multiline': (lambda mm, a, ci: ml)})
                kids = [Node(kt.k('LeftParen'), text=Str.lit('('))]
                toks = []
                for i, c in enumerate(combo):
                    if c == 'arg':
                        nd = Node(kt.k('MathIdent'), text=Str.lit('x%d' % i))
                        toks.append(('o', nd.nid))
                    elif c == 'comma':
                        nd = Node(kt.k('Comma'), text=Str.lit(','))
                        toks.append(('t', ','))
                    elif c == 'semi':
                        nd = Node(kt.k('Semicolon'), text=Str.lit(';'))
                        toks.append(('t', ';'))
                    elif c == 'line':
                        nd = Node(kt.k('LineComment'), text=Str.lit('//c%d' % i))
                        toks.append(('t', '//c%d' % i))
                    elif c == 'block':
                        nd = Node(kt.k('BlockComment'), text=Str.lit('/*c%d*/' % i))
                        toks.append(('t', '/*c%d*/' % i))
                    else:
                        c0 = z3.BitVec('sp%d' % i, 32)
                        ctx.assume(valid_scalar(c0))
                        ctx.assume(is_ws(c0))
                        if i > 0 and combo[i - 1] == 'line':
                            ctx.assume(is_newline(c0))
                        nd = Node(kt.k('Space'), text=Str((c0,)))
                    kids.append(nd)
                kids.append(Node(kt.k('RightParen'), text=Str.lit(')')))
                args = Node(kt.k('Args'), children=kids)
                pr, cfg = pp.printer(m)

                def describe(mdl):
                    return dict(children=list(combo), multiline=model_bool(mdl, ml),
                                spaces={str(i): kids[i + 1].text.concrete(mdl) for i, c in enumerate(combo) if c == 'space'})
                try:
                    d = m.call_fn(fn, [pr, pp.context(), Ast('Args', args)])
                except Panic as p:
                    S.absorb(m)
                    if 'C05' in want:
                        ctx.must_hold(False, 'C05:math-args-panic', lambda mdl: dict(describe(mdl), panic=p.msg))
                    return
                S.absorb(m)
                for mode, at in atoms_modes(d).items():
                    keys = []
                    sw = False
                    for j, a in enumerate(at):
                        if a[0] == 'o':
                            keys.append(('o', a[2][0]))
                        elif a[0] == 't' and a[1].is_concrete():
                            s = a[1].concrete()
                            if s in (',', ';') or s.startswith('/'):
                                keys.append(('t', s))
                            if s.startswith('//') and j + 1 < len(at) and at[j + 1] != ('nl',):
                                sw = True
                    if 'C04' in want:
                        ctx.must_hold(not sw, 'C04:math-args-line-comment-not-followed-by-line-break', lambda mdl, mode=mode, at=at: dict(describe(mdl), layout=mode, atoms=show_atoms(at)))
                    if 'C06' in want:
                        ctx.must_hold(keys == toks, 'C06:math-args-arguments-separators-or-comments-not-conserved',
                                      lambda mdl, mode=mode, at=at: dict(describe(mdl), layout=mode, atoms=show_atoms(at)))
                if 'C03' in want and 'line' not in combo:
                    # fixed point of the one-line layout: when the arguments come out on one line, the tokens of that line, read again
                    # (no line break among them any more), must be laid out identically
                    render.prefer_flat = True
                    one = []
                    render(d, False, one)
                    if ('nl',) not in one:
                        label = {kids[i + 1].nid: 'x%d' % i for i, c in enumerate(combo) if c == 'arg'}
                        s1 = line_text(one, label)
                        kids2, label2 = relex(one, label, kt)
                        if kids2 is not None:
                            m2 = S.machine(core, STD, ctx, overrides={'convert_arg': conv_arg, 'is_multiline': (lambda mm, a, ci: False)})
                            pr2, _ = pp.printer(m2, cfg=cfg)
                            try:
                                d2 = m2.call_fn(fn, [pr2, pp.context(), Ast('Args', Node(kt.k('Args'), children=kids2))])
                            except Panic:
                                d2 = None
                            if d2 is not None:
                                two = []
                                render(d2, False, two)
                                s2 = line_text(two, label2)
                                ctx.must_hold(s1 == s2, 'C03:math-args-one-line-layout-is-not-a-fixed-point',
                                              lambda mdl, s1=s1, s2=s2: dict(describe(mdl), first_pass=s1, second_pass=s2))
                                ctx.witness('math args on one line re-read')
                if 'line' in combo:
                    ctx.witness('math args with line comment')
            tasks.append(('mathargs[%s]' % ','.join(combo), 'convert_args_in_math over children %r' % (combo,), body, dict(children=k)))
    for ob, viol in S.explore_batch(tasks):
        for lab, mdl, info in viol:
            found.append((lab, info))
    return found


def line_text(at, label):
    out = ''
    for a in at:
        if a[0] == 'o':
            out += label.get(a[2][0], '?')
        elif a[0] == 't':
            out += a[1].concrete() if a[1].is_concrete() else '�'
        elif a == ('nl',):
            out += '\n'
    return out


def relex(at, label, kt):
    """the token sequence of a one-line layout (the atoms are tokens 1-1): children of the Args node a second pass would see"""
    kids = []
    label2 = {}
    for a in at:
        if a[0] == 'o':
            name = label.get(a[2][0])
            if name is None:
                return None, None
            nd = Node(kt.k('MathIdent'), text=Str.lit(name))
            label2[nd.nid] = name
            kids.append(nd)
        elif a[0] == 't':
            if not a[1].is_concrete():
                return None, None
            s = a[1].concrete()
            if s.startswith('/*'):
                kids.append(Node(kt.k('BlockComment'), text=Str.lit(s)))
                continue
            for ch in s:
                if ch == ' ':
                    if kids and kids[-1].kind == kt.k('Space'):
                        kids[-1] = Node(kt.k('Space'), text=Str.lit(kids[-1].text.concrete() + ' '))
                    else:
                        kids.append(Node(kt.k('Space'), text=Str.lit(' ')))
                elif ch == ',':
                    kids.append(Node(kt.k('Comma'), text=Str.lit(',')))
                elif ch == ';':
                    kids.append(Node(kt.k('Semicolon'), text=Str.lit(';')))
                elif ch == '(':
                    kids.append(Node(kt.k('LeftParen'), text=Str.lit('(')))
                elif ch == ')':
                    kids.append(Node(kt.k('RightParen'), text=Str.lit(')')))
                else:
                    return None, None
    if len(kids) < 2 or kids[0].kind != kt.k('LeftParen') or kids[-1].kind != kt.k('RightParen'):
        return None, None
    return kids, label2


def confirm_fixed_point(S, info):
    for src in IDEM_CORPUS:
        if S.driver.call('erroneous', hexs(src))[1] == '1':
            continue
        for w in (80, 20):
            a = S.driver.call('format', hexs(src), w, 2, 0)
            if a[0] != 'ok':
                continue
            b = S.driver.call('format', a[1], w, 2, 0)
            if b[0] != 'ok' or b[1] != a[1]:
                return dict(api='format(format(x))', source=src, width=w, first=unhexs(a[1]), second=unhexs(b[1]) if b[0] == 'ok' else b[0],
                            what='format is not idempotent on %s (width %d): %s then %s' % (show(src), w, show(unhexs(a[1])), show(unhexs(b[1]) if b[0] == 'ok' else b[0])))
    return None


IDEM_CORPUS = ['$ vec(\n  a, b, c\n) $\n', '$vec(\na, b)$\n', '$ mat(\n  1, 2; 3, 4\n) $\n', '$ f(a,\n b) $\n', '$ f(\n  a /* c */, b\n) $\n', '$f(a;\n b;)$\n', '$ vec(a, b, c) $\n',
               '$ f(\n) $\n', '$ f(\n  a\n) $\n', '$ f( a , b ) $\n']

CORPUS = ['$mat(a // c\n)$\n', '$f(a // c\n)$\n', '$mat(a, b // c\n, d)$\n', '$mat(a /* c */)$\n', '$mat(1, 2; 3, 4)$\n', '$mat(// c\n a)$\n', '$f(a,// c\n b)$\n', '$ f(a // c\n ) $\n',
          '$mat(a; // c\n)$\n', '$vec(a,\n b // c\n)$\n',
          # the same inside lists that may be laid out flat
          '#f($mat(a // c\n)$)\n', '#f($f(a,// c\n b)$, x)\n', '#($mat(a; // c\n)$, 1)\n', '$g(mat(a // c\n), b)$\n', '#f[$mat(a // c\n)$]\n', 'text $mat(a // c\n)$ more\n',
          '$mat(a /* c */, b; /* d */ c)$\n', '#f($mat(a /* c */)$)\n']


def native_sweep(S, prop):
    if prop == 'C05':
        for src in ('$sin( )$\n', '$mat( )$\n', '$ vec(\n) $\n', '$mat(  ;  )$\n', '$sin(\t)$\n'):
            if S.driver.call('erroneous', hexs(src))[1] == '1':
                continue
            r = S.driver.call('format', hexs(src), 80, 2, 0)
            if r[0] in ('panic', 'abort'):
                return dict(api='Typstyle::format_content', source=src, what='format_content panics on %s: %s' % (show(src), unhexs(r[1]) if len(r) > 1 else ''))
        return None
    for src in CORPUS:
        if S.driver.call('erroneous', hexs(src))[1] == '1':
            continue
        for w in (80, 0):
            r = S.driver.call('format', hexs(src), w, 2, 0)
            if r[0] != 'ok':
                return dict(api='Typstyle::format_content', source=src, width=w, what='format fails (%s) on %s' % (r[0], show(src)))
            out = unhexs(r[1])
            if prop == 'C04' and S.driver.call('erroneous', r[1])[1] == '1':
                return dict(api='Typstyle::format_content', source=src, width=w, output=out, what='well-formed %s is formatted to text with syntax errors: %s' % (show(src), show(out)))
            if prop == 'C06':
                a = S.driver.call('comments', hexs(src))
                b = S.driver.call('comments', r[1])
                if a[0] == 'ok' and b[0] == 'ok' and a[1:] != b[1:]:
                    return dict(api='Typstyle::format_content', source=src, width=w, output=out,
                                what='comments of %s changed: %r -> %r in %s' % (show(src), [unhexs(x) for x in a[1:]], [unhexs(x) for x in b[1:]], show(out)))
                if out.count(',') < src.count(',') or out.count(';') != src.count(';'):
                    return dict(api='Typstyle::format_content', source=src, width=w, output=out, what='separators of %s changed: %s' % (show(src), show(out)))
    return None


def report(S, prop, found):
    if prop == 'C03':
        labs = sorted({lab for lab, info in found if lab.startswith('C03:')})
        w = confirm_fixed_point(S, None) if labs else None
        for lab in labs:
            info = [i for l, i in found if l == lab][0]
            if w:
                S.violation(lab, '%s: %s' % (lab, w['what']), dict(api=w, model=info))
            else:
                S.inconclusive.append('%s: the solver model (%r) has no reproduction in the native corpus' % (lab, info))
        return
    labs = sorted({lab for lab, info in found if lab.startswith(prop + ':')})
    if not labs:
        return
    w = native_sweep(S, prop)
    for lab in labs:
        info = [i for l, i in found if l == lab][0]
        if w:
            S.violation(lab, '%s: %s' % (lab, w['what']), dict(api=w, model=info))
        else:
            S.inconclusive.append('%s: the solver model (%r) has no reproduction in the native corpus' % (lab, info))
