"""convert_args_in_math (func_call.rs): math call arguments keep every separator, comment and argument; a line comment keeps its line break."""
import itertools
import z3

from mirsym.values import *
from mirsym.explore import Panic
from mirsym import models_typst as T
from mirsym import models_doc as D
from mirsym.models_std import STD, Str, is_ws, valid_scalar
from mirsym.models_typst import Node, Ast
from mirsym.session import hexs, unhexs
from . import pp
from .common import *
from .markup import is_newline
from .lists import show_atoms, atoms_modes

CATS = ['arg', 'comma', 'semi', 'space', 'line', 'block']


def explore(S, K, want=('C04', 'C06', 'C05')):
    kt = T.KT
    core = S.core
    fn = S.find_fn(core, 'PrettyPrinter::convert_args_in_math')
    found = []

    def sequences(k):
        for combo in itertools.product(CATS, repeat=k):
            ok = True
            for i, c in enumerate(combo):
                nxt = combo[i + 1] if i + 1 < k else None
                if c == 'line' and nxt != 'space':
                    ok = False        # a line comment ends at a newline; inside the parentheses something (at least the newline) follows
                if c == 'space' and nxt == 'space':
                    ok = False
            if ok:
                yield combo

    for k in range(0, K + 1):
        for combo in sequences(k):
            def body(ctx, combo=combo):
                def conv_arg(m, a, ci):
                    return D.opaque_doc('arg', (T._node(m, a[2]).nid,))
                ml = z3.Bool('is_multiline')
                m = S.machine(core, STD, ctx, overrides={'convert_arg': conv_arg, 'is_multiline': (lambda mm, a, ci: ml)})
                kids = [Node(kt.k('LeftParen'), text=Str.lit('('))]
                toks = []
                for i, c in enumerate(combo):
                    if c == 'arg':
                        nd = Node(kt.k('MathIdent'), text=Str.lit('x%d' % i))
                        toks.append(('o', nd.nid))
                    elif c == 'comma':
                        nd = Node(kt.k('Comma'), text=Str.lit(','))
                        toks.append(('t', ','))
                    elif c == 'semi':
                        nd = Node(kt.k('Semicolon'), text=Str.lit(';'))
                        toks.append(('t', ';'))
                    elif c == 'line':
                        nd = Node(kt.k('LineComment'), text=Str.lit('//c%d' % i))
                        toks.append(('t', '//c%d' % i))
                    elif c == 'block':
                        nd = Node(kt.k('BlockComment'), text=Str.lit('/*c%d*/' % i))
                        toks.append(('t', '/*c%d*/' % i))
                    else:
                        c0 = z3.BitVec('sp%d' % i, 32)
                        ctx.assume(valid_scalar(c0))
                        ctx.assume(is_ws(c0))
                        if i > 0 and combo[i - 1] == 'line':
                            ctx.assume(is_newline(c0))
                        nd = Node(kt.k('Space'), text=Str((c0,)))
                    kids.append(nd)
                kids.append(Node(kt.k('RightParen'), text=Str.lit(')')))
                args = Node(kt.k('Args'), children=kids)
                pr, cfg = pp.printer(m)

                def describe(mdl):
                    return dict(children=list(combo), multiline=model_bool(mdl, ml),
                                spaces={str(i): kids[i + 1].text.concrete(mdl) for i, c in enumerate(combo) if c == 'space'})
                try:
                    d = m.call_fn(fn, [pr, pp.context(), Ast('Args', args)])
                except Panic as p:
                    S.absorb(m)
                    if 'C05' in want:
                        ctx.must_hold(False, 'C05:math-args-panic', lambda mdl: dict(describe(mdl), panic=p.msg))
                    return
                S.absorb(m)
                for mode, at in atoms_modes(d).items():
                    keys = []
                    sw = False
                    for j, a in enumerate(at):
                        if a[0] == 'o':
                            keys.append(('o', a[2][0]))
                        elif a[0] == 't' and a[1].is_concrete():
                            s = a[1].concrete()
                            if s in (',', ';') or s.startswith('/'):
                                keys.append(('t', s))
                            if s.startswith('//') and j + 1 < len(at) and at[j + 1] != ('nl',):
                                sw = True
                    if 'C04' in want:
                        ctx.must_hold(not sw, 'C04:math-args-line-comment-not-followed-by-line-break', lambda mdl, mode=mode, at=at: dict(describe(mdl), layout=mode, atoms=show_atoms(at)))
                    if 'C06' in want:
                        ctx.must_hold(keys == toks, 'C06:math-args-arguments-separators-or-comments-not-conserved',
                                      lambda mdl, mode=mode, at=at: dict(describe(mdl), layout=mode, atoms=show_atoms(at)))
                if 'line' in combo:
                    ctx.witness('math args with line comment')
            ob, ex = S.explore('mathargs[%s]' % ','.join(combo), 'convert_args_in_math over children %r' % (combo,), body, bounds=dict(children=k))
            for lab, mdl, info in ex.violations:
                found.append((lab, info))
            if ob.status.startswith('inconclusive'):
                return found
    return found


CORPUS = ['$mat(a // c\n)$\n', '$f(a // c\n)$\n', '$mat(a, b // c\n, d)$\n', '$mat(a /* c */)$\n', '$mat(1, 2; 3, 4)$\n', '$mat(// c\n a)$\n', '$f(a,// c\n b)$\n', '$ f(a // c\n ) $\n',
          '$mat(a; // c\n)$\n', '$vec(a,\n b // c\n)$\n']


def native_sweep(S, prop):
    if prop == 'C05':
        for src in ('$sin( )$\n', '$mat( )$\n', '$ vec(\n) $\n', '$mat(  ;  )$\n', '$sin(\t)$\n'):
            if S.driver.call('erroneous', hexs(src))[1] == '1':
                continue
            r = S.driver.call('format', hexs(src), 80, 2, 0)
            if r[0] in ('panic', 'abort'):
                return dict(api='Typstyle::format_content', source=src, what='format_content panics on %s: %s' % (show(src), unhexs(r[1]) if len(r) > 1 else ''))
        return None
    for src in CORPUS:
        if S.driver.call('erroneous', hexs(src))[1] == '1':
            continue
        for w in (80, 0):
            r = S.driver.call('format', hexs(src), w, 2, 0)
            if r[0] != 'ok':
                return dict(api='Typstyle::format_content', source=src, width=w, what='format fails (%s) on %s' % (r[0], show(src)))
            out = unhexs(r[1])
            if prop == 'C04' and S.driver.call('erroneous', r[1])[1] == '1':
                return dict(api='Typstyle::format_content', source=src, width=w, output=out, what='well-formed %s is formatted to text with syntax errors: %s' % (show(src), show(out)))
            if prop == 'C06':
                a = S.driver.call('comments', hexs(src))
                b = S.driver.call('comments', r[1])
                if a[0] == 'ok' and b[0] == 'ok' and a[1:] != b[1:]:
                    return dict(api='Typstyle::format_content', source=src, width=w, output=out,
                                what='comments of %s changed: %r -> %r in %s' % (show(src), [unhexs(x) for x in a[1:]], [unhexs(x) for x in b[1:]], show(out)))
                if out.count(',') < src.count(',') or out.count(';') != src.count(';'):
                    return dict(api='Typstyle::format_content', source=src, width=w, output=out, what='separators of %s changed: %s' % (show(src), show(out)))
    return None


def report(S, prop, found):
    labs = sorted({lab for lab, info in found if lab.startswith(prop + ':')})
    if not labs:
        return
    w = native_sweep(S, prop)
    for lab in labs:
        info = [i for l, i in found if l == lab][0]
        if w:
            S.violation(lab, '%s: %s' % (lab, w['what']), dict(api=w, model=info))
        else:
            S.inconclusive.append('%s: the solver model (%r) has no reproduction in the native corpus' % (lab, info))
