"""C02 - formatting never changes what the document compiles to (mechanism level: the tree the compiler consumes).

The Typst compiler itself (evaluation, layout, fonts, rendering) is far outside any symbolic encoder available here, and pixel identity is
NOT decided.  What is decided is the fact the property rests on inside typstyle: the compiler sees the syntax tree, and the tree of the
formatted text equals the tree of the source in everything evaluation can observe.  On whole documents the real printer is executed from
its MIR with the blanks of the source symbolic, the document is laid out by pretty's algorithm at representative widths, the text goes
through the REAL parser, and the two trees are compared after discarding only what Typst's evaluator ignores: whitespace in code, commas,
comments, statement-ending semicolons, grouping parentheses / braces around a single expression, optional parentheses of parameters and
import items, blanks at the edges of the document and of heading / list-item bodies, blanks next to block-level items, blanks around
sub/superscript, fraction and root operators.  Kept and compared: every token and its nesting, a blank between two markup or math
siblings (a line break inside it counts as the same blank), paragraph breaks, the blanks at the inner edges of content blocks and strong /
emph bodies, whether an equation is a block, and the text Typst extracts from raw elements (its dedent rule, via the native driver).
"""
from mirsym import models_typst as T
from . import reparse, deep

EXPLANATION = (
    "Bounded symbolic execution (MIR->SMT, z3) of the real printer (AttrStore::new + convert_markup, nothing opaque) on ~330 whole documents with the "
    "blanks of the source symbolic within what the lexer accepts; z3 decides every path.  Per path the document is laid out by pretty 0.12's "
    "best / fitting algorithm (re-implemented on the Doc model) at widths {0, 40, unlimited} (thorough: 0/20/40/80/120/unlimited, indent units 2 and "
    "4), post-processed, parsed by the REAL parser (native driver), and the tree is compared with the tree of the source in everything evaluation can "
    "observe (tokens and nesting, blanks between markup / math siblings, paragraph breaks, inner edges of content blocks, block equations, raw text "
    "after Typst's dedent rule); only what the evaluator ignores is discarded.  This is the part of C02 that lives in typstyle: the compiler consumes "
    "exactly this tree.  NOT decided: evaluation, layout and rendering themselves (same tree => same result is the trusted step), documents beyond "
    "the corpus, widths in between, diagnostics of documents that fail to compile.")


def run(S):
    T.KT = T.KindTable(S.driver, S.adts)
    docs = reparse.TABLE_DOCS + reparse.NORMALISE_DOCS + reparse.BLOCK_DOCS + reparse.MISC_DOCS + deep.DOCS + deep.PROSE + deep.CODE_DOCS + deep.EMBED_DOCS + reparse.EVAL_DOCS + reparse.corpus_docs(S) + reparse.in_contexts(reparse.COMMENT_DOCS) + reparse.PROSE_LINE_DOCS
    if S.tier != 'quick':
        docs += deep.OFF_DOCS
    found, cov = reparse.explore(S, docs, tabs=(2,) if S.tier == 'quick' else (2, 4),
                                 widths=(0, 40, 1 << 30) if S.tier == 'quick' else (0, 20, 40, 80, 120, 1 << 30), prop='C02')
    reparse.report(S, 'C02', found)
    if cov['decided'] * 10 < cov['docs'] * 9 * (1 if S.tier == 'quick' else 2) * (3 if S.tier == 'quick' else 6):
        S.inconclusive.append('more than a tenth of the documents could not be executed: %r' % (cov['gaps'][:3],))
    S.assumptions += [
        'the Typst compiler is a function of the syntax tree (it never looks at the source text behind it) and ignores exactly the whitespace listed in the explanation',
        "pretty 0.12's layout algorithm as re-implemented in units/reparse.py (validated natively per counterexample and on the whole corpus)",
        'lexer facts about whitespace tokens: markup knows blank, tab and the newline characters; code and math every White_Space scalar',
    ]
    # generated families (construct x spelling x context x comment position, ~4000 well-formed documents): a sample that depends on VERIF_SEED in the
    # quick tier, all of them in the thorough tier
    from . import reparse as _rpf
    _fam = _rpf.families(S, seed=S.seed, limit=600 if S.tier == 'quick' else None)
    if 'C02' == 'C09':
        _fam = [d_ for d_ in _fam if '$' in d_]
    _ff, _covf = _rpf.explore(S, _fam, tabs=(2,), widths=(0, 1 << 30) if S.tier == 'quick' else (0, 20, 40, 80, 1 << 30), prop='C02')
    _rpf.report(S, 'C02', _ff)
    return S.finish(level='other', explanation=EXPLANATION, trusted=['mirsym encoder', 'std / typst-syntax / pretty contracts', 'interpreted renderer', 'the real parser (native driver)'])
