"""C16 — all front-ends agree with the library."""
from mirsym import models_typst as T
from . import cli, libskel, clinative

EXPLANATION = (
    "Bounded symbolic execution (MIR->SMT, z3). (1) CLI (real MIR of main .. write_back, StyleArgs::to_config) over symbolic worlds: "
    "every call into the library uses Config{max_width: column, tab_spaces: tab_width, reorder_import_items: flag, "
    "blank_lines_upper_bound: 2} for all 64-bit option values; in stdout mode the sequence of stdout writes is exactly, in argument "
    "order and for readable inputs only, print!(\"{}\", F(c_i)) - or c_i itself when erroneous - with the bare template and nothing "
    "else on stdout; in-place and format-all write F(c_i). (2) library (real MIR of format_with_width, format_content, "
    "format_source_inspect): format_with_width(c,w) = F(c, Config{max_width:w, defaults}) or c itself when erroneous, and all entry "
    "points funnel into the same format_source_inspect skeleton.  F itself is uninterpreted: that it is one and the same function at "
    "all call sites is the structural fact that every front-end reaches Typstyle::format_source_inspect.")


def run(S):
    T.KT = T.KindTable(S.driver, S.adts)
    K = 2 if S.tier == 'quick' else 3
    walkK = 2 if S.tier == 'quick' else 3
    found = cli.explore(S, ('C16',), K, walkK)
    cli.require(S, ['C16 stdout mode prints'], found)
    cli.report(S, 'C16', found)
    # the property stated on the real binary for a fixed family of worlds (contents as real text: byte order mark, CR LF, bystander files)
    clinative.report(S, 'C16')
    libskel.run(S)
    # structural: every front-end reaches Typstyle::format_source_inspect / format_content
    binm = S.bin
    calls = {}
    for name in ('format_debug', 'format_all'):
        fn = S.find_fn(binm, name)
        txt = '\n'.join(fn.raw_lines)
        calls[name] = ('Typstyle::format_source_inspect' in txt) or ('Typstyle::format_content' in txt) or ('Typstyle::format_source' in txt)
    if not all(calls.values()):
        S.inconclusive.append('a CLI front-end no longer calls the library entry points directly: %r' % calls)
    S.assumptions += cli.ASSUMPTIONS
    return S.finish(level='other', explanation=EXPLANATION, trusted=cli.TRUSTED)
