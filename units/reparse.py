"""Two passes of the real printer with the real parser in between (C03 mechanism, nothing opaque).

A document's node tree comes from the real parser; the characters of its whitespace tokens are symbolic within their class (any blank /
any line break).  AttrStore::new + convert_markup are executed from their MIR (pass 1).  In each of the two extreme layouts (every group
broken = what the renderer gives at width 0, flat wherever possible = unlimited width) the document is laid out to text under pretty's
documented semantics (nest / align / group / flat_alt), post-processed, handed to the REAL parser (native driver) and the tree that
comes back is converted again on the same path (pass 2) and laid out the same way.  The two texts must be equal: every decision of the
printer that looks at the source's own layout (multi-line flavour, kept blank lines, attached comments, table shape, boundaries of
content blocks, optional parentheses) must be reproduced by the text it generates.  The chain-width budget follows the layout (0 when
everything is broken, unlimited when flat).  Widths in between - where the renderer's fits-decisions matter - are outside.
"""
import z3

from mirsym.values import *
from mirsym.explore import Panic
from mirsym import models_typst as T
from mirsym import models_doc as D
from mirsym.models_std import STD, Str
from mirsym.models_typst import Ast
from mirsym.session import hexs, unhexs
from . import pp, deep
from .common import *


class SymbolicText(Exception):
    pass


def render_text(doc, width):
    """pretty 0.12's `best` / `fitting` on the Doc model: text of the document at the given line width.  Nest offsets must be concrete.
    (A hard line break is indented by the indentation of the command that follows it on pretty's stack; a group is laid out flat when
    its flat form and what follows it up to the next line break fit the width and it holds no hard line break.)"""
    out = []
    st = {'pos': 0}
    bcmds = [(0, 'B', doc)]

    def tlen(d):
        if not d.a.is_concrete():
            raise SymbolicText()
        t = d.a.concrete()
        return len(t)

    def off(d):
        n = simp(d.a)
        if is_sym(n):
            raise SymbolicText()
        return to_signed(n, 64)

    def fitting(nxt, pos, ind):
        bidx = len(bcmds)
        fcmds = [nxt]
        mode = 'F'
        while True:
            if fcmds:
                d = fcmds.pop()
            else:
                if bidx == 0:
                    return True
                bidx -= 1
                mode = 'B'
                d = bcmds[bidx][2]
            while True:
                k = d.k
                if k == 'cat':
                    fcmds.append(d.b)
                    d = d.a
                    continue
                if k == 'hardline':
                    return mode == 'B'
                if k == 'text':
                    pos += tlen(d)
                    if pos > width:
                        return False
                elif k == 'flat_alt':
                    d = d.a if mode == 'B' else d.b
                    continue
                elif k == 'nest':
                    d = d.b
                    continue
                elif k in ('group', 'align'):
                    d = d.a
                    continue
                elif k != 'nil':
                    raise SymbolicText()
                break

    while bcmds:
        ind, mode, d = bcmds.pop()
        while True:
            k = d.k
            if k == 'cat':
                bcmds.append((ind, mode, d.b))
                d = d.a
                continue
            if k == 'flat_alt':
                d = d.a if mode == 'B' else d.b
                continue
            if k == 'group':
                if mode == 'B' and fitting(d.a, st['pos'], ind):
                    mode = 'F'
                d = d.a
                continue
            if k == 'nest':
                ind = max(0, ind + off(d))
                d = d.b
                continue
            if k == 'align':
                ind = st['pos']
                d = d.a
                continue
            if k == 'hardline':
                if bcmds:
                    ind, mode, d = bcmds.pop()
                    out.append('\n' + ' ' * ind)
                    st['pos'] = ind
                    continue
                out.append('\n' + ' ' * ind)
                st['pos'] = ind
            elif k == 'text':
                n = tlen(d)
                out.append(d.a.concrete())
                st['pos'] += n
            elif k != 'nil':
                raise SymbolicText()
            break
    return ''.join(out)


# -- the tree with everything Typst treats as layout discarded (C01's oracle on real parses) -----------------------------------------

NORM_DROP = ('Space', 'Parbreak', 'Comma', 'LineComment', 'BlockComment', 'RawTrimmed')
OPTIONAL_PAREN_OWNERS = ('Params', 'ModuleImport', 'ImportItems')


def norm_tree(t, parent=None):
    """nested tuples: whitespace tokens, commas, comments and statement-ending semicolons dropped; grouping parentheses and braces around a single
    expression unwrapped; optional parentheses of closure parameters and import items dropped; a raw element reduced to delimiter and language
    (its text is C10's subject); an equation keeps whether it is a block (blank behind the opening dollar)"""
    kind, x = t
    pending = False
    if not isinstance(x, list):
        if kind in NORM_DROP:
            return None
        if kind == 'Semicolon' and parent not in ('Args', 'Math', 'MathDelimited'):
            return None
        if kind in ('LeftParen', 'RightParen') and parent in OPTIONAL_PAREN_OWNERS:
            return None
        if kind == 'Colon' and parent == 'Dict':
            return None
        return (kind, x)
    if kind == 'Markup':
        # words separated by one blank are one Text token, by several blanks several tokens: runs of words on a line are compared as one text
        x2 = []
        run = None
        for c in x:
            if c[0] == 'Text':
                run = c[1] if run is None else (run + ' ' + c[1] if pending else run + c[1])
                pending = False
                continue
            if c[0] == 'Space' and run is not None and not any(ord(ch) in T.TYPST_NEWLINES for ch in c[1]):
                pending = True
                continue
            if run is not None:
                x2.append(('Text', run))
                run = None
            pending = False
            x2.append(c)
        if run is not None:
            x2.append(('Text', run))
        x = x2
    kids = [norm_tree(c, kind) for c in x]
    kids = [k for k in kids if k is not None]
    if kind == 'Parenthesized':
        inner = [k for k in kids if k[0] not in ('LeftParen', 'RightParen')]
        if len(inner) == 1:
            return inner[0]
    if kind == 'CodeBlock':
        inner = [k for k in kids if k[0] not in ('LeftBrace', 'RightBrace')]
        if len(inner) == 1 and inner[0][0] == 'Code' and len(inner[0][1]) == 1:
            return inner[0][1][0]
    if kind == 'Raw':
        return ('Raw', tuple(k for k in kids if k[0] in ('RawDelim', 'RawLang')))
    if kind == 'Equation':
        block = len(x) > 2 and x[1][0] == 'Space' and x[-2][0] == 'Space'      # typst: Equation::block()
        return ('Equation', block, tuple(kids))
    return (kind, tuple(kids))


WS_MODES_MARKUP = ('Markup',)
WS_MODES_MATH = ('Math', 'MathDelimited')        # (around sub/superscript, fraction and root operators Typst ignores whitespace)


def eval_tree(t, parent=None, root=True, math_nl=False):
    """the tree as evaluation sees it: like norm_tree, but whitespace that Typst's evaluator can see is kept - in markup a Space between two
    siblings (one marker, whether it holds a line break or not: both are a space to Typst) and a Parbreak; in math a Space between two
    siblings; the blank at the inner edges of a content block / strong / emph body.  Dropped: whitespace in code, at the edges of the document,
    of heading and list-item bodies and directly around a comment (a comment may move), the indentation that follows a line break."""
    kind, x = t
    if not isinstance(x, list):
        if kind in ('Comma', 'LineComment', 'BlockComment', 'RawTrimmed'):
            return None
        if kind == 'Space':
            if math_nl and parent in WS_MODES_MATH and any(ord(ch) in T.TYPST_NEWLINES for ch in x):
                return ('Space', 'line break')         # C09: a blank between math atoms holds a line break iff it did in the source
            return ('Space',) if parent in WS_MODES_MARKUP + WS_MODES_MATH else None
        if kind == 'Parbreak':
            return ('Parbreak',)
        if kind == 'Semicolon' and parent not in ('Args', 'Math', 'MathDelimited'):
            return None
        if kind in ('LeftParen', 'RightParen') and parent in OPTIONAL_PAREN_OWNERS:
            return None
        if kind == 'Colon' and parent == 'Dict':
            return None
        return (kind, x)
    if kind == 'Markup':
        x2 = []
        run = None
        pending = False
        for c in x:
            if c[0] == 'Text':
                run = c[1] if run is None else (run + ' ' + c[1] if pending else run + c[1])
                pending = False
                continue
            if c[0] == 'Space' and run is not None and not any(ord(ch) in T.TYPST_NEWLINES for ch in c[1]):
                pending = True
                continue
            if run is not None:
                x2.append(('Text', run))
                if pending:
                    x2.append(('Space', ' '))
                run = None
            pending = False
            x2.append(c)
        if run is not None:
            x2.append(('Text', run))
            if pending:
                x2.append(('Space', ' '))
        x = x2
    kids = [eval_tree(c, kind, False, math_nl) for c in x]
    # a comment may move across the blank next to it: blanks around comments are not compared
    raw_kinds = [c[0] for c in x]
    keep = []
    for i, k in enumerate(kids):
        if k is None:
            continue
        if k == ('Space',):
            near = [raw_kinds[j] for j in (i - 1, i + 1) if 0 <= j < len(raw_kinds)]
            if any(n in ('LineComment', 'BlockComment') for n in near):
                continue
            if keep and keep[-1] in (('Space',), ('Parbreak',)):
                continue
            # next to a block-level element (list / enum / term item, heading) a blank is swallowed by the block
            if any(n in ('ListItem', 'EnumItem', 'TermItem', 'Heading') for n in near):
                continue
        if k == ('Parbreak',) and keep and keep[-1] == ('Space',):
            keep.pop()
        keep.append(k)
    kids = keep
    trims_edges = (kind == 'Markup' and (root or parent in ('Heading', 'ListItem', 'EnumItem', 'TermItem'))) or kind in ('Heading', 'ListItem', 'EnumItem', 'TermItem')
    if trims_edges:
        while kids and kids[0] in (('Space',), ('Parbreak',)):
            kids.pop(0)
        while kids and kids[-1] in (('Space',), ('Parbreak',)):
            kids.pop()
    if kind == 'Parenthesized':
        inner = [k for k in kids if k[0] not in ('LeftParen', 'RightParen')]
        if len(inner) == 1:
            return inner[0]
    if kind == 'CodeBlock':
        inner = [k for k in kids if k[0] not in ('LeftBrace', 'RightBrace')]
        if len(inner) == 1 and inner[0][0] == 'Code' and len(inner[0][1]) == 1:
            return inner[0][1][0]
    if kind == 'Raw':
        return ('Raw', tuple(k for k in kids if k[0] in ('RawDelim', 'RawLang')))
    if kind == 'Equation':
        block = len(x) > 2 and x[1][0] == 'Space' and x[-2][0] == 'Space'      # typst: Equation::block()
        kids = [k for k in kids if k != ('Space',)]
        return ('Equation', block, tuple(kids))
    return (kind, tuple(kids))


def comment_list(tree):
    """the comments of a parsed document in order: a line comment verbatim up to trailing blanks, a block comment line by line up to the blanks
    at the ends of its lines (the indentation of continuation lines may change)"""
    from .conserve import leaf_list
    out = []
    for k, t in leaf_list(tree):
        if k == 'LineComment':
            out.append(('line', t.rstrip()))
        elif k == 'BlockComment':
            out.append(('block', tuple(l.strip() for l in t.split('\n'))))
    return out


PROSE_LINE_DOCS = [
    'a $x_#f(1, 2)$ b\n', 'a $#f(1, 2)/y$ b\n', 'a $sqrt(#f(1, 2))$ b\n', 'a #f(1, 2) b\n', 'a #f(1, 2)[c] b\n', 'a #(1, 2) b\n', 'a #x.y(1, 2).z(3) b\n', '- a #f(1, 2) b\n', '*a #f(1, 2)* b\n',
    'a #[b #f(1, 2)] c\n', 'a $f(1, 2)$ b\n', 'a #{ f(1, 2) } b\n', 'a #if x { f(1, 2) } b\n', 'a #(x + y + z) b\n', 'a #f(k: 1, j: 2) b\n', 'a #(k: 1, j: 2) b\n', 'a #f(x => (1, 2)) b\n',
    'a $mat(1, 2; 3, 4)$ b\n', 'a $x^#f(1, 2)_#g(3, 4)$ b\n', 'a $root(#f(1, 2), x)$ b\n', '= H #f(1, 2) b\n', '/ T: a #f(1, 2) b\n', '+ a $x_#(1, 2)$\n', 'a `r` #f(1, 2)\n', 'a #f(1, 2) *b*\n',
    'a #import "m": (x, y) b\n', 'a #f(1, 2); b\n', 'a #text(red)[b #f(1, 2)] c\n', 'a #f(1, g(2, 3)) b #h(4, 5) c\n', 'alpha #f(aaaa, bbbb) beta\ngamma #g(cccc, dddd)\n',
]


# a word, then an inline element of every kind, then a call that could break - on one line
PROSE_LINE_DOCS += ['a %s #f(b, c)\n' % x_ for x_ in ('$ x $', '$x$', '`r`', '*b*', '_e_', '#g()', '#[c]', '<l>', '@r', '\\#', '---', "'q'", 'https://x.y', '#h(1em)', '$ x $ y', '/* c */', '#{ 1 }', '#(1 + 2)')]
PROSE_LINE_DOCS += ['%s a #f(b, c)\n' % x_ for x_ in ('$ x $', '`r`', '#g()', '<l>', '---')] + ['- a $ x $ #f(b, c)\n', '#[a $ x $ #f(b, c)]\n', '= a $ x $ #f(b, c)\n', 'a $ x $ #f(b, c) d\n']


def prose_lines_broken(tree, tree2):
    """C08 on parsed trees: the children of a markup node that stood on one line holding prose (a Text, strong, emph or raw element) still stand on one
    line, and none of them gained a line break inside (an element that already spanned lines in the source is not judged).  Returns a description of
    the first line that was broken, or None."""
    from .conserve import source_of

    def nl(s_):
        return sum(1 for ch in s_ if ord(ch) in T.TYPST_NEWLINES)

    def lines_of(x):
        groups = [[]]
        for c in x:
            if c[0] == 'Parbreak' or (c[0] == 'Space' and nl(c[1])):
                groups.append([])
            elif c[0] != 'Space':
                groups[-1].append(c)
        return [g for g in groups if g]

    def must_expand(t):
        """constructs the printer lays out over several lines whatever the line holds: a table / grid call it formats in rows, a code block with
        several statements or a comment (design decisions of the printer, not the break suppression this property is about)"""
        k, x = t
        if not isinstance(x, list):
            return False
        if k == 'FuncCall' and x and x[0][0] == 'Ident' and x[0][1] in ('table', 'grid') and 'columns' in source_of(t):
            return True
        if k == 'CodeBlock':
            for c in x:
                if c[0] in ('LineComment', 'BlockComment'):
                    return True
                if c[0] == 'Code' and (sum(1 for d_ in c[1] if d_[0] not in ('Space', 'Semicolon', 'LineComment', 'BlockComment')) > 1 or any(d_[0] in ('LineComment', 'BlockComment') for d_ in c[1])):
                    return True
        return any(must_expand(c) for c in x)

    def walk(a, b):
        ka, xa = a
        kb, xb = b
        if not isinstance(xa, list) or not isinstance(xb, list):
            return None
        if ka == 'Markup' and kb == 'Markup':
            la, lb = lines_of(xa), lines_of(xb)
            flat_a = [c for g in la for c in g]
            flat_b = [c for g in lb for c in g]
            if len(flat_a) == len(flat_b):
                pos = 0
                for g in la:
                    prose = any(c[0] in ('Text', 'Strong', 'Emph', 'Raw') for c in g)
                    if prose:
                        # the same children must form one line of the output
                        idx = 0
                        owner = []
                        for gi, gb in enumerate(lb):
                            for _ in gb:
                                owner.append(gi)
                        if len({owner[pos + j] for j in range(len(g))}) != 1 and not any(must_expand(c) for c in g):
                            return 'the line %r is spread over several lines' % ''.join(source_of(c) for c in g)[:60]
                        for j, c in enumerate(g):
                            sa, sb = source_of(c), source_of(flat_b[pos + j])
                            if nl(sa) == 0 and nl(sb) > 0 and not must_expand(c):
                                return 'on the line %r the element %r now spans lines: %r' % (''.join(source_of(c2) for c2 in g)[:50], sa[:30], sb[:40])
                    pos += len(g)
        ca = [c for c in xa if isinstance(c[1], list)]
        cb = [c for c in xb if isinstance(c[1], list)]
        if len(ca) == len(cb):
            for p, q in zip(ca, cb):
                r = walk(p, q)
                if r:
                    return r
        return None
    return walk(tree, tree2)


COMMENT_DOCS = [
    '#grid([x] // note\n, [y])\n', '#table(columns: 2, [a] // c\n, [b])\n', '#table(columns: 2, [a], // c\n [b])\n', '#table(columns: 2,\n  // c\n  [a], [b])\n', '#grid([x] /* c */, [y])\n',
    '#table(columns: 2, [a] // c\n\n, [b])\n', '#grid(\n  [x], // c\n  // d\n  [y],\n)\n', '#table(columns: 2, ..cells, // c\n [a])\n', '#table(columns: 2, [a], [b]) // c\n', '#grid(// c\n)\n',
    '#f(a // c\n, b)\n', '#(a // c\n, b)\n', '#let f(a // c\n, b) = 1\n', '#(k: a // c\n, j: b)\n', '#let (a // c\n, b) = x\n', '#import "m.typ": a // c\n, b\n', '$f(a // c\n, b)$\n',
    '#{\n  a // c\n  ; b\n}\n', '#if a { // c\n  b\n}\n', '#if a /* c */ { b } /* d */ else /* e */ { f }\n', '#for /* c */ x /* d */ in /* e */ y { z }\n', '#let /* c */ x /* d */ = /* e */ 1\n',
    '#show /* c */ : /* d */ it => it\n', '#set /* c */ text(/* d */ red)\n', '#import /* c */ "a" /* d */ : /* e */ b\n', '#f /* c */ (a)\n', '#a /* c */ .b\n', '#(a /* c */ + /* d */ b)\n',
    '#(- /* c */ a)\n', '#(a, /* c */)\n', '#(/* c */ a: 1)\n', '#(a: /* c */ 1)\n', '#f(a: // c\n 1)\n', '#f(..// c\n a)\n', '#x => /* c */ x\n', '#(x, /* c */ y) => x\n', '#while /* c */ a { }\n',
    '#context /* c */ x\n', '#return /* c */ x\n' if False else '#{ return /* c */ x }\n', '#include /* c */ "a"\n', '= H // c\n', '- a // c\n  b\n', '/ T /* c */ : d\n', 'a /* c */ b // d\ne\n', '*a /* c */ b*\n',
    '$ a /* c */ + b // d\n $\n', '$ f(/* c */ a; b /* d */) $\n', '$ x_/* c */ 1 $\n' if False else '$ x_1 /* c */ $\n', '$ (a /* c */) $\n', '#[a /* c */][// d\n]\n',
]


COMMENT_DOCS += ['#import "m": (a // c\nas b)\n', '#import "m": (a as // c\n b)\n', '#import "m": (a. // c\nb)\n', '#import "m": (a /* c */ as b, d)\n', '#import "m": a /* c */ as b\n',
                 '#f(a: // c\n 1, b)\n', '#(a. // c\nb, c)\n', '#f(x => // c\n x)\n', '#(a, (b // c\n, d))\n', '#f(g(a // c\n))\n', '#f[a // c\n]\n', '#let x = (a // c\n)\n']


# -- generated families: construct x spelling x context x comment position ---------------------------------------------------------------

CONSTRUCTS = [
    # (compact / oddly spaced spelling, spelling over several lines)
    ('f(a,b)', 'f(\n a ,\n  b\n)'), ('f( a )[c]', 'f(\na)[\n c\n]'), ('f[c  d]', 'f[\nc\n d]'), ('(a,b)', '(\na,\nb ,)'), ('(k:v,j :w)', '(k: v,\n\n j: w)'), ('(a)', '(\na\n)'),
    ('a.b.c(d)', 'a\n.b\n.c(\nd)'), ('a+b*c', 'a +\n b\n * c'), ('x=>x+1', 'x =>\n x + 1'), ('(x,y)=>x', '(\nx,\ny) => {\nx\n}'), ('let v=f(a)', 'let v =\n f(\na)'), ('set text( red )', 'set text(\nred)'),
    ('show h:it=>it', 'show h:\n it => it'), ('if a {b} else {c}', 'if a {\nb\n} else {\nc\n}'), ('for x in y {z}', 'for x in y {\nz\n}'), ('while a {b}', 'while a {\n b\n}'),
    ('import "m":a,b as c', 'import "m":\n a,\n b as c'), ('import "m":(a,b)', 'import "m": (\na,\nb)'), ('include "m"', 'include\n "m"'), ('{a;b}', '{\na\n\n\nb\n}'), ('[c *d*]', '[\nc\n\n*d*\n]'),
    ('f(..a,k:v)', 'f(..a,\nk: v)'), ('(not a)', '(not\n a)'), ('(-a)', '(-\na)'), ('(a in b)', '(a\n in b)'), ('(a:1).k', '(a:\n1).k'), ('f(g(h(a)))', 'f(g(\nh(a)))'),
    ('table(columns:2,[a],[b])', 'table(\ncolumns: 2,\n[a], [b],\n[c])'), ('context x', 'context {\nx\n}'), ('let (a,b)=c', 'let (a,\n b) = c'), ('(a,b)=(b,a)', '(a, b) =\n (b, a)'),
    ('f(x)(y)', 'f(x)(\ny)'), ('f(a)[b][c]', 'f(a)[b][\nc]'), ('a.b[c]', 'a.b[\nc]'), ('(a: b, ..c)', '(a: b,\n..c)'), ('"s"+"t"', '"s" +\n"t"'), ('1pt+2em', '1pt\n+ 2em'), ('none', 'none'),
    ('$a+b$', '$ a +\n b $'), ('$#x_a$', '$ #x _a\n ^b $'), ('$a_#f(1)^2$', '$ a_#f(1)\n^2 $'), ("$#x'$", "$ #x ' $"), ('$a\nb$', '$ a\n b $'), ('$f(a,b;c)$', '$ f(a, b;\n c) $'), ('$x_1^2/y$', '$ x_1^2 /\n y $'), ('`r`', '```\nr\n```'),
]
CONTEXTS = [
    ('own line', '#%s\n'), ('text line', 't #%s u\n'), ('list item', '- #%s\n'), ('list item with text', '- t #%s\n  u\n'), ('content block', '#[t #%s]\n'), ('strong', '*#%s*\n'), ('heading', '= H #%s\n'),
    ('term', '/ T: #%s\n'), ('equation', '$ #%s $\n'), ('equation on a text line', 't $x + #%s$ u\n'), ('code block', '#{\n  %s\n}\n'), ('argument', '#g(%s)\n'), ('content argument', '#g[#%s]\n'),
    ('let value', '#let w = %s\n'), ('closure body', '#(q => %s)\n'), ('table cell', '#table(columns: 2, %s, [z])\n'), ('dict value', '#(k: %s)\n'), ('array item', '#(%s, 1)\n'),
]


def _token_gaps(text):
    """positions between tokens of a code fragment (not inside strings / raw text)"""
    import re as _re
    pos = []
    for mm in _re.finditer(r'"[^"]*"|`+[^`]*`+|[A-Za-z_][A-Za-z0-9_-]*|[0-9]+(?:\.[0-9]+)?[a-z%]*|=>|==|\.\.|[^\sA-Za-z0-9_]', text):
        pos.append(mm.start())
        pos.append(mm.end())
    return sorted({p_ for p_ in pos if 0 < p_ < len(text)})


def families(S, comments=True, seed=0, limit=None):
    """generated documents (well-formed ones only), deterministic order; with `limit` a sample that depends on `seed`"""
    import random
    docs = []
    seen = set()

    def add(d):
        if d not in seen:
            seen.add(d)
            docs.append(d)
    for compact, multi in CONSTRUCTS:
        for spelling in (compact, multi):
            code = not spelling.startswith(('$', '`'))
            for cname, tpl in CONTEXTS:
                if not code and '#%s' not in tpl:
                    continue
                if cname in ('table cell', 'dict value', 'array item') and spelling.startswith(('import', 'include', 'let ', 'set ', 'show ')):
                    continue            # statements are not written as items of a list (an import there loses its parentheses: observed, see DESIGN)
                body = spelling
                t = tpl % body if code else tpl.replace('#%s', '%s') % body
                add(t)
            if comments:
                for g in _token_gaps(spelling):
                    for cm in (' /* c */ ', ' // c\n', '/* c */', '// c\n'):
                        v = spelling[:g] + cm + spelling[g:]
                        for cname, tpl in (CONTEXTS[0], CONTEXTS[1], CONTEXTS[10]):
                            if not code and '#%s' not in tpl:
                                continue
                            add(tpl % v if code else tpl.replace('#%s', '%s') % v)
    if limit is not None and len(docs) > limit:
        # always in: embedded code inside an equation with a comment next to it (two mode switches and a comment: where several seeded changes hid);
        # the rest is sampled
        import re as _re
        prio = [d_ for d_ in docs if _re.search(r'\$[^$]*#[^$]*(//|/\*)', d_)]
        rnd = random.Random(1000 + seed)
        if len(prio) > limit // 3:
            prio = rnd.sample(prio, limit // 3)
        rest = [d_ for d_ in docs if d_ not in set(prio)]
        docs = prio + rnd.sample(rest, min(len(rest), limit - len(prio)))
    ok = []
    for d in docs:
        if S.driver.call('erroneous', hexs(d))[1] == '0':
            ok.append(d)
    return ok


def in_contexts(docs):
    """the same constructs on a line that also holds text, in a list item, in a content block on a text line and embedded in an equation"""
    out = []
    for d in docs:
        out.append(d)
        if d.startswith('#') and not d.startswith('#['):
            body = d.rstrip('\n')
            out += ['See ' + d, '- x ' + d, 'x #[y ' + body + ' z] w\n', '$ ' + body + ' $\n', 'x $ ' + body + ' $ y\n']
    return out


def raw_lines(S, text):
    r = S.driver.call('rawtexts', hexs(text))
    return tuple(r[1:]) if r[0] == 'ok' else None


def first_difference(a, b, path='root'):
    if a == b:
        return None
    if not (isinstance(a, tuple) and isinstance(b, tuple)) or a[0] != b[0] or not isinstance(a[-1], tuple) or not isinstance(b[-1], tuple):
        return '%s: %s vs %s' % (path, str(a)[:80], str(b)[:80])
    ka, kb = a[-1], b[-1]
    for i, (x, y) in enumerate(zip(ka, kb)):
        if x != y:
            return first_difference(x, y, '%s/%s[%d]' % (path, a[0], i))
    if len(ka) != len(kb):
        return '%s/%s: %d vs %d children (%s)' % (path, a[0], len(ka), len(kb), str((ka if len(ka) > len(kb) else kb)[min(len(ka), len(kb))])[:60])
    return '%s: %s vs %s' % (path, str(a)[:80], str(b)[:80])


TABLE_DOCS = [
    '#table(columns: 2, [a], [b], [c], [d], [e])\n', '#table(columns: (2), [a], [b], [c], [d], [e])\n', '#table(columns: ((1fr, 1fr)), [a], [b], [c])\n',
    '#table(columns: 2, table .header[a][b], [c], [d], [e])\n', '#table(columns: 2, table. header[a][b], [c], [d], [e])\n', '#grid(columns: (1), [a], [b])\n',
    '#table(columns: 2, table.header([a], [b]), [c], [d], table.footer[e])\n', '#table(\n  columns: (auto, 1fr),\n  [a], [b],\n  [c],\n)\n', '#table(columns: 3, [a], [b])\n',
    '#table(columns: (2,), [a], [b])\n', '#table(columns: 2, align: (left), [a], [b], [c])\n',
]
BLOCK_DOCS = [
    '_#(true)_ x\n', '*#(1)* x\n', '_a #(none)_\n', '_#(1)_\n', '*#(auto)*b\n',
    '#let x = [ #{/* c */ a}]\n', '#let x = [ #{a; b}]\n', '#let x = [#{a; b} ]\n', '#f[ #g(a,\n b)]\n', '#[ a\nb ]\n', '#[\n a ]\n', '#[ a\n]\n', '#let x = { [ a ] }\n', '#f(a)[ b ][c ]\n',
    '#let x = [ #f(// c\n a)]\n', '#[ - a\n  b]\n', 'text #box[- a\n  b]\n', '#{ /* c */ }\n', '#{/* c */ a }\n', '#( /* c */ a)\n', '#f( /* c */\n)\n', '#let f( /* c */ ) = 1\n',
    '#if a { b } else [ c ]\n', '#show: it => [ #it ]\n', '#a.b[ c ].d\n', '= H #[ a ]\n', '- a #[ b\n  c ]\n', '#f(x => [ y ])\n', '#(a: [ b ], c: { d })\n',
]
EVAL_DOCS = [
    '#table(columns: 1, $a\nb$)\n', '#table(columns: 2, $a +\n b$, [c])\n', '#grid(columns: 2, [$ a\n b $], $x$)\n', '#table(columns: 2, [a\nb], [c  d])\n', '#f($a\nb$)\n', '#($a\nb$, 1)\n', '#(k: $a\nb$)\n', '#let m = $a\nb$\n',
    # display / inline equations on lines with prose, with comments at their edges
    'x $ a // c\n$\n', 'text $ // c\n a + b $ more\n', '- a $ b // c\n$\n', '*s* $ a // c\n $\n', 'x $a // c\n$\n', 'x $ a /* c */ $ y\n', 'x $/* c */ a$ y\n', 'x $ a $ y\n', 'x $a$ y\n',
    '$ a // c\n$\n', '$ // c\n a $\n', '#f($ a // c\n$)\n', 'x #[$ a // c\n$] y\n', '$ a $ // c\n', 'x $ a\n b $ y\n', '= H $ a $\n', '/ T: $ a // c\n $\n',
    # blanks evaluation can see
    '#f[ a ]\n', '#f[a ]\n', '#f[ a]\n', '#f[a]\n', '#[ *b* ]\n', '*a *\n', '* a*\n', '_ a _\n', '#strong[ a ] b\n', 'a #f(1) b\n', 'a#f(1)b\n', 'a #x b\n', 'a#[b]c\n', 'a #[b] c\n',
    'a *b*c\n', 'a\nb\n', 'a\n\nb\n', 'a\n\n\n\nb\n', '#[a\n\nb]\n', '#[a\nb]\n', '= H\ntext\n', '= H\n\ntext\n', '- a\n- b\n\n- c\n', 'a \\\nb\n', 'a\\ b\n',
    '$a b$\n', '$ab$\n', '$a  b$\n', '$ a b $\n', '$(a b)$\n', '$( a )$\n', '$f(a b)$\n', '$a\nb$\n', '$ a \\\n b $\n', '$a + b$\n', '$a+b$\n', '$x_1 y$\n', '$x _1$\n', '$1/2 x$\n',
    '#let x = [a] + [ b ]\n', '#f[a][ b ][c ]\n', '#f(x)[ y]\n', '#table(columns: 2, [ a ], [b ])\n', '#figure(caption: [ c ])[ d ]\n', '#show: it => [ #it ]\n',
    '`a  b`\n', '```\n  a\n b\n```\n', '- ```py\n  x = 1\n    y\n  ```\n', '#[```\n a\n```]\n', '#f(```\n  a\n  ```)\n', '"a  b"\n', '#"a  b"\n', '#let s = "a\n  b"\n',
    'a<l>\n', 'a <l>\n', '@r a\n', '@r[s] a\n', 'https://a.b c\n', "a 'b' c\n", 'a -- b --- c\n', 'a~b\n', '#h(1em)a\n', '#h(1em) a\n', '/ T: d\n/ U : e\n', '+ a\n  b\n',
]
# what the printer normalises (redundant parentheses, blanks in names, trailing separators) in places where a layout decision looks at the source
NORMALISE_DOCS = [
    '#f(((a+b)))\n', '#f((a+b))\n', '#let x = f(((aaaa + bbbb)))\n', '#(((a)))\n', '#f(((g(x))))\n', '#f(((a.b)))\n', '#f((-a))\n', '#f(((a)), ((b)))\n', '#f(((a, b)))\n', '#f((((a: 1))))\n',
    '#let x = ((a + b))\n', '#let x = (((a, b)))\n', '#if ((a)) { b }\n', '#while (((a))) { b }\n', '#for x in ((y)) { z }\n', '#(((a)) + ((b)))\n', '#(k: ((v)))\n', '#((a,), ((b),))\n',
    '#let f = (((a, b))) => a + b\n', '#{(((a,b)))=>a}\n', '#let f = ((a, b)) => a\n', '#let (((a, b))) = c\n', '#for ((k, v)) in d {}\n', '#let f((((a, b)))) = a\n', '#let f = (((_))) => 1\n', '#let f = ((..a)) => a\n',
    '#let f = x => ((x))\n', '#let f = ((x)) => x\n', '#f(((x) => x))\n', '#show: ((it)) => it\n', '#set text(((red)))\n', '#f((([a])))\n', '#f((({ a })))\n', '#f(((a))[b])\n' if False else '#f(((a)))[b]\n',
    '#f(a,)\n', '#f(a,b,)\n', '#(a,b,)\n', '#(a: 1,)\n', '#let f(a,) = 1\n', '#f(a;)\n' if False else '#{a;}\n', '#{a;;b}\n', '#f( (a) )\n', '#f(\n(\n(a)))\n', '#f(((a\n+ b)))\n', '$ f(((a))) $\n', '$ ((a)) $\n',
    '#{a      .b      .c(dddddddddd, eeeeeeeeee)}\n', '#{\n  let result = some_module\n                  .sub_module\n                  .function_name(argument_one, argument_two, argument_three, argument_four)\n}\n',
    '#{aaaa   .bbbb   .cccc(1, 2)   .dddd}\n', '#f(aaaaaaaa ,   bbbbbbbb    ,cccccccc)\n', '#let x = aaaaaaaa    +    bbbbbbbb    +    cccccccc\n', '#(aaaaaaaa:    1,    bbbbbbbb:   2)\n',
    '#a .b\n', '#a. b\n', '#a .b ()\n', '#f (a)\n' if False else '#(f) (a)\n', '#(a) .b\n', '#a.b .c (d)\n',
]
MISC_DOCS = [
    '#{\n  1. .abs()\n}\n', '$a_* /* c */^2$\n', '#f(a, ..b, c: d)[e]\n', '#let (a, (b, c)) = d\n', '#import "a.typ" : *\n', '#import "a.typ" as b\n', '#include  "a.typ"\n',
    '#set  text( red )\n', '#show heading .where( level: 1 ) : it => it\n', '#let f( ..args ) = args .pos()\n', '#while true { break ; continue }\n', '#context  { here( ) }\n',
    '$ a   b \\\n  c & d $\n', '$ f ( x ) $\n', '$f( x )$\n', '$ sum _ (i = 0) ^ n $\n', '$ a / b / c $\n', '$ "text" + x $\n', '$ #f( 1 ) $\n', '$ mat( 1, 2 ; 3, 4 ) $\n',
    '- a\n\n- b\n', '+ a\n  + b\n\n  c\n', '/ T : d\n', '= H\n== I\ntext\n', 'a *b* _c_ `d`\n', 'a \\\nb\n', '#[*a* ]\n', '#strong[ a ]\n', 'a #h(1em) b\n', 'a#h(1em)b\n',
    '#let x = a +\n b\n', '#let x = (a\n + b)\n', '#let x = a.b\n .c()\n', '#f(a)(b)(c)\n', '#f(a)\n(b)\n', '#let x = if a { b }\n else { c }\n', '#let x = not a\n', '#(-a)\n', '#( - a)\n',
]


def corpus_docs(S):
    """the hand-written corpus of tricky constructs, cut into the smallest runs of lines that parse without errors"""
    import os
    from .conserve import EXTRA_CORPUS
    if not os.path.exists(EXTRA_CORPUS):
        return []
    docs = []
    cur = ''
    for line in open(EXTRA_CORPUS, encoding='utf-8').read().split('\n'):
        cur += line + '\n'
        if S.driver.call('erroneous', hexs(cur))[1] == '0':
            docs.append(cur)
            cur = ''
        elif cur.count('\n') > 8:
            cur = ''
    return [d for d in docs if d.strip()]


def explore(S, docs, tabs=(2,), prop='C03', widths=(0, 40, 1 << 30)):
    kt = T.KT
    core = S.core
    f_attr = S.find_fn(core, 'AttrStore::new')
    f_markup = S.find_fn(core, 'PrettyPrinter::convert_markup')
    found = []
    coverage = dict(docs=0, decided=0, skipped_symbolic_text=0, gaps=[])
    parse_cache = {}

    def parse(text):
        if text not in parse_cache:
            parse_cache[text] = deep.tree_of(S, text)
        return parse_cache[text]

    def strip(text):
        r = S.driver.call('strip', hexs(text))
        return unhexs(r[1]) if r[0] == 'ok' else None
    tasks = []
    for src in docs:
        tree = parse(src)
        if tree is None:
            coverage['gaps'].append('not parsed / erroneous: %r' % src)
            continue
        coverage['docs'] += 1
        for tab in tabs:
            for width in widths:
                def body(ctx, tree=tree, src=src, tab=tab, width=width):
                    prefer_flat = width
                    m = S.machine(core, STD, ctx)
                    m.max_depth = 300
                    counter = [0]
                    # (a protected node is printed as written: its blanks would make the text symbolic, so documents with a directive keep their blanks)
                    root = deep.build(ctx, tree, kt, counter, concrete_ws='@typstyle off' in src)
                    cfg = Agg('Config', None, (tab, width, 2, z3.Bool('cfg_reorder')), pp.CFG_NAMES)

                    def describe(mdl):
                        # the source with the model's blanks
                        return dict(source=root.into_text().concrete(mdl), seed=src, tab=tab, width=width, reorder=int(model_bool(mdl, cfg.fields[3])))
                    try:
                        attrs = m.call_fn(f_attr, [root])
                        pr, _ = pp.printer(m, cfg=cfg, attrs=attrs)
                        d1 = m.call_fn(f_markup, [pr, pp.context(mode=0, suppressed=False), Ast('Markup', root)])
                    except Panic:
                        S.absorb(m)
                        return            # C05's subject
                    try:
                        t1 = strip(render_text(d1, prefer_flat))
                    except SymbolicText:
                        S.absorb(m)
                        ctx.witness('skipped: text with symbolic characters')
                        return
                    tree2 = parse(t1)
                    if tree2 is None:
                        S.absorb(m)
                        ctx.must_hold(False, '%s:output-does-not-parse' % ('C04' if prop in ('C01', 'C04', 'C02', 'C09', 'C06', 'C08') else prop), lambda mdl: dict(describe(mdl), first=t1))
                        return
                    if prop == 'C04':
                        S.absorb(m)
                        ctx.must_hold(True, 'C04:output-does-not-parse')
                        ctx.witness('output parsed')
                        return
                    if prop == 'C08':
                        S.absorb(m)
                        broken = prose_lines_broken(tree, tree2)
                        ctx.must_hold(broken is None, 'C08:line-that-holds-prose-broken', lambda mdl: dict(describe(mdl), first=t1, difference=broken))
                        ctx.witness('prose lines compared')
                        return
                    if prop == 'C06':
                        S.absorb(m)
                        c1, c2 = comment_list(tree), comment_list(tree2)
                        ctx.must_hold(c1 == c2, 'C06:comments-lost-duplicated-reordered-or-reworded', lambda mdl: dict(describe(mdl), first=t1, expected=c1, got=c2))
                        ctx.witness('comments compared')
                        return
                    if prop in ('C02', 'C09'):
                        S.absorb(m)
                        n1 = eval_tree(tree, math_nl=prop == 'C09')
                        n2 = eval_tree(tree2, math_nl=prop == 'C09')
                        diff = first_difference(n1, n2)
                        ctx.must_hold(diff is None, 'C02:evaluation-visible-tree-changed' if prop == 'C02' else 'C09:math-whitespace-or-display-flag-changed', lambda mdl: dict(describe(mdl), first=t1, difference=diff))
                        if src.count('`') >= 2 and prop == 'C02':
                            ctx.must_hold(raw_lines(S, src) == raw_lines(S, t1) or any(ch not in ' \n' for tk in deep.leaf_list(tree) if tk[0] in ('Space', 'Parbreak') for ch in tk[1]), 'C02:raw-text-changed',
                                          lambda mdl: dict(describe(mdl), first=t1))
                        ctx.witness('trees compared')
                        return
                    if prop == 'C01':
                        S.absorb(m)
                        n1, n2 = norm_tree(tree), norm_tree(tree2)
                        diff = first_difference(n1, n2)
                        ctx.must_hold(diff is None, 'C01:syntax-tree-changed', lambda mdl: dict(describe(mdl), first=t1, difference=diff))
                        ctx.witness('trees compared')
                        return
                    root2 = deep.build(ctx, tree2, kt, counter, concrete_ws=True)
                    try:
                        attrs2 = m.call_fn(f_attr, [root2])
                        pr2, _ = pp.printer(m, cfg=cfg, attrs=attrs2)
                        d2 = m.call_fn(f_markup, [pr2, pp.context(mode=0, suppressed=False), Ast('Markup', root2)])
                        t2 = strip(render_text(d2, prefer_flat))
                    except Panic as p:
                        S.absorb(m)
                        ctx.must_hold(False, '%s:second-pass-panics' % prop, lambda mdl: dict(describe(mdl), first=t1, panic=p.msg))
                        return
                    except SymbolicText:
                        S.absorb(m)
                        return
                    S.absorb(m)
                    ctx.must_hold(t1 == t2, '%s:second-pass-changes-the-text' % prop, lambda mdl: dict(describe(mdl), first=t1, second=t2))
                    ctx.witness('two passes compared')
                tasks.append(('reparse[%s,width %d,tab %d]' % (show(src)[:36], width, tab),
                              'two passes of the real printer over %s with the real parser in between give the same text (width %d, indent unit %d, blanks symbolic)' % (show(src)[:60], width, tab),
                              body, dict(document=src[:80], tab=tab, width=width)))
    native_only = 0
    for (ob, viol), task in zip(S.explore_batch(tasks), tasks):
        if ob.status.startswith('inconclusive'):
            S.inconclusive[:] = [x for x in S.inconclusive if not x.startswith(ob.name + ':')]
            coverage['gaps'].append('%s: %s' % (ob.name, ob.status[:160]))
            # the path could not be executed (a foreign callee without contract): nothing is decided for this document by the solver.  The same
            # comparison is still made on the real library for the document as written; a deviation there is a reproduced violation
            meta = task[3]
            info = dict(source=meta['document'] if len(meta['document']) < 80 else None, seed=meta['document'], tab=meta['tab'], width=meta['width'], reorder=0, undecided=ob.status[:120])
            src_full = next((d_ for d_ in docs if d_[:80] == meta['document']), None)
            if src_full is not None:
                info['source'] = info['seed'] = src_full
                if confirm(S, dict(info, width=min(meta['width'], 1 << 20)), prop, only_width=True):
                    native_only += 1
                    found.append(('%s:%s' % (prop, {'C01': 'syntax-tree-changed', 'C02': 'evaluation-visible-tree-changed', 'C03': 'second-pass-changes-the-text', 'C04': 'output-does-not-parse',
                                                     'C06': 'comments-lost-duplicated-reordered-or-reworded', 'C08': 'line-that-holds-prose-broken', 'C09': 'math-whitespace-or-display-flag-changed'}.get(prop, 'deviation')), info))
        else:
            coverage['decided'] += 1
        for lab, mdl, info in viol:
            found.append((lab, info))
    S.validation['reparse_documents'] = dict(coverage, gaps=coverage['gaps'][:6], n_gaps=len(coverage['gaps']), tasks=len(tasks), undecided_documents_with_a_native_deviation=native_only)
    return found, coverage


RANGE_DOCS = [
    '#if(true) [a]\n', '#{ not(true) }\n', '#{ return(none) }\n', '#while(false) { }\n', '#{ a or(false) }\n', '#{ x in(1, 2) }\n', '#let x =(1)\n', '#f(a,(1))\n', '#(1)em\n', '_#(true)_ x\n', '$x_#(1)y$\n', '#{ -(1) }\n', '#let f = x =>(1)\n',
    '$ #a.b(\n  1, 2\n).c(2) + x $\n', '$ #data.filter(pred).map(func).sum() + 1 $\n', '$ vec(#a.b(\n1, 2).c(3) x, y) $\n', '#let f(x) = {\n  let y = g(x,\n  1)\n  y\n}\n', 'a #f(1,\n 2) b\n\nc\n',
    '= H\n- a #f( 1 ,2 )\n  - b\n', '#table(columns: 2, [a], [ b],\n [c])\n', '$ mat(1, 2; 3, 4) + f(x, y) $\n', '#f[a #g( 1 ) b][c]\n', '#{\n  if a { b } else { c }\n  for x in y { z( 1 ,2) }\n}\n',
    '#import "a.typ": c ,b\n#show: it => it\n', '#let x = (a: 1,\n  b: (2, 3))\n', 'first\n\nsecond #x.y( 1 ).z\n', '$ a_#f( 1 ) + b^(c  d) $\n', '#f(x => x +\n 1, ..y)\n', '#(a.b)( 1 )[c]\n',
]


def explore_range(S, docs, widths=(0, 40, 1 << 30), max_ranges=14):
    """Typstyle::format_source_range from its MIR (cover search, mode inference, the converters: nothing opaque) on whole documents for the span of every
    node and a few ranges inside; the text is laid out by the interpreted renderer, spliced into the source and handed to the real parser: it must
    parse and have the tree of the source modulo layout (C13 as stated, at representative widths)."""
    from mirsym.models_typst import Source
    from mirsym.models_std import OStr
    from .conserve import source_of
    kt = T.KT
    core = S.core
    fn = S.find_fn(core, 'Typstyle::format_source_range')
    found = []
    tasks = []
    cov = dict(docs=0, tasks=0, decided=0, gaps=[])

    def spans(tree, start=0, out=None):
        out = [] if out is None else out
        kind, x = tree
        ln = len(source_of(tree).encode('utf-8'))
        out.append((start, start + ln, kind))
        if isinstance(x, list):
            p = start
            for c in x:
                spans(c, p, out)
                p += len(source_of(c).encode('utf-8'))
        return out
    for src in docs:
        tree = deep.tree_of(S, src)
        if tree is None:
            cov['gaps'].append('not parsed: %r' % src)
            continue
        cov['docs'] += 1
        n_src = norm_tree(tree)
        sp = [(a, b) for a, b, k in spans(tree) if b > a and k not in ('Space', 'Parbreak', 'Markup') or k == 'Markup' and a > 0]
        cand = []
        for a, b in sp:
            for r in ((a, b), (a, a), (a + 1, b) if b - a > 2 else None):
                if r and r not in cand:
                    cand.append(r)
        # spread over the document
        step = max(1, len(cand) // max_ranges)
        cand = cand[::step][:max_ranges]
        bs = src.encode('utf-8')
        for (a, b) in cand:
            if any((bs[i] & 0xC0) == 0x80 for i in (a, b) if i < len(bs)):
                continue
            for width in widths:
                def body(ctx, tree=tree, src=src, a=a, b=b, width=width, n_src=n_src, bs=bs):
                    m = S.machine(core, STD, ctx)
                    m.max_depth = 300
                    root = deep.build(ctx, tree, kt, [0], concrete_ws=True)
                    cfg = Agg('Config', None, (2, width, 2, False), pp.CFG_NAMES)
                    typ = Agg('Typstyle', None, (cfg,), ('config',))
                    info = dict(source=src, start=a, end=b, width=width, tab=2)
                    try:
                        res = m.call_fn(fn, [m.heap.alloc(typ), Source(Str.lit(src), root), Agg('Range', None, (a, b), ('start', 'end'))])
                    except Panic as p:
                        S.absorb(m)
                        ctx.must_hold(False, 'C13:range-formatting-panics', lambda mdl: dict(info, panic=p.msg))
                        return
                    S.absorb(m)
                    if res.variant == 'Err':
                        ctx.must_hold(False, 'C13:well-formed-source-refused', lambda mdl: info)
                        return
                    r, txt = res.fields[0].fields
                    if not (isinstance(txt, OStr) and txt.term[0] == 'render'):
                        ctx.must_hold(False, 'C13:result-not-rendered-document', lambda mdl: info)
                        return
                    doc = txt.term[1].deps[0]
                    rs, re_ = simp(r.fields[0]), simp(r.fields[1])
                    try:
                        text = render_text(doc, width)
                    except SymbolicText:
                        return
                    seg = bs[a:min(b, len(bs))].decode('utf-8', 'replace')
                    ws_ = ''.join(WS_SET)
                    core_ = seg.strip(ws_)
                    ta = a + len(seg[:len(seg) - len(seg.lstrip(ws_))].encode('utf-8'))
                    tb = ta + len(core_.encode('utf-8'))
                    ctx.must_hold(core_ == '' or (rs <= ta and tb <= re_), 'C13:returned-range-does-not-cover-the-request', lambda mdl: dict(info, returned=(rs, re_), trimmed=(ta, tb)))
                    out = bs[:rs].decode('utf-8', 'replace') + text + bs[re_:].decode('utf-8', 'replace')
                    t_out = deep.tree_of(S, out)
                    if t_out is None:
                        ctx.must_hold(False, 'C13:spliced-text-does-not-parse', lambda mdl: dict(info, returned=(rs, re_), text=text, spliced=out))
                        return
                    d = first_difference(n_src, norm_tree(t_out))
                    ctx.must_hold(d is None, 'C13:spliced-text-has-another-syntax-tree', lambda mdl: dict(info, returned=(rs, re_), text=text, spliced=out, difference=d))
                    ctx.witness('range spliced and parsed')
                tasks.append(('range[%s,%d..%d,width %d]' % (show(src)[:30], a, b, width),
                              'format_source_range(%s, %d..%d) at width %d: the result spliced into the source parses and has the same tree modulo layout' % (show(src)[:50], a, b, width),
                              body, dict(document=src[:80], start=a, end=b, width=width)))
    cov['tasks'] = len(tasks)
    for (ob, viol), task in zip(S.explore_batch(tasks), tasks):
        if ob.status.startswith('inconclusive'):
            S.inconclusive[:] = [x for x in S.inconclusive if not x.startswith(ob.name + ':')]
            cov['gaps'].append('%s: %s' % (ob.name, ob.status[:160]))
        else:
            cov['decided'] += 1
        for lab, mdl, info in viol:
            found.append((lab, info))
    S.validation['range_documents'] = dict(cov, gaps=cov['gaps'][:6], n_gaps=len(cov['gaps']))
    return found, cov


def confirm_range(S, info):
    """format_source_range on the real library, spliced and parsed"""
    src, a, b = info['source'], info['start'], info['end']
    bs = src.encode('utf-8')
    t_src = deep.tree_of(S, src)
    for w in (info['width'], 80, 20, 0):
        r = S.driver.call('format_range', hexs(src), a, b, min(w, 1 << 30), info.get('tab', 2))
        if r[0] in ('panic', 'abort'):
            return dict(api='Typstyle::format_source_range', source=src, start=a, end=b, width=w, what='format_source_range panics on %s %d..%d' % (show(src), a, b))
        if r[0] != 'ok':
            continue
        rs, re_ = int(r[1]), int(r[2])
        out = bs[:rs].decode('utf-8', 'replace') + unhexs(r[3]) + bs[re_:].decode('utf-8', 'replace')
        t_out = deep.tree_of(S, out)
        if t_out is None:
            return dict(api='Typstyle::format_source_range', source=src, start=a, end=b, width=w, output=out,
                        what='formatting the range %d..%d of %s (width %d) and splicing the result gives text with syntax errors: %s' % (a, b, show(src), w, show(out)))
        d = first_difference(norm_tree(t_src), norm_tree(t_out)) if t_src is not None else None
        if d:
            return dict(api='Typstyle::format_source_range', source=src, start=a, end=b, width=w, output=out, difference=d,
                        what='formatting the range %d..%d of %s (width %d) and splicing the result changes the syntax tree: %s (%s)' % (a, b, show(src), w, show(out), d))
    return None


def report_range(S, found):
    groups = {}
    for lab, info in found:
        groups.setdefault((lab, site_of(info.get('source', ''))), []).append(info)
    for (lab, site), infos in sorted(groups.items()):
        hit = None
        for info in infos[:8]:
            w = confirm_range(S, info)
            if w:
                hit = (info, w)
                break
        key = '%s:%s' % (lab, site)
        if hit:
            S.violation(key, '%s: %s' % (key, hit[1]['what']), dict(api=hit[1], model={k: v for k, v in hit[0].items() if k not in ('spliced',)}))
        else:
            S.inconclusive.append('%s: no solver model reproduced natively (%r)' % (key, {k: v for k, v in infos[0].items() if k not in ('spliced', 'text')}))


def confirm(S, info, prop='C03', only_width=False):
    """the same on the real library at the width of the task and a few others"""
    src = info['source']
    if S.driver.call('erroneous', hexs(src))[1] == '1':
        return None
    if prop in ('C01', 'C04', 'C02', 'C09', 'C06', 'C08'):
        t_src = deep.tree_of(S, src)
        for w in ((info['width'],) if only_width else (info['width'], 0, 80, 40, 20, 15, 10, 1 << 20)):
            a = S.driver.call('format', hexs(src), w, info.get('tab', 2), info.get('reorder', 0))
            if a[0] != 'ok':
                continue
            out = unhexs(a[1])
            t_out = deep.tree_of(S, out)
            if t_out is None:
                return dict(api='Typstyle::format_content', source=src, width=w, tab=info.get('tab', 2), output=out,
                            what='well-formed %s is formatted to text with syntax errors (width %d): %s' % (show(src), w, show(out)))
            if prop == 'C08' and t_src is not None:
                d = prose_lines_broken(t_src, t_out)
                if d:
                    return dict(api='Typstyle::format_content', source=src, width=w, tab=info.get('tab', 2), output=out, difference=d,
                                what='a line of %s that holds prose is broken when formatted (width %d) to %s: %s' % (show(src), w, show(out), d))
            if prop == 'C06' and t_src is not None and comment_list(t_src) != comment_list(t_out):
                return dict(api='Typstyle::format_content', source=src, width=w, tab=info.get('tab', 2), output=out,
                            what='comments of %s change when formatted (width %d) to %s: %r -> %r' % (show(src), w, show(out), comment_list(t_src), comment_list(t_out)))
            if prop in ('C02', 'C09') and t_src is not None:
                d = first_difference(eval_tree(t_src, math_nl=prop == 'C09'), eval_tree(t_out, math_nl=prop == 'C09'))
                if d is None and prop == 'C02' and raw_lines(S, src) != raw_lines(S, out):
                    d = 'the text Typst extracts from a raw element changes'
                if d:
                    return dict(api='Typstyle::format_content', source=src, width=w, tab=info.get('tab', 2), output=out, difference=d,
                                what='what evaluation sees of %s changes when formatted (width %d) to %s: %s' % (show(src), w, show(out), d))
            if prop == 'C01' and t_src is not None:
                d = first_difference(norm_tree(t_src), norm_tree(t_out))
                if d:
                    return dict(api='Typstyle::format_content', source=src, width=w, tab=info.get('tab', 2), output=out, difference=d,
                                what='the syntax tree of %s changes when formatted (width %d) to %s: %s' % (show(src), w, show(out), d))
        return None
    for w in ((info['width'],) if only_width else (info['width'], 0, 80, 40, 20, 1 << 20)):
        a = S.driver.call('format', hexs(src), w, info.get('tab', 2), info.get('reorder', 0))
        if a[0] != 'ok':
            continue
        b = S.driver.call('format', a[1], w, info.get('tab', 2), info.get('reorder', 0))
        if b[0] != 'ok' or b[1] != a[1]:
            return dict(api='format(format(x))', source=src, width=w, tab=info.get('tab', 2), first=unhexs(a[1]), second=unhexs(b[1]) if b[0] == 'ok' else b[0],
                        what='format is not idempotent on %s (width %d): %s then %s' % (show(src), w, show(unhexs(a[1])), show(unhexs(b[1]) if b[0] == 'ok' else b[0])))
    return None


# documents that show a defect recorded as an open known finding: the key carries the document's id, so that nothing else is suppressed
KNOWN_DEFECT_DOCS = {
    '#let f = (((_))) => 1\n': 'placeholder-parameter-in-nested-parentheses',
    '#f(a, /* @typstyle off */\n b  +  c)\n': 'directive-comment-behind-a-comma',
    '$ mat(a, // c\n b; c) $\n': 'math-row-with-a-line-comment',
    '* - a\nb *\n': 'strong-body-that-starts-with-a-dash',
    'text #box[- a\n           b]\n': 'list-item-in-a-content-block-on-a-text-line',
    '#let x = [ #f(aaaaaaaaaaaa, bbbbbbbbbbbbbb, cccccccccccccc, ddddddddddddd, eeeeeeeeeeeeee, fffffffffff)]\n': 'content-block-with-a-left-blank-whose-call-breaks',
    'a #[ /* c */] b\n': 'content-block-that-holds-only-a-comment',
    '==/* c */\n': 'heading-marker-directly-followed-by-a-comment',
}


def known_class(src):
    """documents that show an open known finding, by what they have in common (generated families cannot be listed one by one)"""
    import re as _re
    if src in KNOWN_DEFECT_DOCS:
        return KNOWN_DEFECT_DOCS[src]
    if _re.search(r'\$[^$]*[^\s$]// c\n', src):
        return 'line-comment-glued-to-a-token-inside-an-equation'
    return None


def site_of(src):
    """role of a document for the keys of known findings: its first construct"""
    s = src.lstrip()
    for p, name in (('#table', 'table'), ('#grid', 'table'), ('#let x = [', 'content-block'), ('#[', 'content-block'), ('#f[', 'content-block'), ('$', 'equation'),
                    ('- ', 'list'), ('+ ', 'list'), ('/ ', 'list'), ('= ', 'heading'), ('#import', 'import'), ('#{', 'code-block')):
        if s.startswith(p):
            return name
    return 'other'


def report(S, prop, found):
    groups = {}
    for lab, info in found:
        if lab.startswith(prop + ':') or (prop in ('C01', 'C02', 'C09', 'C06', 'C08') and lab.startswith('C04:')):
            kid = known_class(info.get('seed', ''))
            groups.setdefault((lab, 'document:' + kid if kid else site_of(info.get('seed', ''))), []).append(info)
    for (lab, site), infos in sorted(groups.items()):
        hit = None
        for info in infos[:8]:
            w = confirm(S, info, prop)
            if w:
                hit = (info, w)
                break
        key = '%s:%s' % (lab, site)
        if hit:
            S.violation(key, '%s: %s' % (key, hit[1]['what']), dict(api=hit[1], model=hit[0]))
        else:
            S.inconclusive.append('%s: no solver model reproduced natively (%r)' % (key, {k: v for k, v in infos[0].items() if k != 'second'}))
