"""C09 — whitespace in math: convert_math / convert_math_delimited emit children in order with whitespace mapped 1-1."""
import itertools
import z3

from mirsym.values import *
from mirsym.explore import Panic
from mirsym import models_typst as T
from mirsym import models_doc as D
from mirsym.models_std import STD, Str, MapV, is_ws, valid_scalar
from mirsym.models_typst import Node, Ast
from mirsym.session import hexs, unhexs
from . import pp
from .common import *
from .markup import is_newline, has_newline, NEWLINES
from .lists import show_atoms

EXPLANATION = (
    "Bounded symbolic execution (MIR->SMT, z3), mechanism level. PrettyPrinter::convert_math over every child sequence of up to K nodes "
    "from {math expression (converter opaque), whitespace token with symbolic text, hash, other token}: the output atoms are, per child "
    "in order, the expression's document, a hard line break iff the whitespace token holds a Typst newline else exactly one blank, '#', "
    "or the token text - nothing is emitted between two children that had no token between them, and nothing is dropped; expressions are "
    "converted with breaks suppressed (Code mode after a hash). convert_math_delimited: whitespace at the inner edges of the delimiters "
    "maps to blank / hard line break exactly, the body is nested by tab_spaces between the converted delimiters. Math call arguments "
    "(exempt by the property), attachments/fractions/roots (exempt) and equation delimiters through the list stylist are outside; so is "
    "what the renderer does with the atoms. Session 3: whole documents with equations through the real printer, the interpreted renderer and the REAL parser: blanks between math siblings, the display flag of every equation and the nesting of math nodes are those of the source.")

CATS = ['expr', 'space', 'hash', 'tok']


def run(S):
    kt = T.KT = T.KindTable(S.driver, S.adts)
    core = S.core
    K = 3 if S.tier == 'quick' else 5
    f_math = S.find_fn(core, 'PrettyPrinter::convert_math')
    f_delim = S.find_fn(core, 'PrettyPrinter::convert_math_delimited')
    found = []

    expr_kinds = set(kt.cast_variant['Expr']) - {kt.k('Space'), kt.k('Hash')}

    def sequences(k):
        for combo in itertools.product(CATS, repeat=k):
            if any(a == 'space' and b == 'space' for a, b in zip(combo, combo[1:])):
                continue
            yield combo

    def ws_node(ctx, name):
        c0 = z3.BitVec(name + '_0', 32)
        c1 = z3.BitVec(name + '_1', 32)
        for cc in (c0, c1):
            ctx.assume(valid_scalar(cc))
            ctx.assume(is_ws(cc))
        return Node(kt.k('Space'), text=Str((c0, c1)))

    def printer_with_empty_attrs(m):
        attrs = Agg('AttrStore', None, (MapV(),), ('attr_map',))
        return pp.printer(m, attrs=attrs)

    for k in range(0, K + 1):
        for combo in sequences(k):
            def body(ctx, combo=combo):
                calls = []

                def conv_expr(m, a, ci):
                    nd = T._node(m, a[2])
                    calls.append((nd.nid, a[1]))
                    return D.opaque_doc('expr', (nd.nid,))
                m = S.machine(core, STD, ctx, overrides={'convert_expr': conv_expr})
                kids = []
                for i, c in enumerate(combo):
                    if c == 'expr':
                        # any expression kind (symbolic); shaped like `( inner )` so that converters looking into a parenthesised
                        # expression find an inner expression of any kind as well
                        ek = z3.BitVec('ek%d' % i, 8)
                        ik = z3.BitVec('ik%d' % i, 8)
                        ctx.assume(T.kind_in(ek, expr_kinds))
                        ctx.assume(T.kind_in(ik, expr_kinds))
                        kids.append(Node(ek, children=[Node(kt.k('LeftParen'), text=Str.lit('(')), Node(ik, text=Str.lit('x%d' % i)),
                                                       Node(kt.k('RightParen'), text=Str.lit(')'))]))
                    elif c == 'space':
                        kids.append(ws_node(ctx, 'sp%d' % i))
                    elif c == 'hash':
                        kids.append(Node(kt.k('Hash'), text=Str.lit('#')))
                    else:
                        kids.append(Node(kt.k('LeftParen'), text=Str.lit('(')))
                math = Node(kt.k('Math'), children=kids)
                pr, cfg = printer_with_empty_attrs(m)
                c0 = pp.context()
                try:
                    d = m.call_fn(f_math, [pr, c0, Ast('Math', math)])
                except Panic as p:
                    S.absorb(m)
                    ctx.must_hold(False, 'math-panic', lambda mdl: dict(children=list(combo), panic=p.msg))
                    return
                S.absorb(m)
                at = D.atoms(d, flat=False)

                def describe(mdl):
                    return dict(children=list(combo), spaces={str(i): kids[i].text.concrete(mdl) for i, c in enumerate(combo) if c == 'space'}, atoms=show_atoms(at))
                ctx.must_hold(len(at) == len(kids), 'math-atom-count-differs-from-child-count', describe)
                if len(at) != len(kids):
                    return
                conds = []
                for i, (c, a, nd) in enumerate(zip(combo, at, kids)):
                    if c == 'expr':
                        conds.append(a == ('o', 'expr', (nd.nid,)))
                    elif c == 'space':
                        is_nl = a == ('nl',)
                        is_blank = a[0] == 't' and a[1].is_concrete() and a[1].concrete() == ' '
                        conds.append(is_nl or is_blank)
                        conds.append(i_eq(is_nl, has_newline(nd.text)))
                    elif c == 'hash':
                        conds.append(a[0] == 't' and a[1].is_concrete() and a[1].concrete() == '#')
                    else:
                        conds.append(a[0] == 't' and a[1].is_concrete() and a[1].concrete() == '(')
                ctx.must_hold(b_and(*conds), 'math-whitespace-created-removed-or-converted', describe)
                # contexts: breaks suppressed; Code mode right after a hash, otherwise the incoming mode
                cc = []
                j = 0
                for i, c in enumerate(combo):
                    if c == 'expr':
                        nid, cx = calls[j]
                        j += 1
                        cc.append(cx.get('break_suppressed') is True)
                        after_hash = i > 0 and combo[i - 1] == 'hash'
                        # after a hash the expression is code; whether continued or not makes no difference here (breaks are suppressed)
                        cc.append(b_or(i_eq(cx.get('mode').disc, 1, 64), i_eq(cx.get('mode').disc, 2, 64)) if after_hash else i_eq(cx.get('mode').disc, c0.get('mode').disc, 64))
                ctx.must_hold(b_and(*cc), 'math-expression-context-wrong', describe)
                if 'space' in combo:
                    ctx.witness('math with whitespace')
            ob, ex = S.explore('math[%s]' % ','.join(combo), 'convert_math over children %r' % (combo,), body, bounds=dict(children=k))
            for lab, mdl, info in ex.violations:
                found.append((lab, info))
            if ob.status.startswith('inconclusive'):
                break

    # ---- convert_math_delimited: whitespace and comments between the delimiters and the body ------------------------------------
    PATTERNS = [['m'], ['sp', 'm'], ['m', 'sp'], ['sp', 'm', 'sp'], ['c', 'sp', 'm'], ['sp', 'c', 'sp', 'm'], ['m', 'sp', 'c'], ['m', 'sp', 'c', 'sp'], ['c', 'm'], ['m', 'c'],
                ['sp', 'c', 'sp', 'm', 'sp', 'c', 'sp'], ['c', 'sp', 'c', 'sp', 'm']]
    for pat in PATTERNS:
        def body(ctx, pat=pat):
            def conv_expr(m, a, ci):
                return D.opaque_doc('expr', (T._node(m, a[2]).nid,))

            def conv_math(m, a, ci):
                return D.opaque_doc('math', (T._node(m, a[2]).nid,))
            m = S.machine(core, STD, ctx, overrides={'convert_expr': conv_expr, 'convert_math': conv_math})
            op = Node(kt.k('MathText'), text=Str.lit('('))
            cl = Node(kt.k('MathText'), text=Str.lit(')'))
            kids = [op]
            spaces = {}
            for q, c in enumerate(pat):
                if c == 'm':
                    kids.append(Node(kt.k('Math'), children=[Node(kt.k('MathIdent'), text=Str.lit('a'))]))
                elif c == 'sp':
                    nd = ws_node(ctx, 'ws%d' % q)
                    spaces[q] = nd
                    kids.append(nd)
                else:
                    kids.append(Node(kt.k('BlockComment'), text=Str.lit('/*c%d*/' % q)))
            kids.append(cl)
            node = Node(kt.k('MathDelimited'), children=kids)
            pr, cfg = printer_with_empty_attrs(m)
            lead = pat[0] == 'sp'
            trail = pat[-1] == 'sp'
            try:
                d = m.call_fn(f_delim, [pr, pp.context(), Ast('MathDelimited', node)])
            except Panic as p:
                S.absorb(m)
                ctx.must_hold(False, 'math-delimited-panic', lambda mdl: dict(pattern=pat, panic=p.msg))
                return
            S.absorb(m)
            # the fragment is observed both ways: on its own (every optional break taken) and inside an enclosing group that is laid out flat
            for enclosing_flat in (False, True):
                at = [a for a in D.atoms(d, flat=enclosing_flat) if not (a[0] == 't' and a[1].is_concrete() and a[1].concrete() == '')]

                def describe(mdl):
                    return dict(pattern=list(pat), enclosing_group_flat=enclosing_flat, spaces={str(q): nd.text.concrete(mdl) for q, nd in spaces.items()}, atoms=show_atoms(at),
                                lead=spaces[0].text.concrete(mdl) if lead else None, trail=spaces[len(pat) - 1].text.concrete(mdl) if trail else None)
                exp_len = 2 + len(pat)
                ctx.must_hold(len(at) == exp_len and at[0] == ('o', 'expr', (op.nid,)) and at[-1] == ('o', 'expr', (cl.nid,)), 'math-delimited-shape', describe)
                if len(at) != exp_len:
                    continue
                conds = []
                for q, c in enumerate(pat):
                    a = at[1 + q]
                    if c == 'sp':
                        is_nl = a == ('nl',)
                        is_blank = a[0] == 't' and a[1].is_concrete() and a[1].concrete() == ' '
                        conds.append(is_nl or is_blank)
                        conds.append(i_eq(is_nl, has_newline(spaces[q].text)))
                    elif c == 'c':
                        conds.append(a[0] == 't' and a[1].is_concrete() and a[1].concrete() == '/*c%d*/' % q)
                    else:
                        conds.append(a[0] == 'o' and a[1] == 'math')
                ctx.must_hold(b_and(*conds), 'math-delimiter-edge-whitespace-changed', describe)
            nests = D.indent_nest_offsets(d)       # hang() of a comment is alignment, not indentation
            ctx.must_hold(len(nests) == 1 and i_eq(nests[0], cfg.get('tab_spaces'), 64), 'math-delimited-indent', describe)
        ob, ex = S.explore('math.delimited[%s]' % ','.join(pat), 'convert_math_delimited with %r between the delimiters (sp: whitespace token with symbolic text, c: block comment, m: body)' % (pat,), body)
        for lab, mdl, info in ex.violations:
            found.append((lab, info))

    if not found and not any('math with whitespace' in o.witnesses for o in S.obls):
        S.inconclusive.append('vacuity: no math sequence with whitespace reachable')
    # ---- replay ------------------------------------------------------------------------------------------------------
    groups = {}
    for lab, info in found:
        groups.setdefault(lab, []).append(info)
    for lab, infos in groups.items():
        hit = None
        for info in infos[:6]:
            w = native_confirm(S, info)
            if w:
                hit = (info, w)
                break
        if hit:
            key = 'C09:' + lab
            sp = list((hit[0].get('spaces') or {}).values()) + [hit[0].get('lead') or '', hit[0].get('trail') or '']
            if any(any(ord(ch) in NEWLINES and ch != '\n' for ch in s) for s in sp if s):
                key += ':non-LF-newline'
            S.violation(key, '%s: %s' % (key, hit[1]['what']), dict(api=hit[1], model=hit[0]))
        else:
            S.inconclusive.append('C09:%s: no solver model reproduced natively (%r)' % (lab, infos[0]))
    validate_corpus(S, 'math', found, lambda: native_confirm(S, {}))
    S.assumptions += [
        'lexer fact: whitespace tokens consist of char::is_whitespace characters and are never adjacent',
        'expression converters are opaque; the attribute store holds no format-disabled mark (C07 decides that path)',
    ]
    # whole documents with equations through the real printer, the interpreted renderer and the real parser: blanks between math siblings, the display
    # flag of every equation and the nesting of math nodes are those of the source (what evaluation sees; blanks around sub/superscript, fraction and
    # root operators are exempt)
    from . import reparse as _rp, deep as _dp
    _docs = [d_ for d_ in _rp.EVAL_DOCS + _rp.MISC_DOCS + _dp.DOCS + _dp.CODE_DOCS + _rp.corpus_docs(S) if '$' in d_]
    _fr, _covr = _rp.explore(S, _docs, tabs=(2,) if S.tier == 'quick' else (2, 4), widths=(0, 40, 1 << 30) if S.tier == 'quick' else (0, 20, 40, 80, 120, 1 << 30), prop='C09')
    _rp.report(S, 'C09', _fr)
    # generated families (construct x spelling x context x comment position, ~4000 well-formed documents): a sample that depends on VERIF_SEED in the
    # quick tier, all of them in the thorough tier
    from . import reparse as _rpf
    _fam = _rpf.families(S, seed=S.seed, limit=600 if S.tier == 'quick' else None)
    if 'C09' == 'C09':
        _fam = [d_ for d_ in _fam if '$' in d_]
    _ff, _covf = _rpf.explore(S, _fam, tabs=(2,), widths=(0, 1 << 30) if S.tier == 'quick' else (0, 20, 40, 80, 1 << 30), prop='C09')
    _rpf.report(S, 'C09', _ff)
    return S.finish(level='other', explanation=EXPLANATION, trusted=['mirsym encoder', 'typst-syntax contracts', 'pretty Doc algebra'])


def ws_class(s):
    if s == '':
        return 'none'
    return 'break' if any(ord(c) in NEWLINES for c in s) else 'space'


def native_confirm(S, info):
    """equation `$ a<ws>b $` / `$ (<ws>a<ws>) $`: the whitespace class between the atoms must survive"""
    cands = []
    for s in (info.get('spaces') or {}).values():
        cands.append(('$ a%sb $\n' % s, 'a', 'b', s))
        cands.append(('$ a%s#x $\n' % s, 'a', '#x', s))
    if info.get('pattern') and 'c' in info['pattern']:
        body = ''
        for q, c in enumerate(info['pattern']):
            body += 'a' if c == 'm' else '/*c%d*/' % q if c == 'c' else info['spaces'].get(str(q), ' ')
        src = '$(%s)$\n' % body
        if S.driver.call('erroneous', hexs(src))[1] != '1':
            for w in (80, 0):
                f = S.driver.call('format', hexs(src), w, 2, 0)
                if f[0] == 'ok':
                    out = unhexs(f[1])
                    import re as _re
                    cls = lambda t: [ws_class(x) for x in _re.split(r'\(|\)|a|/\*c\d+\*/', t[t.find('('):t.rfind(')') + 1])[1:-1]]
                    if cls(out) != cls(src):
                        return dict(api='Typstyle::format_content', source=src, width=w, output=out,
                                    what='whitespace between the delimiters, comments and body of a math group changed: %s -> %s' % (show(src), show(out)))
    for key in ('lead', 'trail'):
        s = info.get(key)
        if s:
            cands.append(('$ (%sa) $\n' % s if key == 'lead' else '$ (a%s) $\n' % s, '(' if key == 'lead' else 'a', 'a' if key == 'lead' else ')', s))
    # embedded code next to other atoms (parenthesised literals lose their parentheses; no blank may appear or vanish)
    cands += [('$#("kg")m$\n', '"kg"', 'm', ''), ('$#(2)!$\n', '2)', '!', ''), ('$#(2) !$\n', '2', '!', ' '), ('$a#(2)$\n', 'a', '#', ''), ('$#(a)b$\n', 'a)', 'b', ''),
              ('$#x y$\n', 'x', 'y', ' '), ('$#x;y$\n', 'x;', 'y', ''), ('$#f(1)g$\n', ')', 'g', ''), ('$#(1)+#(2)$\n', '1)', '+', ''), ('$x_#(1)y$\n', '1)', 'y', '')]
    cands += [('$ ( a\n) $\n', 'a', ')', '\n'), ('$ (\n a ) $\n', 'a', ')', ' '), ('$ (\n a ) $\n', '(', 'a', '\n '), ('$ ( a\n) $\n', '(', 'a', ' '),
              ('$ [ a +\n b\n] $\n', 'b', ']', '\n'),
              ('$ a b $\n', 'a', 'b', ' '), ('$ a\n b $\n', 'a', 'b', '\n '), ('$ ab $\n', 'a', 'b', ''), ('$ ( a ) $\n', '(', 'a', ' '), ('$ (a) $\n', '(', 'a', '')]
    for src, l, r, ws in cands:
        if S.driver.call('erroneous', hexs(src))[1] == '1':
            continue
        for w in (80, 0):
            f = S.driver.call('format', hexs(src), w, 2, 0)
            if f[0] != 'ok':
                return dict(api='Typstyle::format_content', source=src, width=w, what='format fails (%s) on %s' % (f[0], show(src)))
            out = unhexs(f[1])
            i = out.find(l)
            j = out.find(r, i + len(l)) if i >= 0 else -1
            if i < 0 or j < 0:
                return dict(api='Typstyle::format_content', source=src, width=w, output=out, what='math atoms lost: %s -> %s' % (show(src), show(out)))
            got = ws_class(out[i + len(l):j])
            exp = ws_class(ws)
            if got != exp:
                return dict(api='Typstyle::format_content', source=src, width=w, output=out,
                            what='whitespace between math atoms %s and %s is `%s` in %s but `%s` in the output %s' % (l, r, exp, show(src), got, show(out)))
    return None
