"""C07 — '@typstyle off': marking by the attribute pass and consumption by the conversion entry points."""
import itertools
import z3

from mirsym.values import *
from mirsym.explore import Panic
from mirsym import models_typst as T
from mirsym import models_doc as D
from mirsym.models_std import STD, Str, OStr, MapV, sym_str, str_eq
from mirsym.models_typst import Node, Ast
from mirsym.session import hexs, unhexs
from . import pp
from .common import *

EXPLANATION = (
    "Bounded symbolic execution (MIR->SMT, z3). Marking: AttrStore::compute_no_format_impl (+ set_format_disabled, set_commented) over "
    "every sequence of up to K children with symbolic kinds and, per comment, a symbolic 'text contains @typstyle off': child i is "
    "marked iff it is a directive comment or the first sibling after a directive comment that is neither a comment, whitespace nor a "
    "hash; what counts as a directive is decided on comment texts of symbolic characters (`//` or `/*` + p + `@typstyle off` + q, p + q <= 2 / 3: "
    "always a directive; comments too short to hold the words and four comments without them: never); the parent is marked has_comment iff some child is a comment; the pass recurses exactly into the unmarked non-comment "
    "children. Consumption: convert_expr, convert_pattern, convert_math and convert_code_block with the mark symbolic: marked => the "
    "result is exactly text(source text of the node) and no other converter runs; unmarked => falls through to the ordinary "
    "conversion with the same context. Structural (same dump): convert_expr is the only caller of convert_expr_impl. That every "
    "syntactic position reaches one of these four entry points, and how the renderer lays out multi-line text atoms, are outside the claim. Session 3: what counts as a directive is decided on comment texts of symbolic characters around the words.")

ATTR_NAMES = ('is_format_disabled', 'has_comment', 'is_multiline', 'is_multiline_flavor')


def run(S):
    kt = T.KT = T.KindTable(S.driver, S.adts)
    core = S.core
    K = 4 if S.tier == 'quick' else 5
    K_LC, K_BC, K_SP, K_HASH = kt.k('LineComment'), kt.k('BlockComment'), kt.k('Space'), kt.k('Hash')
    f_mark = S.find_fn(core, 'AttrStore::compute_no_format_impl')
    found = []

    # ---- (1) marking ---------------------------------------------------------------------------------------
    for k in range(0, K + 1):
        def body(ctx, k=k):
            C = STD.fork()
            dirs = {}

            def contains(m, a, ci):
                s = a[0]
                while isinstance(s, Ref):
                    s = m.load(s)
                if isinstance(s, OStr) and s.term[0] == 'text':
                    return dirs[s.term[1]]
                raise Exception('unexpected contains on %r' % (s,))
            C.table['str::contains'] = contains
            recursed = []

            def rec(m, a, ci):
                recursed.append(m.load(a[1]).nid if isinstance(a[1], Ref) else a[1].nid)
                return UNIT
            m = S.machine(core, C, ctx, overrides={'AttrStore::compute_no_format_impl': rec})
            kids = []
            for i in range(k):
                kind = z3.BitVec('kind%d' % i, 8)
                ctx.assume(z3.ULT(kind, kt.n))
                dirs[i] = z3.Bool('directive%d' % i)
                kids.append(Node(kind, text=OStr(('text', i)), nid=10 + i))
            parent = Node(kt.k('Markup'), children=kids, nid=1)
            store = m.heap.alloc(Agg('AttrStore', None, (MapV(),), ('attr_map',)))
            try:
                m.call_fn(f_mark, [store, parent])
            except Panic as p:
                S.absorb(m)
                ctx.must_hold(False, 'marking-panics', lambda mdl: dict(kinds=[kt.names[model_int(mdl, n.kind)] for n in kids], panic=p.msg))
                return
            S.absorb(m)
            mp = m.load(store).get('attr_map').d

            def describe(mdl):
                return dict(children=[dict(kind=kt.names[model_int(mdl, n.kind)], directive=model_bool(mdl, dirs[i])) for i, n in enumerate(kids)],
                            marked=[i for i, n in enumerate(kids) if ('span', n.nid) in mp and mp[('span', n.nid)].get('is_format_disabled') is True],
                            recursed=[x - 10 for x in recursed])
            # reference semantics
            pending = False
            any_comment = False
            for i, n in enumerate(kids):
                is_cmt = T.kind_in(n.kind, {K_LC, K_BC})
                # whitespace (a paragraph break is whitespace too) and `#` are skipped
                skip = T.kind_in(n.kind, {K_SP, K_HASH, kt.k('Parbreak')})
                exp_marked = b_or(b_and(is_cmt, dirs[i]), b_and(b_not(is_cmt), pending, b_not(skip)))
                exp_rec = b_and(b_not(is_cmt), b_not(b_and(pending, b_not(skip))))
                got = mp.get(('span', n.nid))
                got_marked = got.get('is_format_disabled') if got is not None else False
                ctx.must_hold(i_eq(got_marked, exp_marked), 'node-after-directive-not-marked-or-wrong-node-marked', describe)
                ctx.must_hold(i_eq(n.nid in recursed, exp_rec), 'recursion-into-wrong-children', describe)
                pending = b_or(b_and(is_cmt, b_or(pending, dirs[i])), b_and(b_not(is_cmt), pending, skip))
                any_comment = b_or(any_comment, is_cmt)
            # (the has_comment attribute computed by the same pass is read nowhere in the crate and is no part of the property: not checked)
            ctx.must_hold(recursed == sorted(recursed), 'recursion-order', describe)
            if k >= 3:
                ctx.witness('directive, then space/hash, then node marked',
                            b_and(T.kind_in(kids[0].kind, {K_LC, K_BC}), dirs[0], T.kind_in(kids[1].kind, {K_SP, K_HASH}),
                                  b_not(T.kind_in(kids[2].kind, {K_LC, K_BC, K_SP, K_HASH, kt.k('Parbreak')}))))
        ob, ex = S.explore('attr.no_format[k=%d]' % k, 'compute_no_format_impl over %d children with symbolic kinds and directive flags' % k, body,
                           bounds=dict(children=k))
        if k >= 3:
            S.require_witness(ob, ['directive, then space/hash, then node marked'])
        for lab, mdl, info in ex.violations:
            found.append((lab, info))
        if ob.status.startswith('inconclusive'):
            break

    # ---- (1b) what counts as a directive: the comment text is a string of symbolic characters ---------------------------------------
    # `//` or `/*` + p arbitrary characters + `@typstyle off` + q arbitrary characters (+ `*/`): the next node is marked, whatever surrounds the
    # words; a comment too short to hold the words, or one of the listed near misses, marks nothing
    from mirsym.models_std import valid_scalar
    NEAR = ['// @typstyle on', '// @typstyle', '// a comment about typstyle', '/* off */']      # (spellings a laxer reader might accept, e.g. two blanks, are not judged)
    PQ = [(0, 0), (1, 0), (0, 1), (1, 1), (2, 0), (0, 2)] + ([] if S.tier == 'quick' else [(2, 1), (1, 2), (2, 2), (3, 0), (0, 3)])
    cases = [('dir', blk, p_, q_) for blk in (False, True) for (p_, q_) in PQ] + [('short', blk, n_, 0) for blk in (False, True) for n_ in range(0, 4)] + [('near', t_.startswith('/*'), t_, 0) for t_ in NEAR]
    for case in cases:
        def body_dir(ctx, case=case):
            tag, blk, p_, q_ = case
            m = S.machine(core, STD, ctx, overrides={})
            if tag == 'near':
                text = Str.lit(p_)
            else:
                pre = sym_str(ctx, 'p', p_)
                suf = sym_str(ctx, 's', q_)
                for c in list(pre.chars) + list(suf.chars):
                    # lexer facts: a line comment holds no Typst newline, a block comment closes at the first `*/` (and nests at `/*`)
                    if blk:
                        ctx.assume(b_and(b_not(c_eq(c, ord('*'))), b_not(c_eq(c, ord('/')))))
                    else:
                        ctx.assume(b_not(b_or(*[i_eq(c, k_, 32) for k_ in T.TYPST_NEWLINES])))
                mid = Str.lit('@typstyle off') if tag == 'dir' else Str.lit('')
                text = Str.lit('/*' if blk else '//').concat(pre).concat(mid).concat(suf).concat(Str.lit('*/' if blk else ''))
            kids = [Node(K_BC if blk else K_LC, text=text, nid=10), Node(K_SP, text=Str.lit('\n'), nid=11), Node(kt.k('Ident'), text=Str.lit('x'), nid=12)]
            parent = Node(kt.k('Markup'), children=kids, nid=1)
            store = m.heap.alloc(Agg('AttrStore', None, (MapV(),), ('attr_map',)))
            try:
                m.call_fn(f_mark, [store, parent])
            except Panic as pn:
                S.absorb(m)
                ctx.must_hold(False, 'marking-panics', lambda mdl: dict(comment=text.concrete(mdl), panic=pn.msg))
                return
            S.absorb(m)
            mp = m.load(store).get('attr_map').d
            got = mp.get(('span', 12))
            got_marked = got.get('is_format_disabled') if got is not None else False
            want_marked = tag == 'dir'
            ctx.must_hold(i_eq(got_marked, want_marked), 'comment-containing-the-directive-words-not-honoured' if want_marked else 'comment-without-the-directive-words-honoured',
                          lambda mdl: dict(comment=text.concrete(mdl), marked=model_bool(mdl, got_marked), expected=want_marked))
        ob, ex = S.explore('attr.directive_text[%s,%s,%r,%r]' % (case[0], 'block' if case[1] else 'line', case[2], case[3]),
                           'a comment marks the next node iff its text contains `@typstyle off` (comment text of symbolic characters)', body_dir,
                           bounds=dict(prefix=case[2], suffix=case[3]))
        for lab, mdl, info in ex.violations:
            found.append((lab, info))

    # ---- (2) consumption -----------------------------------------------------------------------------------------
    def consume(name, fn_name, make_arg, impl_overrides, kind_name):
        fn = S.find_fn(core, fn_name)

        def body(ctx):
            calls = []

            def mk(tag):
                def f(m, a, ci):
                    calls.append((tag, a[1] if len(a) > 1 else None))
                    return D.opaque_doc(tag)
                return f
            ov = {k2: (mk(k2) if not callable(v2) else v2) for k2, v2 in (impl_overrides.items() if isinstance(impl_overrides, dict) else [(x, None) for x in impl_overrides])}
            m = S.machine(core, STD, ctx, overrides=ov)
            dis = z3.Bool('disabled')
            t1 = sym_str(ctx, 'a', 1)
            t2 = sym_str(ctx, 'b', 1)
            target, root_node, wrap = make_arg(ctx, t1, t2)
            attrs = Agg('AttrStore', None, (MapV({('span', target.nid): Agg('Attributes', None, (dis, False, False, False), ATTR_NAMES)}),), ('attr_map',))
            pr, cfg = pp.printer(m, attrs=attrs)
            c = pp.context()
            try:
                d = m.call_fn(fn, [pr, c, wrap(m, root_node)])
            except Panic as p:
                S.absorb(m)
                ctx.must_hold(False, name + ':panic', lambda mdl: dict(entry=fn_name, panic=p.msg))
                return
            S.absorb(m)
            describe = lambda mdl: dict(entry=fn_name, disabled=model_bool(mdl, dis), text=(t1.concrete(mdl), t2.concrete(mdl)), calls=[x[0] for x in calls])
            whole = root_node.into_text()
            is_verb = d.k == 'text' and len(d.a) == len(whole)
            if is_verb and not calls:
                ctx.must_hold(dis, name + ':verbatim-although-not-disabled', describe)
                ctx.must_hold(str_eq(d.a, whole), name + ':verbatim-text-differs-from-source', describe)
                ctx.witness(name + ' verbatim')
            else:
                ctx.must_hold(b_not(dis), name + ':disabled-node-still-formatted', describe)
                ctx.witness(name + ' formatted')
        ob, ex = S.explore('consume.' + name, '%s: marked => text(source text), nothing else converted; unmarked => ordinary conversion' % fn_name, body,
                           bounds=dict(node='%s with two 1-code-point leaves' % kind_name))
        S.require_witness(ob, [name + ' verbatim', name + ' formatted'])
        for lab, mdl, info in ex.violations:
            found.append((lab, info))

    def two_leaf(kind):
        def f(ctx, t1, t2):
            n = Node(kt.k(kind), children=[Node(kt.k('Text'), text=t1), Node(kt.k('Text'), text=t2)])
            return n, n, None
        return f

    def arg_expr(ctx, t1, t2):
        n = Node(kt.k('Binary'), children=[Node(kt.k('Ident'), text=t1), Node(kt.k('Plus'), text=t2)])
        return n, n, (lambda m, node: T.make_cast(m, node, 'Expr'))

    def arg_pattern(ctx, t1, t2):
        n = Node(kt.k('Destructuring'), children=[Node(kt.k('LeftParen'), text=t1), Node(kt.k('RightParen'), text=t2)])
        return n, n, (lambda m, node: T.make_cast(m, node, 'Pattern'))

    def arg_math(ctx, t1, t2):
        n = Node(kt.k('Math'), children=[Node(kt.k('MathText'), text=t1), Node(kt.k('MathText'), text=t2)])
        return n, n, (lambda m, node: Ast('Math', node))

    def arg_code_block(ctx, t1, t2):
        body_ = Node(kt.k('Code'), children=[Node(kt.k('Ident'), text=t1)])
        n = Node(kt.k('CodeBlock'), children=[Node(kt.k('LeftBrace'), text=Str.lit('{')), body_, Node(kt.k('RightBrace'), text=t2)])
        return body_, n, (lambda m, node: Ast('CodeBlock', node))

    def arg_kind(kind, enum):
        def f(ctx, t1, t2):
            n = Node(kind, children=[Node(kt.k('Text'), text=t1), Node(kt.k('Text'), text=t2)])
            return n, n, (lambda m, node: T.make_cast(m, node, enum))
        return f
    for kind in sorted(kt.cast_variant['Expr']):
        consume('expr[%s]' % kt.names[kind], 'PrettyPrinter::convert_expr', arg_kind(kind, 'Expr'), ['convert_expr_impl'], kt.names[kind])
    for kind in sorted(kt.cast_variant['Pattern']):
        if kt.cast_variant['Pattern'][kind] == 'Normal' and kt.names[kind] not in ('Ident', 'FuncCall'):
            continue
        consume('pattern[%s]' % kt.names[kind], 'PrettyPrinter::convert_pattern', arg_kind(kind, 'Pattern'),
                ['convert_destructuring', 'convert_expr', 'convert_parenthesized', 'convert_literal'], kt.names[kind])
    consume('math', 'PrettyPrinter::convert_math', arg_math, ['convert_expr', 'convert_space', 'convert_trivia_untyped'], 'Math')
    consume('code_block', 'PrettyPrinter::convert_code_block', arg_code_block,
            {'process_iterable': None, 'print_doc': None, 'get_fold_style': (lambda m, a, ci: CEnum('FoldStyle', 0, 64))}, 'CodeBlock')

    # ---- (3) structural ---------------------------------------------------------------------------------------------
    callers = set()
    for name, fn in core.fns.items():
        for l in fn.raw_lines:
            if '::convert_expr_impl(' in l and ' = ' in l:
                callers.add(name.rsplit('::', 1)[-1])
    S.validation['callers_of_convert_expr_impl'] = sorted(callers)
    if callers != {'convert_expr'}:
        found.append(('bypass:convert_expr_impl-called-outside-convert_expr', dict(callers=sorted(callers))))

    # ---- whole documents with directives through the real printer (nothing opaque) ------------------------------------------------
    from . import deep
    fdeep, covd = deep.explore(S, deep.OFF_DOCS, want=('C07',))
    deep.report(S, 'C07', fdeep)
    if covd['decided'] < covd['docs']:
        S.inconclusive.append('deep directive documents: %r' % (covd['gaps'][:3],))

    # ---- replay --------------------------------------------------------------------------------------------------------
    if found:
        w = native_confirm(S)
        for lab in sorted({l for l, _ in found}):
            info = [i for l, i in found if l == lab][0]
            wm = None
            for inf in [i for l, i in found if l == lab and isinstance(i, dict) and 'comment' in i][:8]:
                # the model's own comment text in front of a call with odd spacing
                src = inf['comment'] + '\n#f( 1 ,2 )\n'
                if S.driver.call('erroneous', hexs(src))[1] == '1':
                    continue
                r = S.driver.call('format', hexs(src), 80, 2, 0)
                out = unhexs(r[1]) if r[0] == 'ok' else r[0]
                if inf['expected'] != ('#f( 1 ,2 )' in out):
                    wm = dict(api='Typstyle::format_content', source=src, width=80, output=out,
                              what='the comment %s %s `@typstyle off` but the node after it is %s: %s -> %s' % (show(inf['comment']), 'contains' if inf['expected'] else 'does not contain',
                                                                                                          'formatted' if inf['expected'] else 'kept verbatim', show(src), show(out)))
                    break
            if wm:
                S.violation('C07:' + lab, 'C07:%s: %s' % (lab, wm['what']), dict(api=wm, model=info))
            elif w:
                S.violation('C07:' + lab, 'C07:%s: %s' % (lab, w['what']), dict(api=w, model=info))
            else:
                S.inconclusive.append('C07:%s: solver model %r has no reproduction in the native corpus' % (lab, info))
    else:
        # the corpus must agree with the solver's verdict on this tree (guards the corpus itself)
        w = native_confirm(S)
        S.validation['native_corpus'] = 'clean (%d sources)' % len(CORPUS) if not w else w['what']
        if w:
            S.inconclusive.append('C07: the native corpus shows a deviation the solver-decided units do not explain: %s' % w['what'])
    S.assumptions += [
        'typst-syntax accessors (CodeBlock::body, casts) follow their contracts; Code body = the Code child of the block',
        'in the child-sequence obligation the comment text test is the uninterpreted predicate contains("@typstyle off"); the directive-text obligation executes the test on comment texts of symbolic characters (std contracts for contains / split / trim)',
        'HashMap<Span, Attributes> behaves as a finite map keyed by span; spans are unique per node',
    ]
    return S.finish(level='other', explanation=EXPLANATION, trusted=['mirsym encoder', 'typst-syntax contracts', 'HashMap contract'])


CORPUS = [
    # line breaks other than LF inside the protected node (between tokens, inside a string): reproduced character for character
    ('string-with-line-separator', '/* @typstyle off */ #"a\u2028b"\n', '"a\u2028b"', None),
    ('rhs-string-with-cr', '#let x = /* @typstyle off */ "p\rq"\n', '"p\rq"', None),
    ('array-with-form-feed', '#let y = /* @typstyle off */ (1,\x0c  2)\n', '(1,\x0c  2)', None),
    ('block-with-nel', '#{\n  // @typstyle off\n  let   x = (1,\u0085 2)\n}\n', 'let   x = (1,\u0085 2)', None),
    ('equation-with-vt', '$ /* @typstyle off */ a  +\x0b b $\n', 'a  +\x0b b', None),
    ('markup', '// @typstyle off\n#let   x  =  ( 1,2 )\n#let   y  =  ( 1,2 )\n', '#let   x  =  ( 1,2 )', '#let y = (1, 2)'),
    ('markup-block', '/* @typstyle off */ #f( 1 ,2 )\n\n#f( 1 ,2 )\n', '#f( 1 ,2 )', '#f(1, 2)'),
    ('code-block', '#{\n  let a = 1\n  // @typstyle off\n  let   x  =  ( 1,2 )\n  let   y  =  ( 1,2 )\n}\n', 'let   x  =  ( 1,2 )', 'let y = (1, 2)'),
    ('code-body', '#{\n  // @typstyle off\n  let   x  =  ( 1,2 )\n  let   y  =  ( 1,2 )\n}\n#let   z=1\n', 'let   x  =  ( 1,2 )\n  let   y  =  ( 1,2 )', '#let z = 1'),
    ('rhs-paren', '#let x = /* @typstyle off */ (a   +  b)\n#let y = (a   +  b)\n', '(a   +  b)', 'y = (a + b)'),
    ('nested-paren', '#let z = (/* @typstyle off */ (a  +  b))\n', '(a  +  b)', None),
    ('for-pattern', '#for /* @typstyle off */ ( a,b ) in c {}\n', '( a,b )', None),
    ('placeholder', '#let (/* @typstyle off */ _ , b ) = (1,2)\n', '_', 'b) = (1, 2)'),
    ('param', '#let f(/* @typstyle off */ ( a,b ) , c ) = 1\n', '( a,b )', None),
    ('argument', '#f(\n  // @typstyle off\n  ( 1,2 ),\n  ( 3,4 ),\n)\n', '( 1,2 )', '(3, 4)'),
    ('array-item', '#(\n  // @typstyle off\n  ( 1,2 ),\n  ( 3,4 ),\n)\n', '( 1,2 )', '(3, 4)'),
    ('math', '$\n  // @typstyle off\n  a+b   c \n$\n', 'a+b   c', None),
    ('math-group', '$ x   + (/* @typstyle off */ a  +  b) $\n', 'a  +  b)', 'x + ('),
    ('math-bracket', '$ [ /* @typstyle off */ a   b ]   +   y $\n', 'a   b ]', '+ y $'),
    ('math-brace', '$ abs(x)   + {/* @typstyle off */ u  -  v} $\n', 'u  -  v}', 'abs(x) + {'),
    ('math-arg', '$ sin(/* @typstyle off */ a  +  b,   c   d) $\n', 'a  +  b', 'c d)'),
    ('math-inner', '$ x   + /* @typstyle off */ (a  +  b)   c $\n', '(a  +  b)', 'x + /*'),
    ('math-embedded', '$ x /* @typstyle off */ #f(a,   b)   +   y $\n', '#f(a,   b)', '+ y $'),
    ('blank-line', '/* @typstyle off */\n\n#f( 1 ,2 )\n', '#f( 1 ,2 )', None),
    ('blank-line-code', '#{\n  // @typstyle off\n\n  let   x  =  ( 1,2 )\n}\n', 'let   x  =  ( 1,2 )', None),
    ('rhs', '#let x = /* @typstyle off */ ( 1,2 )\n#let y = ( 1,2 )\n', '( 1,2 )', 'y = (1, 2)'),
    ('body', '#let f() = /* @typstyle off */ { 1+1 }\n#let g() = { 1+1 }\n', '{ 1+1 }', '{ 1 + 1 }'),
    ('second-node', '// @typstyle off\n#f( 1 ,2 ) #g( 1 ,2 )\n', '#f( 1 ,2 )', 'g(1, 2)'),
]


def native_confirm(S):
    for ctxname, src, verbatim, formatted in CORPUS:
        if S.driver.call('erroneous', hexs(src))[1] == '1':
            continue
        for w in (80, 20):
            r = S.driver.call('format', hexs(src), w, 2, 0)
            if r[0] != 'ok':
                return dict(api='Typstyle::format_content', source=src, width=w, what='format fails (%s) on %s' % (r[0], show(src)))
            out = unhexs(r[1])
            if verbatim not in out:
                return dict(api='Typstyle::format_content', source=src, width=w, output=out,
                            what='the node after the directive (%s) is not reproduced verbatim: %s -> %s' % (ctxname, show(src), show(out)))
            if '@typstyle off' not in out:
                return dict(api='Typstyle::format_content', source=src, width=w, output=out, what='the directive comment is lost (%s)' % ctxname)
            if formatted and w == 80 and formatted not in out:
                return dict(api='Typstyle::format_content', source=src, width=w, output=out,
                            what='code after the protected node is not formatted as usual (%s): expected %s in %s' % (ctxname, show(formatted), show(out)))
    return None
