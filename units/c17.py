"""C17 - formatting is a function of the text and the configuration only (mechanism level).

Noninterference argument decided per path: a call whose every path reads and writes nothing but its own arguments and call-local
values cannot observe an earlier call, a concurrent call, the process it runs in or a hasher seed, whatever the schedule.  The
symbolic machine therefore treats every access to state that outlives or lies outside the call as a path end of its own kind
(`Ambient`): a reference to a static item that can change (interior mutability, lazy initialisation, `static mut`), thread-local keys,
clocks, the process environment, thread / process identity, random hasher seeds, iteration over a hash container with a random hasher
and pointer-to-integer casts.  The obligation on every path of the real code is "no such access is reached"; z3 decides the
feasibility of each path for every configuration and context.  A reported access is confirmed natively by running the real library
under schedules (fresh process / after other documents and configurations / repeated / concurrently from several threads / several
processes) and comparing bytes; without a native difference the run is inconclusive, never a violation and never a pass.
"""
import os
import subprocess
import z3

from mirsym.values import *
from mirsym.explore import Panic
from mirsym import models_typst as T
from mirsym import models_doc as D
from mirsym.models_std import STD
from mirsym.models_typst import Ast
from mirsym.session import hexs, unhexs
from . import libskel, conserve, deep, pp
from .common import *

EXPLANATION = (
    "Bounded symbolic execution (MIR->SMT, z3) of the real library code with a noninterference obligation per path: the path reaches no "
    "state outside the call (static item with interior mutability / lazy initialisation / `static mut`, thread-local key, clock, process "
    "environment, thread or process identity, random hasher seed, iteration over a randomly seeded hash container, pointer-to-integer "
    "cast).  Decided (1) for the entry points Typstyle::format_source_inspect / format_source / format_content / format_with_width with "
    "the printer opaque (and there additionally: the Ok value is exactly strip(render(convert_markup(root), cfg.max_width)) built from "
    "the call's own configuration), (2) for AttrStore::new + PrettyPrinter::convert_expr with nothing opaque on node shapes taken from real "
    "parses (per kind 12 / 300 shapes of up to 16 / 40 nodes) for every context, indent unit, width, chain width and both values of the "
    "import-reordering flag, (3) for AttrStore::new + convert_markup with nothing opaque on ~330 small whole documents (imports, tables, "
    "directives, comments, math, lists) with symbolic configuration and blanks.  A call that touches only its own arguments is "
    "deterministic under every interleaving, so no schedule needs to be enumerated for the code decided here.  Every foreign callee on "
    "those paths is a contract of the engine (listed in this evidence), each of which is a function of its arguments; a foreign callee "
    "without contract makes the run inconclusive.  A reported access is confirmed by a native schedule differential on the real library "
    "(fresh process vs. after 14 other jobs, repeated, 4 threads x 3 rounds, 6 processes).  The same native differential is run over a "
    "fixed corpus when the solver reports nothing (a difference there makes the run inconclusive).  Outside the claim: the Typst parser, "
    "the `pretty` renderer and the allocator (trusted to be pure), data races inside those, shapes and documents beyond the bounds, the CLI.")


C17_DOCS = [
    '#import "m.typ": aasb, a as b, x.y as z, x.yasz\n', '#import "a.typ": c, B, b, a, A, C\n', '#import "a.typ": x.b, x.B, X.b, a as Q, A as q, b, B, d, D, e, E, f, F\n',
    '#import "a.typ": c, b, a\n', '#import "a.typ": b as x, a as y, c\n', '#import "a.typ": (d, c,\n b, a)\n', '#import "a.typ": a, a\n',
    '#table(columns: 2, [a], [b], [c], [d])\n', '#table(columns: (1fr, 2fr), [a], [b],\n [c], [d])\n', '#grid(columns: 3, [a], [b], [c])\n',
    '// @typstyle off\n#f( 1 ,2 )\n\n#f( 1 ,2 )\n', '#f(a,\n b)\n', '#f(a, b)\n', '#f(a, g(b,\n c))\n', '#{\n  let a = f(1,\n 2)\n  a.b.c(d).e\n}\n',
    '$ f(a, b; c, d) + x_1^2 $\n', '#let f(a, b: 1, ..c) = a + b\n', '#(a: 1, b: (c, d), e: [f])\n', '#show heading: it => [#it.body]\n',
    '/* c */ #f(/* d */ a, // e\n b)\n', '#a.b(c).d(e, f)[g]\n', '#if a { b } else if c { d } else { e }\n', '= H\n- a\n  + b\n/ c: d\n',
]


def jobs_for(src, width, tab, reorder):
    """the schedule pool: the same text under other configurations, the text with line breaks and blanks swapped (same node
    numbering, other attributes), and fixed documents exercising the stores a converter might keep"""
    h = hexs(src)
    tgt = 'c:%s:%d:%d:%d' % (h, width, tab, reorder)
    swapped = src.replace('\n', '\x00').replace(' ', '\n').replace('\x00', ' ')
    joined = src.replace('\n', ' ')
    others = ['c:%s:%d:%d:%d' % (h, w, t, r) for (w, t, r) in ((0, 2, 0), (120, 2, 0), (80, 4, 0), (80, 2, 1), (40, 8, 1), (1, 1, 1))]
    others += ['w:%s:%d' % (h, w) for w in (0, 120)]
    variants = [swapped, joined, src.replace(', ', ',\n'), src.replace('(', '(\n', 1)]
    # the same shape with one identifier renamed (same node numbering, another name at one place): state keyed by position leaks through these
    import re as _re
    idents = [mm for mm in _re.finditer(r'[A-Za-z_][A-Za-z0-9_-]*', src)]
    for mm in idents[:10]:
        variants.append(src[:mm.start()] + 'q' * len(mm.group(0)) + src[mm.end():])
    for v in variants:
        if v != src:
            others.append('c:%s:%d:%d:%d' % (hexs(v), width, tab, reorder))
    fixed = ['// @typstyle off\n#f( 1 ,2 )\n', '#f(a,\n b)\n#g(/* c */ x)\n', '#import "m.typ": c, b, a\n', '#table(columns: 3, [a], [b], [c], [d])\n',
             '#' + 'f(' * 40 + 'x' + ')' * 40 + '\n', '$ mat(a, b; c, d) $\n#a.b.c(d).e(f)\n']
    others += ['c:%s:%d:%d:%d' % (hexs(f), width, tab, 1 - reorder) for f in fixed]
    return tgt, others


def run_sched(S, *parts):
    """one schedule in a fresh process of the native driver"""
    try:
        r = subprocess.run([S.driver.path], input=' '.join(str(p) for p in parts) + '\n', capture_output=True, text=True, timeout=120)
    except subprocess.TimeoutExpired:
        return None
    line = r.stdout.strip().splitlines()
    if not line or not line[0].startswith('ok'):
        return None
    return line[0].split(' ')[1:]


def schedule_differential(S, src, width=80, tab=2, reorder=0, api='c'):
    """None when every schedule gives the bytes of a fresh process, otherwise a description of the first difference"""
    tgt, others = jobs_for(src, width, tab, reorder)
    if api == 'w':
        tgt = 'w:%s:%d' % (hexs(src), width)
    base = run_sched(S, 'sched', 'seq', tgt)
    if not base or '|' in base[0]:
        return dict(what='no result from a fresh process', source=src)

    def dec(x):
        return unhexs(x.split(':', 1)[1]) if x.startswith('ok:') else x

    def diff(name, res, idx):
        if res is None:
            return dict(schedule=name, what='the schedule %s aborts or hangs' % name, source=src, width=width, tab=tab, reorder=reorder)
        vals = res[idx].split('|')
        for v in vals:
            if v != base[0]:
                return dict(schedule=name, source=src, width=width, tab=tab, reorder=reorder, fresh=dec(base[0]), observed=dec(v),
                            what='format of %s (width %d, tab %d, reorder %d) gives %s in a fresh process and %s %s' % (
                                show(src), width, tab, reorder, show(dec(base[0])), show(dec(v)), name))
        return None
    # fresh processes (hasher seeds, addresses)
    for k in range(5):
        d = diff('in another fresh process', run_sched(S, 'sched', 'seq', tgt), 0)
        if d:
            return d
    d = diff('when repeated in one process', run_sched(S, 'sched', 'seq', tgt, tgt, tgt), 2)
    if d:
        return d
    for o in others:
        d = diff('after formatting another job (%s) in the same process' % show(unhexs(o.split(':')[1]))[:60], run_sched(S, 'sched', 'seq', o, tgt), 1)
        if d:
            return d
    d = diff('after a history of %d other jobs' % (len(others) * 3), run_sched(S, 'sched', 'seq', *(others * 3 + [tgt])), len(others) * 3)
    if d:
        return d
    # history of many calls of one kind (leaking counters)
    many = [others[-6]] * 300
    d = diff('after 300 calls on a document with a directive', run_sched(S, 'sched', 'seq', *(many + [tgt])), 300)
    if d:
        return d
    d = diff('concurrently with other jobs on 4 threads', run_sched(S, 'sched', 'par', 4, 3, tgt, *others), 0)
    if d:
        return d
    return None


NATIVE_CORPUS = ['#table(columns: 2, table.header[a][b], [c], [d], [e])\n', '#grid(columns: 2, grid.cell[a], [b], f(x)[c])\n', '#import "a.typ": c, B, b, a, A, C\n', '#import "m.typ": aasb, a as b, x.y as z, x.yasz\n', '#f(a, b)\n', '#import "a.typ": c, b, a\n', '// @typstyle off\n#f( 1 ,2 )\n\n#f( 1 ,2 )\n', '#table(columns: 2, [a], [b], [c], [d])\n',
                 '#{\n  let a = f(1, 2)\n  a.b.c(d).e\n}\n', '$ f(a, b; c, d) $\n', '= H\n- a\n  + b\n']


def native_sweep(S):
    for src in NATIVE_CORPUS:
        for (w, t, r) in ((80, 2, 0), (20, 4, 1)):
            d = schedule_differential(S, src, w, t, r)
            if d:
                return d
    d = schedule_differential(S, '#f(a, b)\n', 60, api='w')
    return d


def run(S):
    T.KT = T.KindTable(S.driver, S.adts)
    kt = T.KT
    core = S.core
    found = []          # (label, info)
    # (1) entry points
    before = len(S.obls)
    libskel.run(S, collect=found)
    # (2) shapes from real parses, nothing opaque
    f_expr = S.find_fn(core, 'PrettyPrinter::convert_expr')
    f_attr = S.find_fn(core, 'AttrStore::new')
    f_markup = S.find_fn(core, 'PrettyPrinter::convert_markup')
    quick = S.tier == 'quick'
    shapes, nfiles = conserve.collect_shapes(S, 16 if quick else 40, 12 if quick else 300)
    expr_kinds = {kt.names[k] for k in kt.cast_variant['Expr']}
    tasks = []
    for kind in sorted(shapes):
        if kind not in expr_kinds:
            continue
        for tree in shapes[kind]:
            src_text = conserve.source_of(tree)

            def body(ctx, tree=tree, src_text=src_text):
                cw = z3.BitVec('chain_width', 64)
                m = S.machine(core, STD, ctx, overrides={'chain_width': (lambda mm, a, ci: cw)})
                m.max_depth = 200
                m.case = dict(kind=tree[0], source=src_text)
                cfg = Agg('Config', None, (z3.BitVec('cfg_tab', 64), z3.BitVec('cfg_width', 64), 2, z3.Bool('cfg_reorder')), pp.CFG_NAMES)
                c0 = pp.context()
                m.case_model = lambda mdl: dict(tab=model_int(mdl, cfg.fields[0]), width=model_int(mdl, cfg.fields[1]), reorder=int(model_bool(mdl, cfg.fields[3])),
                                                mode=model_int(mdl, c0.get('mode').disc))
                ctx.assume(z3.ULT(cfg.fields[0], 1 << 31))
                ctx.assume(z3.ULT(c0.get('mode').disc, 4))
                root = conserve.build(tree, kt)
                try:
                    attrs = m.call_fn(f_attr, [root])
                    pr, _ = pp.printer(m, cfg=cfg, attrs=attrs)
                    m.call_fn(f_expr, [pr, c0, T.make_cast(m, root, 'Expr')])
                except Panic:
                    pass                # C05's subject
                S.absorb(m)
                ctx.must_hold(True, 'C17:state-outside-the-call')      # this path ran to its end on the call's own data
                ctx.witness('converted')
            tasks.append(('pure.%s[%s]' % (kind, conserve.strip_layout(src_text)[:24]),
                          'AttrStore::new + convert_expr on the %s node parsed from %r reach no state outside the call, for every context / configuration' % (kind, src_text[:60]),
                          body, dict(kind=kind, nodes=conserve.size_of(tree))))
    # (3) small whole documents
    from . import reparse
    docs = C17_DOCS + reparse.TABLE_DOCS + reparse.BLOCK_DOCS + reparse.MISC_DOCS + reparse.EVAL_DOCS + deep.DOCS + deep.PROSE + deep.OFF_DOCS + deep.CODE_DOCS + deep.EMBED_DOCS + reparse.corpus_docs(S)
    ndocs = 0
    for src in docs:
        tree = deep.tree_of(S, src)
        if tree is None:
            continue
        ndocs += 1

        def body(ctx, tree=tree, src=src):
            m = S.machine(core, STD, ctx)
            m.max_depth = 200
            m.case = dict(source=src)
            cfg = Agg('Config', None, (z3.BitVec('cfg_tab', 64), z3.BitVec('cfg_width', 64), 2, z3.Bool('cfg_reorder')), pp.CFG_NAMES)
            m.case_model = lambda mdl: dict(tab=model_int(mdl, cfg.fields[0]), width=model_int(mdl, cfg.fields[1]), reorder=int(model_bool(mdl, cfg.fields[3])))
            ctx.assume(z3.ULT(cfg.fields[0], 1 << 31))
            root = deep.build(ctx, tree, kt, [0])
            try:
                attrs = m.call_fn(f_attr, [root])
                pr, _ = pp.printer(m, cfg=cfg, attrs=attrs)
                m.call_fn(f_markup, [pr, pp.context(mode=0, suppressed=False), Ast('Markup', root)])
            except Panic:
                pass
            S.absorb(m)
            ctx.must_hold(True, 'C17:state-outside-the-call')
            ctx.witness('converted')
        tasks.append(('pure.doc[%s]' % show(src)[:28], 'AttrStore::new + convert_markup on %r reach no state outside the call, for every configuration' % src[:60],
                      body, dict(document=src[:80])))
    nviol = 0
    undecided = 0
    undecided_src = []
    for (ob, viol), task in zip(S.explore_batch(tasks), tasks):
        if ob.status.startswith('inconclusive'):
            undecided += 1
            undecided_src.append(task[3].get('document') or task[1].split("parsed from ", 1)[-1][:40])
        for lab, mdl, info in viol:
            found.append((lab, info))
    S.validation['purity_coverage'] = dict(shapes=len(tasks) - ndocs, documents=ndocs, undecided=undecided, corpus_files=nfiles)
    # native confirmation
    reported = set()
    if found:
        confirmed = None
        tried = 0
        for lab, info in found:
            src = (info or {}).get('source')
            if src is None or tried >= 12:
                continue
            cands = [src, '#' + src + '\n', '$' + src + '$\n', '#{\n' + src + '\n}\n']
            for cand in cands:
                if S.driver.call('erroneous', hexs(cand))[1] != '0':
                    continue
                tried += 1
                d = schedule_differential(S, cand, min((info or {}).get('width', 80), 200), max(1, min((info or {}).get('tab', 2), 16)), (info or {}).get('reorder', 0))
                if d:
                    confirmed = (lab, info, d)
                    break
            if confirmed:
                break
        if not confirmed:
            d = native_sweep(S)
            if d:
                confirmed = (found[0][0], found[0][1], d)
        if confirmed:
            lab, info, d = confirmed
            S.violation(lab, 'the result depends on more than text and configuration: %s (the path reaches %s: %s)' % (
                d['what'], (info or {}).get('ambient'), ((info or {}).get('detail') or '')[:120]), dict(unit=info, native=d, others=len(found) - 1))
        else:
            kinds = sorted({(i or {}).get('ambient', '?') + ': ' + ((i or {}).get('detail') or '')[:100] for l, i in found})
            S.inconclusive.append('C17: %d paths reach state outside the call (%s) but no schedule of the native differential shows a different result' % (len(found), '; '.join(kinds)[:400]))
    elif undecided:
        # paths the encoder could not execute (new foreign callee): not decided.  The native differential still runs; a difference it shows is a
        # reproduced violation, its silence leaves the run inconclusive (the undecided tasks already are).
        d = native_sweep(S)
        if d:
            S.violation('C17:state-outside-the-call:undecided-path', 'the result depends on more than text and configuration: %s (found by the native schedule differential; %d tasks were not decidable by the encoder)' % (d['what'], undecided), dict(native=d))
    else:
        validate_corpus(S, 'schedule differential', found, lambda: native_sweep(S))
    S.assumptions += [
        'the contracts of std / typst-syntax / pretty used on these paths (listed below) are functions of their arguments; the Typst parser, the `pretty` renderer and the allocator are trusted to keep no observable state',
        'a path that reads and writes only its arguments and call-local values is deterministic under every interleaving of calls (no schedule is enumerated for it)',
        'iteration over a hash container built with a fixed hasher (FxBuildHasher / BuildHasherDefault) is a function of its insertion history; with a random hasher it is treated as state outside the call',
    ]
    return S.finish(level='other', explanation=EXPLANATION, trusted=['mirsym encoder', 'std / typst-syntax / pretty contracts'])
