"""Token conservation per construct (mechanism behind C01/C06): for concrete node shapes taken from real parses, each
converter is executed from its MIR with symbolic context / configuration; the non-layout character stream of the produced
document must equal that of the node's source text."""
import glob
import json
import os
import re
import z3

from mirsym.values import *
from mirsym.explore import Panic, Inconclusive
from mirsym import models_typst as T
from mirsym import models_doc as D
from mirsym.models_std import STD, Str, MapV
from mirsym.models_typst import Node, Ast
from mirsym.session import hexs, unhexs, REPO, VERIF
from . import pp
from .common import *
from .lists import atoms_modes, show_atoms

LAYOUT_CHARS = set(' \t\n\r\x0b\x0c\x85  ,;(){}')
EXTRA_CORPUS = os.path.join(VERIF, 'units', 'extra_corpus.typ')


def parse_sexp(t):
    """(Kind child ...) | Kind:hex  ->  nested tuples"""
    pos = [0]

    def rd():
        if t[pos[0]] == '(':
            pos[0] += 1
            j = pos[0]
            while t[j] not in ' )':
                j += 1
            kind = t[pos[0]:j]
            pos[0] = j
            kids = []
            while t[pos[0]] == ' ':
                pos[0] += 1
                kids.append(rd())
            assert t[pos[0]] == ')'
            pos[0] += 1
            return (kind, kids)
        j = pos[0]
        while j < len(t) and t[j] not in ' )':
            j += 1
        tok = t[pos[0]:j]
        pos[0] = j
        kind, _, hx = tok.partition(':')
        return (kind, unhexs(hx) if hx else '')
    return rd()


def shape_of(tree):
    kind, x = tree
    if isinstance(x, list):
        return '(%s %s)' % (kind, ' '.join(shape_of(c) for c in x))
    return kind


def size_of(tree):
    kind, x = tree
    return 1 + (sum(size_of(c) for c in x) if isinstance(x, list) else 0)


def source_of(tree):
    kind, x = tree
    if isinstance(x, list):
        return ''.join(source_of(c) for c in x)
    return x


def build(tree, kt):
    kind, x = tree
    k = kt.k(kind)
    if isinstance(x, list):
        return Node(k, children=[build(c, kt) for c in x])
    return Node(k, text=Str.lit(x))


def strip_layout(s):
    return ''.join(ch for ch in s if ch not in LAYOUT_CHARS)


def leaf_list(tree, out=None):
    out = [] if out is None else out
    kind, x = tree
    if isinstance(x, list):
        for c in x:
            leaf_list(c, out)
    else:
        out.append((kind, x))
    return out


def redundant_colons(tree):
    """number of dictionaries written `(: k: v ..)`: the leading colon is redundant when a named / keyed pair follows and may be dropped"""
    kind, x = tree
    if not isinstance(x, list):
        return 0
    n = sum(redundant_colons(c) for c in x)
    if kind == 'Dict' and any(c[0] in ('Named', 'Keyed') for c in x):
        sig = [c for c in x if c[0] not in ('Space', 'LineComment', 'BlockComment')]
        if len(sig) > 1 and sig[0][0] == 'LeftParen' and sig[1][0] == 'Colon':
            n += 1
    return n


def math_row_separators(tree):
    """number of semicolons that separate rows of math call arguments (children of an Args node; code arguments hold none)"""
    kind, x = tree
    if not isinstance(x, list):
        return 0
    return sum(math_row_separators(c) for c in x) + (sum(1 for c in x if c[0] == 'Semicolon') if kind == 'Args' else 0)


def code_statement_gaps(tree):
    """places where a semicolon may legitimately appear or vanish: between statements of code bodies"""
    kind, x = tree
    if not isinstance(x, list):
        return 0
    n = sum(code_statement_gaps(c) for c in x)
    if kind == 'Code':
        n += sum(1 for c in x if c[0] not in ('Space', 'Semicolon', 'LineComment', 'BlockComment'))
    return n


def expected_streams(tree):
    """(token stream without comments and layout characters, list of comment texts) of a parsed shape"""
    toks = ''
    cmts = []
    for kind, text in leaf_list(tree):
        if kind in ('LineComment', 'BlockComment'):
            cmts.append(strip_layout(text))
        else:
            toks += strip_layout(text)
    return toks, cmts


OPTIONAL_PAREN_PARENTS = ('Parenthesized', 'Params', 'ModuleImport', 'ImportItems')


def strip_layout_keep_parens(s, mask=False):
    """layout characters dropped, parentheses kept.  mask=True: the text is a token other than a parenthesis (a string, a word, a raw text ...):
    parentheses inside it are characters, not delimiters, and are replaced by placeholders so that they never pair with real ones"""
    if mask:
        s = s.replace('(', '\x01').replace(')', '\x02')
    return ''.join(ch for ch in s if ch in '()' or ch not in LAYOUT_CHARS)


def node_paren_text(nd, kt):
    """paren stream of a model node (an opaque atom stands for a whole subtree)"""
    if nd.children:
        return ''.join(node_paren_text(c, kt) for c in nd.children)
    name = kt.names[nd.kind] if not is_sym(nd.kind) else '?'
    t = nd.text.concrete() if nd.text is not None and nd.text.is_concrete() else ''
    return strip_layout_keep_parens(t, mask=name not in ('LeftParen', 'RightParen'))


def expected_paren_stream(tree, parent=None, out=None):
    """token stream without comments in which the parentheses that belong to the construct (argument lists, arrays, dictionaries,
    destructuring patterns, math delimiters) are kept; parentheses that only group (Parenthesized) or that the formatter may add or
    drop (closure parameters, import items) are left out.  None when the shape holds a comment (comments may move across delimiters)."""
    top = out is None
    out = [] if out is None else out
    kind, x = tree
    if isinstance(x, list):
        for c in x:
            if expected_paren_stream(c, kind, out) is None:
                return None
    elif kind in ('LineComment', 'BlockComment'):
        return None
    elif kind in ('LeftParen', 'RightParen') and parent in OPTIONAL_PAREN_PARENTS:
        pass
    elif x not in ('(', ')') and ('(' in x or ')' in x):
        return None         # a token that holds parentheses as characters (a string, raw text, a word): not judged
    else:
        out.append(strip_layout_keep_parens(x))
    return ''.join(out) if top else out


def derivable_by_deleting_pairs(expected, got):
    """`expected` is obtained from `got` by deleting matched pairs of parentheses (grouping parentheses the formatter kept or added)"""
    budget = [20000]
    n, m = len(got), len(expected)

    def rec(i, j, stack):
        budget[0] -= 1
        if budget[0] < 0:
            return False
        while i < n and got[i] not in '()':
            if j >= m or expected[j] != got[i]:
                return False
            i += 1
            j += 1
        if i == n:
            return j == m and 'd' not in stack
        if got[i] == '(':
            if j < m and expected[j] == '(' and rec(i + 1, j + 1, stack + 'k'):
                return True
            return rec(i + 1, j, stack + 'd')
        # ')'
        if stack and stack[-1] == 'd':
            return rec(i + 1, j, stack[:-1])
        if j < m and expected[j] == ')':
            return rec(i + 1, j + 1, stack[:-1] if stack else stack)
        return False
    return rec(0, 0, '')


def collect_shapes(S, max_nodes, per_kind):
    files = sorted(glob.glob(os.path.join(REPO, 'tests/fixtures/**/*.typ'), recursive=True))
    if os.path.exists(EXTRA_CORPUS):
        files.append(EXTRA_CORPUS)
    by_kind = {}
    extra_shapes = {}
    for f in files:
        r = S.driver.call('trees', hexs(f), max_nodes if f != EXTRA_CORPUS else 40)
        if r[0] != 'ok':
            continue
        for h in r[1:]:
            t = parse_sexp(unhexs(h))
            by_kind.setdefault(t[0], {}).setdefault(shape_of(t), t)
            if f == EXTRA_CORPUS:
                extra_shapes.setdefault(t[0], set()).add(shape_of(t))
    out = {}
    for kind, shapes in by_kind.items():
        trees = sorted(shapes.values(), key=lambda t: (size_of(t), shape_of(t)))
        # all shapes of the hand-written corpus of tricky constructs, then the smallest ones from the fixtures
        ex = [t for t in trees if shape_of(t) in extra_shapes.get(kind, ())]
        rest = [t for t in trees if shape_of(t) not in extra_shapes.get(kind, ())]
        out[kind] = ex + rest[:per_kind]
    return out, len(files)


def explore(S, want=('C06',), per_kind=10, max_nodes=14, deep=False):
    kt = T.KT
    core = S.core
    f_expr = S.find_fn(core, 'PrettyPrinter::convert_expr')
    f_attr = S.find_fn(core, 'AttrStore::new')
    shapes, nfiles = collect_shapes(S, max_nodes, per_kind)
    expr_kinds = {kt.names[k] for k in kt.cast_variant['Expr']}
    expr_kind_ids = set(kt.cast_variant['Expr']) - {kt.k('Space'), kt.k('Parbreak')}
    found = []
    coverage = {}
    tasks = []
    task_kind = []
    for kind in sorted(shapes):
        if kind not in expr_kinds:
            continue
        cov = dict(shapes=0, decided=0, gaps=[])
        for tree in shapes[kind]:
            src_text = source_of(tree)
            cov['shapes'] += 1

            def body(ctx, tree=tree, src_text=src_text):
                state = {'depth': 0}
                root_holder = [None]

                def nested(tag):
                    def f(m, a, ci):
                        state['depth'] += 1
                        nd = T._node(m, a[2])
                        if nd is root_holder[0] and tag == 'convert_expr':
                            return NotImplemented          # the construct under test itself (reached again through a wrapper)
                        return D.opaque_doc('sub', (nd.nid,))
                    return f
                cw = z3.BitVec('chain_width', 64)
                ov = {'chain_width': (lambda mm, a, ci: cw)}
                if not deep:
                    ov.update({'convert_expr': nested('convert_expr'), 'convert_pattern': nested('convert_pattern'),
                               'convert_markup_impl': nested('convert_markup_impl'), 'convert_markup': nested('convert_markup')})
                m = S.machine(core, STD, ctx, overrides=ov)
                if deep:
                    m.max_depth = 200
                root = build(tree, kt)
                root_holder[0] = root
                attrs = m.call_fn(f_attr, [root])
                cfg = Agg('Config', None, (z3.BitVec('cfg_tab', 64), z3.BitVec('cfg_width', 64), 2, False), pp.CFG_NAMES)   # import reordering is C19's subject
                ctx.assume(z3.ULT(cfg.fields[0], 1 << 31))
                pr, _ = pp.printer(m, cfg=cfg, attrs=attrs)
                c0 = pp.context()
                ctx.assume(z3.ULT(c0.get('mode').disc, 4))
                try:
                    d = m.call_fn(f_expr, [pr, c0, T.make_cast(m, root, 'Expr')])
                except Panic as p:
                    S.absorb(m)
                    ctx.must_hold(False, 'C05:converter-panic', lambda mdl: dict(kind=tree[0], source=src_text, panic=p.msg,
                                                                                mode=model_int(mdl, c0.get('mode').disc), suppressed=model_bool(mdl, c0.get('break_suppressed'))))
                    return
                S.absorb(m)
                index = {}

                def reg_nodes(n):
                    index[n.nid] = n
                    for c in n.children:
                        reg_nodes(c)
                reg_nodes(root)
                if 'C04' in want and not deep:
                    # statements of a code body stay separated: between the (opaque) documents of two consecutive statements there is a
                    # hard line break or a semicolon in every layout
                    def code_children(n):
                        if n.kind == kt.k('Code'):
                            return [c for c in n.children if T.kind_in(c.kind, expr_kind_ids) is True]
                        for c in n.children:
                            r = code_children(c)
                            if r:
                                return r
                        return []
                    stmts = [c.nid for c in code_children(root)] if tree[0] in ('CodeBlock', 'Contextual', 'Closure', 'LetBinding', 'Conditional', 'WhileLoop', 'ForLoop', 'ShowRule') else []
                    if len(stmts) >= 2:
                        for mode, at in atoms_modes(d).items():
                            pos = {}
                            for j, a in enumerate(at):
                                if a[0] == 'o' and a[2] and a[2][0] in stmts:
                                    pos.setdefault(a[2][0], j)
                            seq = [pos[n] for n in stmts if n in pos]
                            if len(seq) < 2:
                                continue
                            ok = True
                            for j1, j2 in zip(seq, seq[1:]):
                                between = at[j1 + 1:j2]
                                if not any(b == ('nl',) or (b[0] == 't' and b[1].is_concrete() and ';' in b[1].concrete()) for b in between):
                                    ok = False
                            ctx.must_hold(ok, 'C04:statements-not-separated',
                                          lambda mdl, mode=mode, at=at: dict(kind=tree[0], source=src_text, layout=mode, atoms=show_atoms(at)[:300],
                                                                              mode=model_int(mdl, c0.get('mode').disc), suppressed=model_bool(mdl, c0.get('break_suppressed'))))
                            ctx.witness('code body with several statements')
                    if want[0] == 'C04':
                        return
                if 'C12' in want:
                    # every nest() in the document is one indent unit (align / hang only come from comment.rs and carry no offset here)
                    offs = D.indent_nest_offsets(d)
                    ctx.must_hold(b_and(*[i_eq(o, cfg.fields[0], 64) for o in offs]), 'C12:nest-offset-differs-from-indent-unit',
                                  lambda mdl: dict(kind=tree[0], source=src_text, tab=model_int(mdl, cfg.fields[0]),
                                                   offsets=[(model_int(mdl, o) if is_sym(o) else o) for o in offs]))
                    if offs:
                        ctx.witness('nested')
                    if want[0] == 'C12':
                        return
                # tokens and comments are compared separately: a comment may move across a token of its own construct
                # (`not /* c */ in` -> `/* c */ not in`), which changes neither the tree nor the order of the comments
                exp_toks, exp_cmts = expected_streams(tree)
                exp_par = expected_paren_stream(tree)
                ncolon = redundant_colons(tree)
                nrows = math_row_separators(tree)
                ngaps = code_statement_gaps(tree)
                expected = (exp_toks, exp_cmts)
                for mode, at in atoms_modes(d).items():
                    full = ''
                    for a in at:
                        if a[0] == 't':
                            full += strip_layout(a[1].concrete() if a[1].is_concrete() else '�')
                        elif a[0] == 'o':
                            nd = index.get(a[2][0]) if a[2] else None
                            full += strip_layout(nd.into_text().concrete()) if nd is not None else '�'
                    got = full
                    same = bool(streams_match(full, exp_toks, exp_cmts, ncolon))
                    # row separators of math arguments are tokens, not layout (semicolons are otherwise ignored: code statements may gain / lose
                    # them).  Decided for the math mode only: the shape is taken out of its context, and in another mode it is another construct.
                    semis = sum((a[1].concrete().count(';') if a[0] == 't' and a[1].is_concrete() else 0) for a in at)
                    for a in at:
                        if a[0] == 'o':
                            nd_ = index.get(a[2][0]) if a[2] else None
                            if nd_ is not None:
                                semis += nd_.into_text().concrete().count(';')
                    semi_ok = nrows <= semis <= nrows + ngaps + src_text.count(';') - nrows
                    if nrows and not semi_ok:
                        same = b_and(same, b_not(i_eq(c0.get('mode').disc, 3, 64)))
                    if want[0] == 'C05':
                        continue            # only panic freedom is asked for
                    if exp_par is not None and not ncolon and want[0] == 'C01':
                        # parentheses that belong to the construct stay where they are relative to the tokens (grouping parentheses may come and go)
                        gp = ''
                        okp = True
                        for a in at:
                            if a[0] == 't':
                                if not a[1].is_concrete():
                                    okp = False
                                    break
                                gp += strip_layout_keep_parens(a[1].concrete())
                            elif a[0] == 'o':
                                nd = index.get(a[2][0]) if a[2] else None
                                if nd is None:
                                    okp = False
                                    break
                                gp += strip_layout_keep_parens(nd.into_text().concrete())
                        if okp:
                            # (a shape taken out of code and converted in the math mode is another construct there: not judged)
                            ctx.must_hold(b_or(derivable_by_deleting_pairs(exp_par, gp), i_eq(c0.get('mode').disc, 3, 64)), '%s:delimiters-of-a-construct-moved-across-tokens' % want[0],
                                          lambda mdl, mode=mode, gp=gp: dict(kind=tree[0], source=src_text, layout=mode, expected=exp_par, got=gp,
                                                                             mode=model_int(mdl, c0.get('mode').disc), suppressed=model_bool(mdl, c0.get('break_suppressed'))))
                    ctx.must_hold(same, '%s:tokens-added-dropped-or-reordered' % want[0],
                                  lambda mdl, mode=mode, got=got: dict(kind=tree[0], source=src_text, layout=mode, expected=expected, got=got,
                                                                       mode=model_int(mdl, c0.get('mode').disc), suppressed=model_bool(mdl, c0.get('break_suppressed')),
                                                                       chain_width=model_int(mdl, cw)))
            name = '%s.%s[%s]' % ('deep' if deep else 'conserve', kind, strip_layout(src_text)[:24])
            tasks.append((name, 'convert_expr on the %s node parsed from %r: non-layout characters conserved for every context / configuration' % (kind, src_text[:60]),
                          body, dict(kind=kind, nodes=size_of(tree))))
            task_kind.append(kind)
        coverage[kind] = cov
    for (ob, viol), kind in zip(S.explore_batch(tasks), task_kind):
        cov = coverage[kind]
        if ob.status.startswith('inconclusive'):
            # an encoder gap for this shape: not decided (recorded; the committed coverage list decides whether that is acceptable)
            S.inconclusive[:] = [x for x in S.inconclusive if not x.startswith(ob.name + ':')]
            cov['gaps'].append(ob.status[:160])
        else:
            cov['decided'] += 1
        for lab, mdl, info in viol:
            found.append((lab, info))
    S.validation['conservation_coverage' + ('_deep' if deep else '')] = {k: dict(shapes=v['shapes'], decided=v['decided'], gaps=sorted(set(v['gaps']))[:3]) for k, v in coverage.items()}
    S.validation['conservation_corpus_files'] = nfiles
    # the kinds listed in the committed coverage file must stay fully decided, otherwise the run is inconclusive
    exp_path = os.path.join(VERIF, 'units', 'conserve_expected.json')
    if os.path.exists(exp_path) and not deep:
        expected = json.load(open(exp_path))
        for kind in expected:
            c = coverage.get(kind)
            if c is None or c['decided'] < c['shapes']:
                S.inconclusive.append('conservation: construct %s is no longer fully decidable (%r)' % (kind, c))
    return found, coverage


def find_subtree(tree, root, node):
    """the parsed subtree that the abstract node `node` (somewhere below `root`) was built from"""
    if root is node:
        return tree
    kind, x = tree
    if isinstance(x, list):
        for sub, c in zip(x, root.children):
            r = find_subtree(sub, c, node)
            if r is not None:
                return r
    return None


def streams_match(full, exp_toks, exp_cmts, ncolon):
    """`full` (non-layout characters of the output, comments included) consists of the expected tokens in order with the expected
    comments, in their order, inserted somewhere; up to `ncolon` redundant dictionary colons may be missing"""
    budget = [4000]

    def rec(pos, ci, acc):
        budget[0] -= 1
        if budget[0] < 0:
            return False
        if ci == len(exp_cmts):
            rest = acc + full[pos:]
            return rest == exp_toks or (ncolon and 0 < len(exp_toks) - len(rest) <= ncolon and drop_colons(exp_toks, rest))
        c = exp_cmts[ci]
        j = full.find(c, pos)
        while j >= 0:
            if rec(j + len(c), ci + 1, acc + full[pos:j]):
                return True
            j = full.find(c, j + 1)
        return False
    return rec(0, 0, '')


def drop_colons(expected, got):
    """got equals expected with some ':' characters removed"""
    i = 0
    for ch in got:
        while i < len(expected) and expected[i] != ch:
            if expected[i] != ':':
                return False
            i += 1
        if i >= len(expected):
            return False
        i += 1
    return all(c == ':' for c in expected[i:])


def confirm(S, info):
    """wrap the construct's source into a document and compare non-layout characters natively"""
    src = info['source']
    cands = ['#{\n  ' + src + '\n}\n', '#(' + src + ')\n', '#' + src + '\n', src + '\n', '$ ' + src + ' $\n', 'text #{' + src + '}\n']
    for doc in cands:
        if S.driver.call('erroneous', hexs(doc))[1] == '1':
            continue
        for w in (80, 0, 30):
            r = S.driver.call('format', hexs(doc), w, 2, 0)
            if r[0] in ('panic', 'abort'):
                return dict(api='Typstyle::format_content', source=doc, width=w, what='format_content panics on %s' % show(doc))
            if r[0] != 'ok':
                continue
            out = unhexs(r[1])
            if strip_layout(out) != strip_layout(doc):
                return dict(api='Typstyle::format_content', source=doc, width=w, output=out,
                            what='tokens changed: %s -> %s' % (show(doc), show(out)))
            if 'delimiters-of-a-construct' in info.get('label', '') or True:
                from . import deep as _deep
                t_doc = _deep.tree_of(S, doc)
                e_par = expected_paren_stream(t_doc) if t_doc is not None else None
                t_o = _deep.tree_of(S, out)
                g_par = ''.join(strip_layout_keep_parens(t__) for k__, t__ in leaf_list(t_o) if k__ not in ('LineComment', 'BlockComment')) if t_o is not None else None
                if e_par is not None and g_par is not None and not redundant_colons(t_doc) and not derivable_by_deleting_pairs(e_par, g_par):
                    return dict(api='Typstyle::format_content', source=doc, width=w, output=out,
                                what='a parenthesis that belongs to a construct moved across tokens: %s -> %s' % (show(doc), show(out)))
            if doc.lstrip().startswith('$') and '#' not in doc and out.count(';') != doc.count(';'):
                return dict(api='Typstyle::format_content', source=doc, width=w, output=out,
                            what='row separators of math arguments changed: %s -> %s' % (show(doc), show(out)))
    return None


def report(S, prop, found):
    groups = {}
    for lab, info in found:
        if lab.startswith(prop + ':') or lab.startswith('C05:'):
            groups.setdefault((lab, info.get('kind')), []).append(info)
    for (lab, kind), infos in groups.items():
        hit = None
        for info in infos[:6]:
            w = confirm(S, info)
            if w:
                hit = (info, w)
                break
        key = '%s:%s' % (lab, kind)
        if hit:
            S.violation(key, '%s: %s' % (key, hit[1]['what']), dict(api=hit[1], model=hit[0]))
        else:
            S.inconclusive.append('%s: no solver model reproduced natively (%r)' % (key, infos[0]))
