"""Token adjacency (a mechanism behind C04 / C01): text the printer puts next to each other must not fuse into other tokens.

(1) embedded parenthesised literals: `#(1)x` - the printer may drop the parentheses of a literal; directly embedded in markup / math the
    literal is then followed by whatever came after the closing parenthesis.  Units: the real markup / math loops with the real
    nested conversion (convert_expr -> convert_parenthesized -> list stylist -> convert_pattern -> literal).
(2) the line-break backslash: `\\` is a Linebreak token only when whitespace (or the end) follows; otherwise the lexer reads an escape.
    Units: the real math / markup loops and the math-argument converter with a Linebreak as last child before a closing delimiter.
"""
import itertools
import z3

from mirsym.values import *
from mirsym.explore import Panic
from mirsym import models_typst as T
from mirsym import models_doc as D
from mirsym.models_std import STD, Str, MapV, is_ws, valid_scalar
from mirsym.models_typst import Node, Ast
from mirsym.session import hexs, unhexs
from . import pp
from .common import *
from .lists import atoms_modes, show_atoms

# representative literal tokens per kind (the printer does not look into the text; the lexer facts below do)
LITS = [('Int', '1'), ('Float', '1.5'), ('Float', '1.'), ('Numeric', '1pt'), ('None', 'none'), ('Auto', 'auto'), ('Bool', 'true'), ('Str', '"s"')]


def fuses(kind, lit, c):
    """lexer fact (typst-syntax lexer, stated assumption): the character c directly after the literal token continues / changes it.
    Under-approximation: only cases that certainly fuse are listed."""
    alnum = z3.Or(z3.And(z3.UGE(c, ord('0')), z3.ULE(c, ord('9'))), z3.And(z3.UGE(c, ord('a')), z3.ULE(c, ord('z'))),
                  z3.And(z3.UGE(c, ord('A')), z3.ULE(c, ord('Z'))))
    if kind in ('Int', 'Float', 'Numeric'):
        # the number lexer eats every following alphanumeric character as part of the number / its suffix
        return alnum
    if kind in ('None', 'Auto', 'Bool'):
        # a keyword followed by an identifier character is an identifier
        return z3.Or(alnum, c == ord('_'), c == ord('-'))
    return False


def _flat_text(at):
    """atoms -> list of ('c', concrete string) / ('s', symbolic Str) / ('nl',) / ('o', ..)"""
    out = []
    for a in at:
        if a[0] == 't':
            out.append(('c', a[1].concrete()) if a[1].is_concrete() else ('s', a[1]))
        else:
            out.append(a)
    return out


def explore_embedded(S, want=('C04',)):
    kt = T.KT
    core = S.core
    f_markup = S.find_fn(core, 'PrettyPrinter::convert_markup_impl')
    f_math = S.find_fn(core, 'PrettyPrinter::convert_math')
    found = []
    for container, (kind, lit) in itertools.product(('markup', 'math', 'attach'), LITS):
        def body(ctx, container=container, kind=kind, lit=lit):
            m = S.machine(core, STD, ctx)
            c = z3.BitVec('next_char', 32)
            ctx.assume(valid_scalar(c))
            ctx.assume(z3.Not(is_ws(c)))
            litn = Node(kt.k(kind), text=Str.lit(lit))
            par = Node(kt.k('Parenthesized'), children=[Node(kt.k('LeftParen'), text=Str.lit('(')), litn, Node(kt.k('RightParen'), text=Str.lit(')'))])
            nxt = Node(kt.k('Text' if container == 'markup' else 'MathText'), text=Str((c,)))
            kids = [Node(kt.k('Hash'), text=Str.lit('#')), par, nxt]
            if container == 'attach':
                # `x_#(lit)c`: the embedded code is the last child of the attachment, the glued content lies outside it
                att = Node(kt.k('MathAttach'), children=[Node(kt.k('MathText'), text=Str.lit('x')), Node(kt.k('Underscore'), text=Str.lit('_')),
                                                          Node(kt.k('Hash'), text=Str.lit('#')), par])
                kids = [att, nxt]
            pr, cfg = pp.printer(m)
            c0 = pp.context()
            ctx.assume(z3.ULT(c0.get('mode').disc, 4))

            def describe(mdl):
                return dict(container=container, kind=kind, literal=lit, next_char=chr(model_int(mdl, c)), suppressed=model_bool(mdl, c0.get('break_suppressed')))
            try:
                if container == 'markup':
                    scope = z3.BitVec('scope', 64)
                    ctx.assume(z3.ULT(scope, 4))
                    d = m.call_fn(f_markup, [pr, c0, Ast('Markup', Node(kt.k('Markup'), children=kids)), CEnum('MarkupScope', scope, 64)])
                else:
                    d = m.call_fn(f_math, [pr, c0, Ast('Math', Node(kt.k('Math'), children=kids))])
            except Panic as p:
                S.absorb(m)
                ctx.must_hold(False, 'C05:embedded-literal-panic', lambda mdl: dict(describe(mdl), panic=p.msg))
                return
            S.absorb(m)
            if want[0] == 'C05':
                return              # only panic freedom is asked for
            for mode, at in atoms_modes(d).items():
                ft = _flat_text(at)
                # the literal's atom and what directly follows it
                idx = [i for i, a in enumerate(ft) if a == ('c', lit)]
                ctx.must_hold(len(idx) == 1, '%s:embedded-literal-lost' % want[0], lambda mdl, at=at, mode=mode: dict(describe(mdl), layout=mode, atoms=show_atoms(at)))
                if len(idx) != 1:
                    continue
                after = ft[idx[0] + 1] if idx[0] + 1 < len(ft) else None
                kept = after == ('c', ')')
                if kept:
                    ctx.witness('parentheses kept')
                    continue
                ctx.witness('parentheses omitted')
                # omitted: the next character now touches the literal
                touching = after is not None and after[0] == 's'
                ctx.must_hold(b_not(b_and(touching, fuses(kind, lit, c))), '%s:embedded-literal-loses-parentheses-and-fuses' % want[0],
                              lambda mdl, at=at, mode=mode: dict(describe(mdl), layout=mode, atoms=show_atoms(at)))
        ob, ex = S.explore('embedded[%s,%s %s]' % (container, kind, lit), 'a parenthesised %s literal `#(%s)` directly embedded in %s and followed by any non-blank character: '
                           'the parentheses are only dropped when the character cannot fuse with the literal' % (kind, lit, container), body)
        for lab, mdl, info in ex.violations:
            found.append((lab, info))
    return found


def explore_field_target(S, want=('C04',)):
    """`(lit).name`: a parenthesised literal as target of a field access; without the parentheses a literal that ends in a dot
    (`1.`) runs into the dot of the access (`1..name`: the lexer reads `1` `..`)"""
    kt = T.KT
    core = S.core
    f_expr = S.find_fn(core, 'PrettyPrinter::convert_expr')
    found = []
    for kind, lit in LITS:
        def body(ctx, kind=kind, lit=lit):
            m = S.machine(core, STD, ctx)
            litn = Node(kt.k(kind), text=Str.lit(lit))
            par = Node(kt.k('Parenthesized'), children=[Node(kt.k('LeftParen'), text=Str.lit('(')), litn, Node(kt.k('RightParen'), text=Str.lit(')'))])
            fa = Node(kt.k('FieldAccess'), children=[par, Node(kt.k('Dot'), text=Str.lit('.')), Node(kt.k('Ident'), text=Str.lit('name'))])
            pr, cfg = pp.printer(m)
            c0 = pp.context()
            ctx.assume(z3.ULT(c0.get('mode').disc, 4))
            describe = lambda mdl: dict(container='field-access', kind=kind, literal=lit, next_char='.', suppressed=model_bool(mdl, c0.get('break_suppressed')),
                                        mode=model_int(mdl, c0.get('mode').disc))
            try:
                d = m.call_fn(f_expr, [pr, c0, T.make_cast(m, fa, 'Expr')])
            except Panic as p:
                S.absorb(m)
                ctx.must_hold(False, 'C05:embedded-literal-panic', lambda mdl: dict(describe(mdl), panic=p.msg))
                return
            S.absorb(m)
            if want[0] == 'C05':
                return
            for mode, at in atoms_modes(d).items():
                ft = [a for a in _flat_text(at) if a != ('c', '')]
                idx = [i for i, a in enumerate(ft) if a == ('c', lit)]
                if len(idx) != 1:
                    ctx.must_hold(False, '%s:embedded-literal-lost' % want[0], lambda mdl, at=at, mode=mode: dict(describe(mdl), layout=mode, atoms=show_atoms(at)))
                    continue
                after = ft[idx[0] + 1] if idx[0] + 1 < len(ft) else None
                if after == ('c', ')'):
                    ctx.witness('parentheses kept')
                    continue
                ctx.witness('parentheses omitted')
                touching = after is not None and after[0] == 'c' and after[1].startswith('.')
                ctx.must_hold(not (touching and lit.endswith('.')), '%s:embedded-literal-loses-parentheses-and-fuses' % want[0],
                              lambda mdl, at=at, mode=mode: dict(describe(mdl), layout=mode, atoms=show_atoms(at)))
        ob, ex = S.explore('embedded[field-access,%s %s]' % (kind, lit), 'a parenthesised %s literal `(%s).name` as target of a field access: the parentheses are only dropped '
                           'when the literal does not end in a dot' % (kind, lit), body)
        for lab, mdl, info in ex.violations:
            found.append((lab, info))
    # the literal itself as target, separated from the dot by whitespace (`1. .abs()`): the blank (or parentheses) must stay when the
    # literal ends in a dot
    for kind, lit in LITS:
        for shape in ('access', 'call'):
            def body2(ctx, kind=kind, lit=lit, shape=shape):
                m = S.machine(core, STD, ctx)
                litn = Node(kt.k(kind), text=Str.lit(lit))
                fa = Node(kt.k('FieldAccess'), children=[litn, Node(kt.k('Space'), text=Str.lit(' ')), Node(kt.k('Dot'), text=Str.lit('.')), Node(kt.k('Ident'), text=Str.lit('name'))])
                root = fa if shape == 'access' else Node(kt.k('FuncCall'), children=[fa, Node(kt.k('Args'), children=[Node(kt.k('LeftParen'), text=Str.lit('(')), Node(kt.k('RightParen'), text=Str.lit(')'))])])
                pr, cfg = pp.printer(m)
                c0 = pp.context()
                ctx.assume(z3.ULT(c0.get('mode').disc, 3))
                ctx.assume(z3.UGT(c0.get('mode').disc, 0))          # code: in markup / math the blank ends the embedded expression
                describe = lambda mdl: dict(container='field-access-bare', shape=shape, kind=kind, literal=lit, next_char='.', suppressed=model_bool(mdl, c0.get('break_suppressed')),
                                            mode=model_int(mdl, c0.get('mode').disc))
                try:
                    d = m.call_fn(f_expr, [pr, c0, T.make_cast(m, root, 'Expr')])
                except Panic as p:
                    S.absorb(m)
                    ctx.must_hold(False, 'C05:embedded-literal-panic', lambda mdl: dict(describe(mdl), panic=p.msg))
                    return
                S.absorb(m)
                if want[0] == 'C05':
                    return
                for mode, at in atoms_modes(d).items():
                    ft = [a for a in _flat_text(at) if a != ('c', '')]
                    idx = [i for i, a in enumerate(ft) if a == ('c', lit)]
                    if len(idx) != 1:
                        ctx.must_hold(False, '%s:embedded-literal-lost' % want[0], lambda mdl, at=at, mode=mode: dict(describe(mdl), layout=mode, atoms=show_atoms(at)))
                        continue
                    after = ft[idx[0] + 1] if idx[0] + 1 < len(ft) else None
                    touching = after is not None and after[0] == 'c' and after[1].startswith('.')
                    ctx.must_hold(not (touching and lit.endswith('.')), '%s:literal-that-ends-in-a-dot-fuses-with-the-dot-of-the-access' % want[0],
                                  lambda mdl, at=at, mode=mode: dict(describe(mdl), layout=mode, atoms=show_atoms(at)))
                    ctx.witness('literal target')
            ob, ex = S.explore('embedded[field-access-bare,%s,%s %s]' % (shape, kind, lit), 'a %s literal `%s .name%s` as target of a field access: a literal that ends in a dot does not '
                               'touch the dot of the access' % (kind, lit, '()' if shape == 'call' else ''), body2)
            for lab, mdl, info in ex.violations:
                found.append((lab, info))
    return found


def leaves(S, text):
    r = S.driver.call('leaves', hexs(text))
    if r[0] != 'ok':
        return None, None
    toks = []
    for t in r[2:]:
        k, _, hx = t.partition(':')
        toks.append((k, unhexs(hx) if hx else ''))
    return r[1] == '1', toks


def significant(toks):
    return [(k, t) for k, t in toks if k not in ('Space', 'LeftParen', 'RightParen', 'Parbreak')]


def confirm_embedded(S, info):
    lit, ch = info['literal'], info['next_char']
    if info['container'] == 'field-access-bare':
        src = '#{\n  %s .name%s\n}\n' % (lit, '()' if info.get('shape') == 'call' else '')
    elif info['container'] == 'field-access':
        src = '#(%s).name\n' % lit
    elif info['container'] == 'attach':
        src = '$x_#(%s)%s$\n' % (lit, ch)
    else:
        src = ('#(%s)%s\n' if info['container'] == 'markup' else '$#(%s)%s$\n') % (lit, ch)
    err, toks = leaves(S, src)
    if err or toks is None:
        return None
    for w in (80, 0):
        r = S.driver.call('format', hexs(src), w, 2, 0)
        if r[0] != 'ok':
            continue
        out = unhexs(r[1])
        err2, toks2 = leaves(S, out)
        if err2 or significant(toks2) != significant(toks):
            return dict(api='Typstyle::format_content', source=src, width=w, output=out,
                        what='%s is formatted to %s: the literal lost its parentheses and fuses with what follows (tokens %r -> %r)' % (
                            show(src), show(out), ['%s:%s' % x for x in significant(toks)], ['%s:%s' % x for x in significant(toks2)]))
    return None


def role_of(info):
    k = info.get('kind')
    return '%s:%s' % (info.get('container'), 'number' if k in ('Int', 'Float', 'Numeric') else 'keyword')


def report(S, prop, found):
    groups = {}
    for lab, info in found:
        if lab.startswith(prop + ':') or lab.startswith('C05:'):
            groups.setdefault((lab, role_of(info)), []).append(info)
    for (lab, role), infos in sorted(groups.items()):
        hit = None
        for info in infos[:8]:
            w = confirm_embedded(S, info)
            if w:
                hit = (info, w)
                break
        key = '%s:%s' % (lab, role)
        if hit:
            S.violation(key, '%s: %s' % (key, hit[1]['what']), dict(api=hit[1], model=hit[0]))
        else:
            S.inconclusive.append('%s: no solver model reproduced natively (%r)' % (key, infos[0]))
