"""C06 — comments preserved: text of every comment survives (kernel level)."""
from mirsym import models_typst as T
from . import comments, lists, flows, chains, mathargs, imports, conserve, deep
from .common import validate_corpus

EXPLANATION = (
    "Bounded symbolic execution (MIR->SMT, z3) of pretty/comment.rs: for every block comment '/*' + up to M code points + '*/' the "
    "document produced by block_comment has as many lines as the token and each line equals the token's line up to leading blanks of "
    "continuation lines and trailing blanks; every line comment '//' + up to M code points is emitted byte-identically by comment(). "
    "Conservation in the layout helpers: ListStylist (every ListStyle the crate builds, every fold style/option) and "
    "convert_flow_like_iter + FlowStylist over every child sequence of up to K nodes (items, comments, commas, whitespace, hash, "
    "keywords): in both observed layouts the comment and item atoms appear exactly once each, in source order. Dot chains: "
    "convert_field_access (try_convert_dot_chain, the plain forms, ChainStylist::process/print_doc) on a.f0.f1 with up to two comments "
    "(block, or line comment + newline) at any of the four gaps around the dots, every mode / suppression flag / chain width: all "
    "comments and links are re-emitted once, in order. The binary chain and plain stylists, markup- and math-level placement and 'between the same neighbouring words' across constructs are outside the claim. Session 3: whole documents (comments at ~60 positions in text / list / block / math contexts, list corpus, generated families) through the real printer, the interpreted renderer and the REAL parser: the comments of the output are those of the source, in order, each with its text.")


def run(S):
    T.KT = T.KindTable(S.driver, S.adts)
    M = 5 if S.tier == 'quick' else 7
    found = comments.explore_block(S, M, (0,), want=('C06',))
    found += comments.explore_line(S, M)
    comments.report(S, 'C06', found)
    KL = 3 if S.tier == 'quick' else 4
    KF = 3 if S.tier == 'quick' else 5
    f2 = flows.explore_flow(S, KF, want=('C06',))
    f2 += lists.explore(S, KL, want=('C06',), focus_last=S.tier == 'quick')
    lists.report(S, 'C06', f2)
    f4 = mathargs.explore(S, 3 if S.tier == 'quick' else 5, want=('C06',))
    mathargs.report(S, 'C06', f4)
    f5 = imports.explore(S, want=('C06',))
    imports.report(S, 'C06', f5)
    f3 = chains.explore(S, want=('C06',))
    chains.report(S, 'C06', f3)
    # the real printer, nothing opaque, on shapes from real parses and small documents: the sequence of comments is conserved
    f6, cov6 = conserve.explore(S, want=('C06',), per_kind=40 if S.tier == 'quick' else 1000, max_nodes=18 if S.tier == 'quick' else 50, deep=True)
    conserve.report(S, 'C06', f6)
    validate_corpus(S, 'lists', [l for l, _ in f2 if l.startswith('C06:')], lambda: lists.native_sweep(S, 'C06', all_hits=True))
    validate_corpus(S, 'mathargs', [l for l, _ in f4 if l.startswith('C06:')], lambda: mathargs.native_sweep(S, 'C06'))
    validate_corpus(S, 'imports', [l for l, _ in f5 if l.startswith('C06:')], lambda: imports.native_sweep(S, 'C06'))
    validate_corpus(S, 'chains', [l for l, _ in f3 if l.startswith('C06:')], lambda: chains.native_sweep(S, 'C06'))
    S.assumptions += lists.ASSUMPTIONS
    S.assumptions.append('comments inside field accesses only occur in code mode (in markup/math the lexer ends the embedded expression at the comment)')
    S.assumptions += comments.ASSUMPTIONS
    # whole documents through the real printer, the interpreted renderer and the real parser: the comments of the output are those of the source, in order,
    # each with its text (line comments verbatim, block comments line by line up to indentation and trailing blanks)
    from . import reparse as _rp, deep as _dp
    _docs = _rp.in_contexts(_rp.COMMENT_DOCS) + [src_ for _c, src_ in lists.corpus()] + [d_ for d_ in _rp.BLOCK_DOCS + _rp.MISC_DOCS + _rp.EVAL_DOCS + _dp.DOCS + _dp.OFF_DOCS + _rp.corpus_docs(S) if '//' in d_ or '/*' in d_]
    _fr, _covr = _rp.explore(S, _docs, tabs=(2,) if S.tier == 'quick' else (2, 4), widths=(0, 1 << 30) if S.tier == 'quick' else (0, 20, 40, 80, 120, 1 << 30), prop='C06')
    _rp.report(S, 'C06', _fr)
    # generated families (construct x spelling x context x comment position, ~4000 well-formed documents): a sample that depends on VERIF_SEED in the
    # quick tier, all of them in the thorough tier
    from . import reparse as _rpf
    _fam = _rpf.families(S, seed=S.seed, limit=600 if S.tier == 'quick' else None)
    if 'C06' == 'C09':
        _fam = [d_ for d_ in _fam if '$' in d_]
    _ff, _covf = _rpf.explore(S, _fam, tabs=(2,), widths=(0, 1 << 30) if S.tier == 'quick' else (0, 20, 40, 80, 1 << 30), prop='C06')
    _rpf.report(S, 'C06', _ff)
    return S.finish(level='other', explanation=EXPLANATION, trusted=['mirsym encoder', 'std string contracts', 'Doc algebra contracts'])
