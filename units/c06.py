"""C06 — comments preserved: text of every comment survives (kernel level)."""
from mirsym import models_typst as T
from . import comments

EXPLANATION = (
    "Bounded symbolic execution (MIR->SMT, z3) of pretty/comment.rs: for every block comment '/*' + up to M code points + '*/' the "
    "document produced by block_comment has as many lines as the token and each line equals the token's line up to leading blanks of "
    "continuation lines and trailing blanks; every line comment '//' + up to M code points is emitted byte-identically by comment(). "
    "Placement of comments by the layout helpers (order, no loss/duplication, line break after a line comment) is decided for the "
    "flow and list helpers in C04's obligations; markup- and math-level placement and 'between the same neighbouring words' across "
    "constructs need the parser as oracle and are outside the claim.")


def run(S):
    T.KT = T.KindTable(S.driver, S.adts)
    M = 5 if S.tier == 'quick' else 7
    found = comments.explore_block(S, M, (0,), want=('C06',))
    found += comments.explore_line(S, M)
    comments.report(S, 'C06', found)
    S.assumptions += comments.ASSUMPTIONS
    return S.finish(level='other', explanation=EXPLANATION, trusted=['mirsym encoder', 'std string contracts', 'Doc algebra contracts'])
