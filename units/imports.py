"""convert_import (import.rs): comments between the source and the import items are kept and a line comment keeps its line break."""
import itertools
import z3

from mirsym.values import *
from mirsym.explore import Panic
from mirsym import models_typst as T
from mirsym import models_doc as D
from mirsym.models_std import STD, Str
from mirsym.models_typst import Node, Ast
from mirsym.session import hexs, unhexs
from . import pp
from .common import *
from .lists import show_atoms, atoms_modes

GAPS = ['none', 'space', 'block', 'line']
ITEMS = ['none', 'bare', 'paren', 'star', 'paren-empty', 'paren-only-block', 'paren-only-line', 'paren-trailing-line']


def explore(S, want=('C04', 'C06', 'C05')):
    kt = T.KT
    core = S.core
    fn = S.find_fn(core, 'PrettyPrinter::convert_import')
    found = []
    for g1, g2, items in itertools.product(GAPS, GAPS, ITEMS):
        if items == 'none' and g2 != 'none':
            continue

        def body(ctx, g1=g1, g2=g2, items=items):
            passed = []

            def conv_items(m, a, ci):
                # opaque (decided in the list / C19 harnesses); the nodes handed over are recorded: comments among them count as kept there
                v = m.load(a[2]) if isinstance(a[2], Ref) else a[2]
                for x in getattr(v, 'items', ()):
                    passed.append(m.load(x) if isinstance(x, Ref) else x)
                return D.opaque_doc('items')

            def conv_expr(m, a, ci):
                return D.opaque_doc('source')
            m = S.machine(core, STD, ctx, overrides={'convert_import_items': conv_items, 'convert_expr': conv_expr})
            cmts = []

            def gap(kind, idx):
                if kind == 'none':
                    return []
                if kind == 'space':
                    return [Node(kt.k('Space'), text=Str.lit(' '))]
                if kind == 'block':
                    n = Node(kt.k('BlockComment'), text=Str.lit('/*c%d*/' % idx))
                    cmts.append(n)
                    return [Node(kt.k('Space'), text=Str.lit(' ')), n, Node(kt.k('Space'), text=Str.lit(' '))]
                n = Node(kt.k('LineComment'), text=Str.lit('//c%d' % idx))
                cmts.append(n)
                return [Node(kt.k('Space'), text=Str.lit(' ')), n, Node(kt.k('Space'), text=Str.lit('\n'))]
            kids = [Node(kt.k('Import'), text=Str.lit('import')), Node(kt.k('Space'), text=Str.lit(' ')), Node(kt.k('Str'), text=Str.lit('"m"'))]
            if items != 'none':
                kids += gap(g1, 1) + [Node(kt.k('Colon'), text=Str.lit(':'))] + gap(g2, 2)
                it = Node(kt.k('ImportItems'), children=[Node(kt.k('ImportItemPath'), children=[Node(kt.k('Ident'), text=Str.lit('a'))])])
                if items == 'bare':
                    kids.append(it)
                elif items == 'paren':
                    kids += [Node(kt.k('LeftParen'), text=Str.lit('(')), it, Node(kt.k('RightParen'), text=Str.lit(')'))]
                elif items.startswith('paren-'):
                    # shapes taken from real parses: an empty ImportItems leaf; comments between the parentheses are children of the import itself
                    empty = Node(kt.k('ImportItems'), text=Str.lit(''))
                    inner = []
                    if items == 'paren-only-block':
                        c = Node(kt.k('BlockComment'), text=Str.lit('/*c3*/'))
                        cmts.append(c)
                        inner = [empty, c]
                    elif items == 'paren-only-line':
                        c = Node(kt.k('LineComment'), text=Str.lit('//c3'))
                        cmts.append(c)
                        inner = [empty, Node(kt.k('Space'), text=Str.lit('\n')), c, Node(kt.k('Space'), text=Str.lit('\n'))]
                    elif items == 'paren-trailing-line':
                        c = Node(kt.k('LineComment'), text=Str.lit('//c3'))
                        cmts.append(c)
                        inner = [it, Node(kt.k('Space'), text=Str.lit(' ')), c, Node(kt.k('Space'), text=Str.lit('\n'))]
                    else:
                        inner = [empty]
                    kids += [Node(kt.k('LeftParen'), text=Str.lit('('))] + inner + [Node(kt.k('RightParen'), text=Str.lit(')'))]
                else:
                    kids.append(Node(kt.k('Star'), text=Str.lit('*')))
            node = Node(kt.k('ModuleImport'), children=kids)
            pr, cfg = pp.printer(m)

            def describe(mdl):
                return dict(before_colon=g1, after_colon=g2, items=items)
            try:
                d = m.call_fn(fn, [pr, pp.context(), Ast('ModuleImport', node)])
            except Panic as p:
                S.absorb(m)
                if 'C05' in want:
                    ctx.must_hold(False, 'C05:import-panic', lambda mdl: dict(describe(mdl), panic=p.msg))
                return
            S.absorb(m)
            for mode, at in atoms_modes(d).items():
                got = []
                sw = False
                for j, a in enumerate(at):
                    if a[0] == 'o' and a[1] == 'items':
                        got += [x.text.concrete() for x in passed if isinstance(x, Node) and x.kind in (kt.k('LineComment'), kt.k('BlockComment'))]
                    if a[0] == 't' and a[1].is_concrete():
                        s = a[1].concrete()
                        if s.startswith('/'):
                            got.append(s)
                        if s.startswith('//') and j + 1 < len(at) and at[j + 1] != ('nl',):
                            sw = True
                if 'C04' in want:
                    ctx.must_hold(not sw, 'C04:import-line-comment-not-followed-by-line-break', lambda mdl, mode=mode, at=at: dict(describe(mdl), layout=mode, atoms=show_atoms(at)))
                if 'C06' in want:
                    ctx.must_hold(got == [c.text.concrete() for c in cmts], 'C06:import-comments-not-conserved', lambda mdl, mode=mode, at=at: dict(describe(mdl), layout=mode, atoms=show_atoms(at)))
                    has_items = any(a[0] == 'o' and a[1] == 'items' for a in at) or any(a[0] == 't' and a[1].is_concrete() and a[1].concrete() == '*' for a in at)
                    ctx.must_hold(has_items or items in ('none', 'paren-empty', 'paren-only-block', 'paren-only-line'), 'C06:import-items-lost', lambda mdl, mode=mode, at=at: dict(describe(mdl), layout=mode, atoms=show_atoms(at)))
            if cmts:
                ctx.witness('import with comment')
        ob, ex = S.explore('import[%s,%s,%s]' % (g1, g2, items), 'convert_import with %s before and %s after the colon, items: %s' % (g1, g2, items), body)
        for lab, mdl, info in ex.violations:
            found.append((lab, info))
        if ob.status.startswith('inconclusive'):
            return found
    return found


def corpus():
    gaps = {'none': '', 'space': ' ', 'block': ' /* c */ ', 'line': ' // c\n  '}
    for g1, g2 in itertools.product(gaps, gaps):
        for tpl in ('#import "m.typ"%s:%s(\n  // foo, bar,\n)\n', '#import "m.typ"%s:%s(/* d */)\n', '#import "m.typ"%s:%s(a, b // d\n)\n', '#import "m.typ"%s:%s()\n', '#import "m.typ"%s:%s(a, b)\n', '#import "m.typ"%s:%sa, b\n', '#import "m.typ"%s:%s*\n', '#(import "m.typ"%s:%s(a, b))\n', '#{\n  import "m.typ"%s:%s(a, b)\n}\n'):
            yield tpl % (gaps[g1], gaps[g2])


def native_sweep(S, prop):
    for src in corpus():
        if S.driver.call('erroneous', hexs(src))[1] == '1':
            continue
        for w in (80, 0):
            r = S.driver.call('format', hexs(src), w, 2, 0)
            if r[0] in ('panic', 'abort'):
                return dict(api='Typstyle::format_content', source=src, width=w, what='format_content panics on %s' % show(src))
            if r[0] != 'ok':
                continue
            out = unhexs(r[1])
            if prop == 'C04' and S.driver.call('erroneous', r[1])[1] == '1':
                return dict(api='Typstyle::format_content', source=src, width=w, output=out, what='well-formed %s is formatted to text with syntax errors: %s' % (show(src), show(out)))
            if prop == 'C06':
                a = S.driver.call('comments', hexs(src))
                b = S.driver.call('comments', r[1])
                if a[0] == 'ok' and b[0] == 'ok' and a[1:] != b[1:]:
                    return dict(api='Typstyle::format_content', source=src, width=w, output=out,
                                what='comments of %s changed: %r -> %r in %s' % (show(src), [unhexs(x) for x in a[1:]], [unhexs(x) for x in b[1:]], show(out)))
    return None


def report(S, prop, found):
    labs = sorted({lab for lab, info in found if lab.startswith(prop + ':')})
    if not labs:
        return
    w = native_sweep(S, prop)
    for lab in labs:
        info = [i for l, i in found if l == lab][0]
        if w:
            S.violation(lab, '%s: %s' % (lab, w['what']), dict(api=w, model=info))
        else:
            S.inconclusive.append('%s: the solver model (%r) has no reproduction in the native corpus' % (lab, info))
