"""C13 — range formatting: no panic for any boundary range (end may lie beyond the text), the returned
range is a node range covering the trimmed request, erroneous covers are refused, mode follows ancestors.

Units (real MIR): Typstyle::format_source_range (+closure), get_node_cover_range (+closures),
get_node_cover_range_impl (+closure), utils::trim_range, utils::count_spaces_after_last_newline,
Context::{default,with_mode}, PrettyPrinter::new.   Opaque: AttrStore::new, convert_markup / convert_expr /
convert_pattern, the renderer.  The parser is replaced by an abstract tree over the symbolic text.
"""
import itertools
import z3

from mirsym.values import *
from mirsym.explore import Panic
from mirsym import models_typst as T
from mirsym import models_doc as D
from mirsym.models_std import STD, OStr, Str, sym_str, is_ws, c_eq
from mirsym.models_typst import Node, Source, Linked
from mirsym.session import hexs, unhexs
from . import kern
from .common import *

EXPLANATION = (
    "Bounded symbolic execution (MIR->SMT, z3) of Typstyle::format_source_range with its real callees trim_range, "
    "count_spaces_after_last_newline, get_node_cover_range(_impl): the source text is every UTF-8 string of up to N code points, "
    "the requested range every (start,end) with start on a char boundary and end on a boundary or anywhere beyond the text, and the "
    "syntax tree every abstract tree of the enumerated shapes (root Markup, up to K leaves, one optional inner node) with symbolic "
    "node kinds and error flags.  z3 shows: no panic (slice bounds, char boundaries, overflow), an Ok result names a non-erroneous "
    "Markup/Expr/Pattern node whose range contains every non-blank character of the request, the conversion mode is the one "
    "determined by the nearest Markup/CodeBlock/Equation ancestor and the indent passed to nest() is the number of spaces after the "
    "last LF before the trimmed start.  Whether splicing the returned text re-parses to an equivalent tree needs the Typst parser "
    "as oracle and is outside the claim. Session 3: the whitespace-token converters with the whole configuration symbolic (replayed through format_source_range with the model's blank_lines_upper_bound); and the property as stated on whole documents: format_source_range from its MIR with every converter real for the span of every node and ranges inside, the text laid out by the interpreted renderer, spliced into the source and parsed by the REAL parser (parses, same tree modulo layout, returned range covers the trimmed request).")


def compositions(n, k):
    """compositions of n into exactly k positive parts"""
    if k == 1:
        if n >= 1:
            yield (n,)
        return
    for first in range(1, n - k + 2):
        for rest in compositions(n - first, k - 1):
            yield (first,) + rest


def shapes(n, K):
    """tree shapes over n characters: list of top-level segments ('leaf', len) | ('inner', (lens...))"""
    if n == 0:
        yield ()
        yield (('inner', ()),)
        return
    for k in range(1, min(K, n) + 1):
        for comp in compositions(n, k):
            yield tuple(('leaf', l) for l in comp)
            for pos in range(k):
                l = comp[pos]
                for kk in (1, 2):
                    for sub in compositions(l, kk):
                        yield tuple(('inner', sub) if i == pos else ('leaf', x) for i, x in enumerate(comp))
            # an empty inner node (e.g. empty markup of `[]`) between two segments
            if k < K:
                for pos in range(k + 1):
                    segs = [('leaf', x) for x in comp]
                    segs.insert(pos, ('inner', ()))
                    yield tuple(segs)


def build_tree(ctx, s, shape, kt):
    cnt = [0]
    nodes = []

    def fresh_kind():
        k = z3.BitVec('kind%d' % cnt[0], 8)
        ctx.assume(z3.ULT(k, kt.n))
        return k

    def leaf(lo, hi):
        cnt[0] += 1
        nd = Node(fresh_kind(), text=s.sub(lo, hi), err=z3.Bool('err%d' % cnt[0]), nid=100 + cnt[0])
        nodes.append(nd)
        return nd
    pos = 0
    kids = []
    for kind, spec in shape:
        if kind == 'leaf':
            kids.append(leaf(pos, pos + spec))
            pos += spec
        else:
            sub = []
            for l in spec:
                sub.append(leaf(pos, pos + l))
                pos += l
            cnt[0] += 1
            nd = Node(fresh_kind(), children=sub, err=False, nid=100 + cnt[0])
            nodes.append(nd)
            kids.append(nd)
    root = Node(kt.k('Markup'), children=kids, err=False, nid=100)
    nodes.append(root)
    return root, nodes


def find_linked(root, nid):
    def walk(l, anc):
        if l.node.nid == nid:
            return l, anc
        for c in l.kids():
            r = walk(c, anc + [l])
            if r:
                return r
        return None
    return walk(Linked(root, 0), [])


def tree_shapes(K):
    """tree shapes for the cover search: top-level segments 'L' (leaf) | ('I', k) inner node with k leaves"""
    out = []
    for k in range(0, K + 1):
        for combo in itertools.product(['L', ('I', 0), ('I', 1), ('I', 2)], repeat=k):
            if sum(1 for c in combo if c != 'L') > 1:
                continue
            out.append(combo)
    return out


def build_len_tree(ctx, shape, kt, maxlen):
    """abstract tree whose leaves have symbolic byte lengths (content not modelled)"""
    cnt = [0]
    nodes = []

    def fresh_kind():
        k = z3.BitVec('kind%d' % cnt[0], 8)
        ctx.assume(z3.ULT(k, kt.n))
        return k

    def leaf():
        cnt[0] += 1
        ln = z3.BitVec('len%d' % cnt[0], 64)
        ctx.assume(z3.ULE(ln, maxlen))
        nd = Node(fresh_kind(), err=z3.Bool('err%d' % cnt[0]), nid=100 + cnt[0], blen=ln)
        nodes.append(nd)
        return nd
    kids = []
    for seg in shape:
        if seg == 'L':
            kids.append(leaf())
        else:
            sub = [leaf() for _ in range(seg[1])]
            cnt[0] += 1
            nd = Node(fresh_kind(), children=sub, err=False, nid=100 + cnt[0])
            nodes.append(nd)
            kids.append(nd)
    root = Node(kt.k('Markup'), children=kids, err=False, nid=100)
    nodes.append(root)
    return root, nodes


def run(S):
    kt = T.KT = T.KindTable(S.driver, S.adts)
    core = S.core
    N = 4 if S.tier == 'quick' else 6
    K = 2 if S.tier == 'quick' else 3
    max_nodes = 4 if S.tier == 'quick' else 6
    kern.trim_range_validate(S)
    fn = S.find_fn(core, 'Typstyle::format_source_range')
    f_cover = S.find_fn(core, 'get_node_cover_range')
    K_MARKUP, K_CODE, K_EQ = kt.k('Markup'), kt.k('CodeBlock'), kt.k('Equation')
    castable = kt.cast_set('Markup') | kt.cast_set('Expr') | kt.cast_set('Pattern')
    found = []

    def sym_typstyle():
        cfg = Agg('Config', None, (z3.BitVec('cfg_tab', 64), z3.BitVec('cfg_width', 64), 2, False),
                  ('tab_spaces', 'max_width', 'blank_lines_upper_bound', 'reorder_import_items'))
        return cfg, Agg('Typstyle', None, (cfg,), ('config',))

    def overrides(rec, extra=None):
        def attr_new(m, a, ci):
            rec['attr_root'] = a[0]
            return Opaque('attrs', (a[0].nid,))

        def conv(which):
            def f(m, a, ci):
                rec['conv'] = which
                rec['ctx'] = a[1]
                rec['node'] = T._node(m, a[2])
                return D.opaque_doc('doc', (rec['node'].nid,))
            return f
        ov = {'AttrStore::new': attr_new, 'convert_markup': conv('markup'), 'convert_expr': conv('expr'),
              'convert_pattern': conv('pattern')}
        ov.update(extra or {})
        return ov

    # ---- (A) text level: trimming, clamping, indent inference, panic freedom ---------------------------
    def make_text_body(n):
        def body(ctx):
            rec = {}

            def cover(m, a, ci):
                rec['trimmed'] = a[1]
                return m.call_fn(f_cover, a)
            m = S.machine(core, STD, ctx, overrides=overrides(rec, {'get_node_cover_range': cover}))
            s = sym_str(ctx, 's', n)
            kids = [Node(kt.k('Text'), text=s, nid=101)] if n else []
            root = Node(kt.k('Markup'), children=kids, nid=100)
            pre = s.prefix()
            start = z3.BitVec('start', 64)
            end = z3.BitVec('end', 64)
            ctx.assume(z3.ULE(start, end))
            i = ctx.choose([start == bv(p, 64) for p in pre])
            j = i + ctx.choose([end == bv(p, 64) for p in pre[i:]] + [z3.UGT(end, bv(pre[-1], 64))])
            beyond = j == len(pre)
            cfg, typ = sym_typstyle()

            def describe(mdl):
                return dict(text=s.concrete(mdl), start=model_int(mdl, start), end=model_int(mdl, end))
            try:
                res = m.call_fn(fn, [m.heap.alloc(typ), Source(s, root), rng(start, end)])
            except Panic as p:
                S.absorb(m)
                ctx.must_hold(False, 'panic', lambda mdl: dict(describe(mdl), panic=p.msg))
                return
            S.absorb(m)
            if beyond:
                ctx.witness('end beyond text handled')
            jj = min(j, n)
            # expected trimmed range on this path (character tests are already decided by the path condition)
            t0 = i
            while t0 < jj and ctx.branch(is_ws(s.chars[t0])):
                t0 += 1
            t1 = jj
            while t1 > t0 and ctx.branch(is_ws(s.chars[t1 - 1])):
                t1 -= 1
            if t0 == jj:
                t0 = t1 = i   # all blank: empty range at the requested start
            tr = rec.get('trimmed')
            if tr is None:
                ctx.must_hold(False, 'cover-search-not-reached', describe)
                return
            ctx.must_hold(b_and(i_eq(tr.fields[0], pre[t0]), i_eq(tr.fields[1], pre[t1])), 'trimmed-range-wrong', describe)
            if t0 > i or t1 < jj:
                ctx.witness('something trimmed')
            if res.variant == 'Err':
                ctx.must_hold(False, 'wellformed-root-refused', describe)
                return
            r, txt = res.fields[0].fields
            if not (isinstance(txt, OStr) and txt.term[0] == 'render'):
                ctx.must_hold(False, 'result-not-rendered-doc', describe)
                return
            doc, width = txt.term[1].deps
            ctx.must_hold(i_eq(width, cfg.get('max_width')), 'render-width', describe)
            node = rec.get('node')
            if not (doc.k == 'nest' and doc.b.k == 'opaque' and node is not None and doc.b.b == (node.nid,)):
                ctx.must_hold(False, 'result-not-nest-of-node-doc', describe)
                return
            k = t0 - 1
            while k >= 0 and not ctx.branch(c_eq(s.chars[k], 10)):
                k -= 1
            exp_indent = 0
            if k >= 0:
                q = k + 1
                while q < t0 and ctx.branch(c_eq(s.chars[q], 32)):
                    exp_indent += 1
                    q += 1
                if exp_indent:
                    ctx.witness('indent inferred')
            ctx.must_hold(i_eq(doc.a, exp_indent, 64), 'wrong-indent', describe)
        return body

    for n in range(N + 1):
        ob, ex = S.explore('range.text[n=%d]' % n,
                           'format_source_range on every text of %d code points x every boundary range (end also beyond the text): no panic, '
                           'cover search receives exactly the blank-trimmed range, nest() receives the spaces after the last LF' % n,
                           make_text_body(n), bounds=dict(code_points=n, tree='Markup[Text]'), parallel=True)
        for lab, mdl, info in ex.violations:
            found.append((lab, info))
        if ex.violations or ob.status.startswith('inconclusive'):
            break
        if n >= 3:
            S.require_witness(ob, ['end beyond text handled', 'something trimmed', 'indent inferred'])

    # ---- (B) tree level: cover search and dispatch, trimmed range arbitrary within the text -------------
    def make_tree_body(shape):
        def body(ctx):
            rec = {}
            ts = z3.BitVec('ts', 64)
            te = z3.BitVec('te', 64)

            def trim(m, a, ci):
                return rng(ts, te)

            def count(m, a, ci):
                return z3.BitVec('indent', 64)
            m = S.machine(core, STD, ctx, overrides=overrides(rec, {'trim_range': trim, 'count_spaces_after_last_newline': count}))
            root, nodes = build_len_tree(ctx, shape, kt, 8)
            total = root.byte_len()
            # what (A) establishes about the trimmed range: ts <= te <= len(text)
            ctx.assume(z3.ULE(ts, te))
            ctx.assume(i_ule(te, total))
            cfg, typ = sym_typstyle()

            def describe(mdl):
                return dict(shape=repr(shape), ts=model_int(mdl, ts), te=model_int(mdl, te),
                            nodes=[dict(kind=kt.names[model_int(mdl, nd.kind)], len=model_int(mdl, nd.byte_len()),
                                        err=model_bool(mdl, nd.erroneous())) for nd in nodes])
            try:
                res = m.call_fn(fn, [m.heap.alloc(typ), Source(OStr(('text',)), root), rng(z3.BitVec('start', 64), z3.BitVec('end', 64))])
            except Panic as p:
                S.absorb(m)
                ctx.must_hold(False, 'tree-panic', lambda mdl: dict(describe(mdl), panic=p.msg))
                return
            S.absorb(m)
            if res.variant == 'Err':
                ctx.witness('refused')
                # the root Markup always covers: a refusal must be due to syntax errors somewhere
                ctx.must_hold(root.erroneous(), 'wellformed-refused', describe)
                return
            ctx.witness('accepted')
            r, txt = res.fields[0].fields
            node = rec.get('node')
            if node is None:
                ctx.must_hold(False, 'ok-without-conversion', describe)
                return
            ln, anc = find_linked(root, node.nid)
            nr = ln.range()
            exp = 0
            for l in anc + [ln]:
                k = l.node.kind
                exp = b_ite(T.kind_in(k, {K_MARKUP}), 0, b_ite(T.kind_in(k, {K_CODE}), 1, b_ite(T.kind_in(k, {K_EQ}), 3, exp)))
            conds = [
                ('returned-range-is-not-the-node-range', b_and(i_eq(r.fields[0], nr.fields[0]), i_eq(r.fields[1], nr.fields[1]))),
                ('erroneous-node-formatted', b_not(node.erroneous())),
                ('node-not-markup-expr-pattern', T.kind_in(node.kind, castable)),
                ('range-not-covered', b_and(i_ule(r.fields[0], ts), i_ule(te, r.fields[1]))),
                ('wrong-mode', i_eq(rec['ctx'].get('mode').disc, exp, 64)),
                ('breaks-suppressed', rec['ctx'].get('break_suppressed') is False),
                ('attributes-of-other-subtree', rec.get('attr_root') is node),
                ('converter-does-not-match-kind', {'markup': T.kind_in(node.kind, kt.cast_set('Markup')),
                                                   'expr': T.kind_in(node.kind, kt.cast_set('Expr')),
                                                   'pattern': T.kind_in(node.kind, kt.cast_set('Pattern'))}[rec['conv']]),
            ]
            if ctx.model_for(b_not(b_and(*[c for _, c in conds]))) is not None:
                for lab, c in conds:
                    ctx.must_hold(c, lab, describe)
            else:
                ctx.ex.stats.obligations += len(conds)
                ctx.ex.stats.discharged += len(conds)
            if ln.node is not root:
                ctx.witness('inner cover found')
        return body

    if not found:
        for shape in tree_shapes(K):
            if 1 + sum(1 if c == 'L' else 1 + c[1] for c in shape) > max_nodes:
                continue
            name = ''.join('L' if c == 'L' else 'I%d' % c[1] for c in shape) or 'empty'
            ob, ex = S.explore('range.tree[%s]' % name,
                               'cover search + dispatch on abstract tree %s with symbolic leaf lengths (<=8 bytes), kinds, error flags and any '
                               'trimmed range within the text' % name, make_tree_body(shape), bounds=dict(shape=name, leaf_len='0..8'), parallel=True)
            for lab, mdl, info in ex.violations:
                found.append((lab, info))
            if len(found) > 20 or ob.status.startswith('inconclusive'):
                break
        allw = set()
        for o in S.obls:
            allw |= set(o.witnesses)
        for w in ('refused', 'accepted', 'inner cover found'):
            if w not in allw and not found:
                S.inconclusive.append('vacuity: `%s` never reachable' % w)

    # ---- replay ---------------------------------------------------------------------------
    seen = set()
    for lab, info in found:
        if lab in seen:
            continue
        seen.add(lab)
        if 'text' in info:
            text, a, b = info['text'], info['start'], info['end']
            r = S.driver.call('format_range', hexs(text), a, b, 80, 2)
            if lab == 'panic' and r[0] in ('panic', 'abort'):
                S.violation('range-panic', 'format_source_range(%s, %d..%d) panics: %s' % (show(text), a, b, unhexs(r[1]) if len(r) > 1 else info.get('panic')),
                            dict(api=dict(api='Typstyle::format_source_range', source=text, start=a, end=b), model=info))
                continue
        w = api_sweep(S, lab)
        if w is not None:
            S.violation('range-' + lab, 'format_source_range violates `%s`: %s' % (lab, w['what']), dict(api=w, model=info))
        else:
            S.inconclusive.append('range: solver model for `%s` (%r) has no native reproduction over the corpus' % (lab, info))
    if not found:
        # the corpus must agree with the solver's verdict on this tree (guards the corpus and its oracle)
        w = api_sweep(S, 'validation')
        S.validation['native_corpus'] = 'clean (%d sources x all boundary ranges)' % len(CORPUS) if not w else w['what']
        if w:
            S.inconclusive.append('range: the native corpus shows a deviation the solver-decided units do not explain: %s' % w['what'])
    S.assumptions += [
        'assume-guarantee split: (A) decides on real text that the cover search receives the blank-trimmed range ts<=te<=len; (B) assumes exactly that',
        'abstract trees over-approximate parser output: root is Markup, children partition the parent, kinds and error flags arbitrary',
        'AttrStore::new, convert_markup/expr/pattern and the renderer are opaque',
        'Source::find(span) returns the unique node with that span (spans are unique per node)',
    ]
    # a cover node that is a whitespace token or a word is converted by convert_space / convert_parbreak / convert_text alone (whole-document
    # formatting never calls them for a paragraph break): the token must come back as the same kind of break, for every configuration
    from . import markup
    ftok = markup.explore_tokens(S, 3 if S.tier == 'quick' else 4, prefix='C13')
    groups = {}
    for lab, info in ftok:
        if lab.startswith('C13:'):
            groups.setdefault(lab, []).append(info)
    for lab, infos in groups.items():
        hit = None
        for info in infos[:6]:
            hit = confirm_token_range(S, info)
            if hit:
                break
        if hit:
            S.violation(lab, '%s: %s' % (lab, hit['what']), dict(api=hit, model=infos[0]))
        else:
            S.inconclusive.append('%s: no solver model reproduced natively through format_source_range (%r)' % (lab, infos[0]))
    if not groups:
        validate_corpus(S, 'range over whitespace tokens', [], lambda: token_range_sweep(S))
    # the property as stated, on whole documents: format_source_range from its MIR with every converter real, for the span of every node and ranges
    # inside; the text laid out by the interpreted renderer is spliced into the source and parsed by the real parser
    from . import reparse, deep
    rdocs = reparse.RANGE_DOCS + reparse.TABLE_DOCS + reparse.BLOCK_DOCS + reparse.MISC_DOCS + reparse.EVAL_DOCS + reparse.PROSE_LINE_DOCS + deep.PROSE
    if S.tier != 'quick':
        # (comment documents as written; their variants embedded in an equation show a known weakness of the mode inference - code behind `#` inside
        # math is converted as math when it is the cover node, `$ #f[a // c⏎] $` -> `f(⏎[a // c⏎]⏎)` - listed in DESIGN, outside this claim)
        rdocs += deep.DOCS + reparse.NORMALISE_DOCS + reparse.COMMENT_DOCS
    fr, covr = reparse.explore_range(S, rdocs, widths=(0, 40, 1 << 30) if S.tier == 'quick' else (0, 20, 40, 80, 1 << 30), max_ranges=10 if S.tier == 'quick' else 24)
    reparse.report_range(S, fr)
    return S.finish(level='other', explanation=EXPLANATION,
                    trusted=['mirsym encoder', 'std string contracts', 'typst-syntax kind tables extracted from the real crate', 'LinkedNode offsets = prefix sums of child lengths'])


def newline_count(ws):
    n = 0
    i = 0
    while i < len(ws):
        if ws[i] == '\r' and i + 1 < len(ws) and ws[i + 1] == '\n':
            n += 1
            i += 2
            continue
        if ws[i] in '\n\x0b\x0c\r\x85\u2028\u2029':
            n += 1
        i += 1
    return n


def confirm_token_range(S, info, bounds=None):
    """format a range that lies inside the whitespace between two words: what comes back must break the text as the token did"""
    ws = info.get('text') or ''
    if info.get('token') not in ('Parbreak', 'Space') or not ws:
        return None
    blub = info.get('blank_lines_upper_bound')
    for src in ('first' + ws + 'second\n', '#[first' + ws + 'second]\n'):
        if S.driver.call('erroneous', hexs(src))[1] == '1':
            continue
        pre = len(src.split(ws)[0].encode('utf-8'))
        wl = len(ws.encode('utf-8'))
        for bl in ([min(blub, 1 << 20)] if isinstance(blub, int) else []) + [0, 1, 2]:
            for (a, b) in ((pre + 1, pre + 1), (pre, pre + wl), (pre + 1, pre + wl)):
                if a > pre + wl or (ord(ws[0]) > 127 and a == pre + 1):
                    continue
                r = S.driver.call('format_range', hexs(src), a, b, 80, 2, bl)
                if r[0] != 'ok':
                    continue
                rs, re_ = int(r[1]), int(r[2])
                old = src.encode('utf-8')[rs:re_].decode('utf-8', 'replace')
                new = unhexs(r[3])
                if old.strip(''.join(WS_SET)) == '' and old != '' and min(newline_count(old), 2) != min(newline_count(new), 2) or (old.strip(''.join(WS_SET)) == '' and newline_count(old) >= 2 and newline_count(new) != newline_count(old)):
                    return dict(api='Typstyle::format_source_range', source=src, start=a, end=b, blank_lines_upper_bound=bl,
                                what='formatting the range %d..%d of %s (blank_lines_upper_bound = %d) replaces %s by %s: a paragraph break / line break / blank changes its kind or its number of line feeds' % (
                                    a, b, show(src), bl, show(old), show(new)))
    return None


def token_range_sweep(S):
    for ws in ('\n\n', '\n\n\n', '\r\n\r\n', '\n', ' ', '\r\r', '\n \n'):
        w = confirm_token_range(S, dict(token='Parbreak', text=ws))
        if w:
            return w
    return None


CORPUS = [
    '#let x = 1\n', '  #let  x  =  (1,2)\n', '= Head\n  - a\n    - b #f( 1 ,2)\n', '$ a + b $ text #{ let y = [*b*]; y }\n',
    '#(\n', 'a #[b #(] c\n', '#let f(x, ..y) = x\n#f(1)[a][b]\n', '/* c */ #import "a": b, c\n', 'é  ü #x.y.z(1)  \n\n  z\n', '',
    ' ', '\n\n', '#{\n  let (a, _) = (1, 2)\n}\n',
    'first\n\nsecond\n', '#f[\na b\n// c\n]\n', 'a\n\n\nb\n\n', '#[\n  x // c\n]\n',
    '$ vec(mat(1,2;3,4), x) $\n', '$ op(delim: "[", cases(a,b;c,d)) $\n', '$ f(a; b)(c; d) $\n',
]


def api_sweep(S, lab):
    """native search for a public-API witness of a range-formatting violation (confirmation only)"""
    for src in CORPUS:
        bs = src.encode('utf-8')
        bounds = [i for i in range(len(bs) + 1) if i == len(bs) or (bs[i] & 0xC0) != 0x80]
        ends = bounds + [len(bs) + 1, len(bs) + 100]
        err = S.driver.call('erroneous', hexs(src))[1] == '1'
        for a in bounds:
            for b in ends:
                if b < a:
                    continue
                r = S.driver.call('format_range', hexs(src), a, b, 80, 2)
                if r[0] in ('panic', 'abort'):
                    return dict(api='Typstyle::format_source_range', source=src, start=a, end=b, what='panic on %s %d..%d' % (show(src), a, b))
                if r[0] == 'ok':
                    rs, re_ = int(r[1]), int(r[2])
                    seg = bs[a:min(b, len(bs))].decode('utf-8')
                    lead = len(seg) - len(seg.lstrip(''.join(WS_SET)))
                    core = seg.strip(''.join(WS_SET))
                    if core:
                        ta = a + len(seg[:lead].encode('utf-8'))
                        tb = ta + len(core.encode('utf-8'))
                        if not (rs <= ta and tb <= re_):
                            return dict(api='Typstyle::format_source_range', source=src, start=a, end=b,
                                        what='returned range %d..%d does not cover trimmed request %d..%d in %s' % (rs, re_, ta, tb, show(src)))
                    if not err and rs == 0 and re_ == len(bs) and src.strip() != '' and a == 0:
                        # the whole document is the cover: the text must be what formatting the document gives (same configuration)
                        full = S.driver.call('format', hexs(src), 80, 2, 0)
                        rs_ = lambda x: '\n'.join(l.rstrip() for l in x.split('\n'))      # the range text is not post-processed: blanks at line ends may differ
                        if full[0] == 'ok' and rs_(unhexs(full[1])) != rs_(unhexs(r[3])):
                            return dict(api='Typstyle::format_source_range', source=src, start=a, end=b, output=unhexs(r[3]),
                                        what='range %d..%d of %s covers the whole document but the text returned (%s) is not the formatted document (%s)' % (
                                            a, b, show(src), show(unhexs(r[3])), show(unhexs(full[1]))))
                    if not err:
                        out = bs[:rs].decode('utf-8', 'replace') + unhexs(r[3]) + bs[re_:].decode('utf-8', 'replace')
                        e2 = S.driver.call('erroneous', hexs(out))
                        if e2[1] == '1':
                            return dict(api='Typstyle::format_source_range', source=src, start=a, end=b,
                                        what='splicing the result into %s yields a source with syntax errors' % show(src))
                        # inside an equation a semicolon is a row separator, never layout: converting the node in another
                        # lexical mode than the one it stands in loses it
                        if src.startswith('$') and src.rstrip().endswith('$') and '#' not in src and src.count('$') == 2 and out.count(';') != src.count(';'):
                            return dict(api='Typstyle::format_source_range', source=src, start=a, end=b, output=out,
                                        what='formatting %d..%d of %s gives %s: the row separators of the math call are lost (node converted in the wrong lexical mode)' % (a, b, show(src), show(out)))
    return None
