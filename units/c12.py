"""C12 — indentation is governed solely by the configured indent unit: data-flow of every nest() offset."""
import re
import z3

from mirsym.values import *
from mirsym import mirparse
from mirsym.mirparse import Operand, Place
from mirsym.machine import split_path, int_info
from mirsym.session import hexs, unhexs
from .common import *

EXPLANATION = (
    "Solver-checked data flow over the real MIR. Every function of typstyle-core whose MIR calls DocBuilder::nest / align / hang / "
    "indent or reads Config::tab_spaces is enumerated from this run's dump (new sites are picked up automatically). For each nest() "
    "site the backward slice of the offset operand (copies, integer casts, arithmetic with constants, parameters) is translated to a "
    "bit-vector term over the symbolic unit T and z3 shows offset = T as isize for every T in [0, 2^31); offsets that are function "
    "parameters become the same obligation at every caller. Further: align/hang occur only in comment.rs and the source-indent nest in "
    "partial.rs (both exempt by the property); every value read from tab_spaces flows only into nest offsets (so structure cannot "
    "depend on the unit); nothing stores into PrettyPrinter::config after construction; the CLI maps --tab-width to tab_spaces (real "
    "MIR of to_config). How the renderer turns nest offsets into blanks is trusted (pretty's documented semantics). Session 3: readers of tab_spaces in every function with a Config receiver (returned / stored units are violations); a text atom that spans lines lies inside a comment, string, raw text or protected node; native oracle at finite widths (the layout for unit 1 re-indented by t fits => unit t gives exactly that text).")

EXEMPT_FILES = ('partial.rs',)          # nest(indent) copies the source's indentation (exempt by the property)
COMMENT_FILE = 'comment.rs'


class Slice:
    """backward slice evaluation inside one function"""

    def __init__(self, fn):
        self.fn = fn.ensure_parsed()
        self.assigns = {}
        self.call_dests = {}
        for b, blk in fn.blocks.items():
            for st in blk.stmts:
                if st.kind == 'assign' and not st.place.proj:
                    self.assigns.setdefault(st.place.local, []).append(st.rv)
            t = blk.term
            if t is not None and t.kind == 'call' and not t.dest.proj:
                self.call_dests.setdefault(t.dest.local, []).append(t)
        self.params = {n: i for i, (n, ty) in enumerate(fn.params)}
        self.fresh = 0

    def is_tab_read(self, place):
        if not place.proj:
            return False
        last = place.proj[-1]
        if last[0] != 'field' or last[1] != 0 or last[2] != 'usize':
            return False
        if len(place.proj) >= 2:
            prev = place.proj[-2]
            if prev[0] == 'field' and prev[2].split('::')[-1] == 'Config':
                return True
        # direct (*_1).0 where _1: &Config
        base_ty = self.fn.locals.get(place.local, '')
        inner = [p for p in place.proj[:-1] if p[0] != 'deref']
        if not inner and base_ty.replace('&', '').strip().split('::')[-1] == 'Config':
            return True
        return False

    def opaque(self, why):
        self.fresh += 1
        return ('opaque', '%s#%d' % (why, self.fresh))

    def eval_operand(self, op, depth=0):
        """-> ('tab',) | ('param', i) | ('const', v, ty) | ('cast', x, from, to) | ('bin', op, a, b, ty) | ('opaque', why)"""
        if depth > 30:
            return self.opaque('depth')
        if op.kind == 'const':
            c = op.const
            if c.kind == 'int':
                return ('const', c.val, c.ty)
            return self.opaque('const-' + c.kind)
        pl = op.place
        if self.is_tab_read(pl):
            return ('tab',)
        if pl.proj:
            return self.opaque('place')
        n = pl.local
        rvs = self.assigns.get(n, [])
        if n in self.call_dests:
            return self.opaque('call-result')
        if not rvs:
            if n in self.params:
                return ('param', self.params[n])
            return self.opaque('unassigned')
        if len(rvs) > 1:
            vals = [self.eval_rv(rv, depth + 1) for rv in rvs]
            if all(v == vals[0] for v in vals) and vals[0][0] != 'opaque':
                return vals[0]
            return self.opaque('multi-assign')
        return self.eval_rv(rvs[0], depth + 1)

    def eval_rv(self, rv, depth):
        if rv.kind == 'use':
            return self.eval_operand(rv.a, depth)
        if rv.kind == 'cast' and rv.c == 'IntToInt':
            x = self.eval_operand(rv.a, depth)
            return ('cast', x, self.op_ty(rv.a), rv.b)
        if rv.kind == 'binop':
            a = self.eval_operand(rv.b, depth)
            b = self.eval_operand(rv.c, depth)
            return ('bin', rv.a, a, b, self.op_ty(rv.b))
        if rv.kind == 'ref' and not rv.a.proj:
            return self.eval_operand(Operand('copy', rv.a), depth)
        if rv.kind == 'ref' and self.is_tab_read(rv.a):
            return ('tab',)
        return self.opaque('rvalue-' + rv.kind)

    def op_ty(self, op):
        if op.kind == 'const':
            return op.const.ty
        pl = op.place
        ty = self.fn.locals[pl.local]
        for p in pl.proj:
            if p[0] == 'field':
                ty = p[2]
        return ty


def to_z3(term, T, params):
    """bit-vector semantics of a slice term; T is the 64-bit symbolic unit"""
    k = term[0]
    if k == 'tab':
        return T
    if k == 'const':
        bits = INT_BITS[term[2]]
        return z3.BitVecVal(norm(term[1], bits), bits)
    if k == 'param':
        return params(term[1])
    if k == 'cast':
        x = to_z3(term[1], T, params)
        if x is None:
            return None
        fi, ti = int_info(term[2]), int_info(term[3])
        if fi is None or ti is None:
            return None
        if ti[0] == x.size():
            return x
        if ti[0] < x.size():
            return z3.Extract(ti[0] - 1, 0, x)
        return z3.SignExt(ti[0] - x.size(), x) if fi[1] else z3.ZeroExt(ti[0] - x.size(), x)
    if k == 'bin':
        a = to_z3(term[2], T, params)
        b = to_z3(term[3], T, params)
        if a is None or b is None or a.size() != b.size():
            return None
        op = term[1].replace('WithOverflow', '').replace('Unchecked', '')
        return {'Add': a + b, 'Sub': a - b, 'Mul': a * b, 'BitAnd': a & b, 'BitOr': a | b, 'BitXor': a ^ b,
                'Shl': a << b, 'Shr': z3.LShR(a, b)}.get(op)
    return None


def run(S):
    core = S.core
    found = []
    sites = []
    solver_time = 0.0
    T = z3.BitVec('T', 64)
    ob = S.obls.__class__  # dummy to keep linters quiet
    from mirsym.session import Obligation
    rec = Obligation('indent.dataflow', 'every nest() offset equals tab_spaces as isize for all T < 2^31')
    S.obls.append(rec)
    import time
    t0 = time.time()

    def src_file(name):
        m = re.search(r'crates/typstyle-core/src/([^:>]*)', name)
        if m:
            return m.group(1)
        return None

    # which functions hold which calls
    nest_sites = []       # (fn, term, method)
    for name, fn in core.fns.items():
        txt = '\n'.join(fn.raw_lines)
        if not re.search(r'DocBuilder::<[^>]*(?:<[^>]*>)*[^>]*>::(nest|align|hang|indent)\(', txt) and '::nest(' not in txt and '::hang(' not in txt and '::align(' not in txt:
            continue
        fn.ensure_parsed()
        for b, blk in fn.blocks.items():
            t = blk.term
            if t is not None and t.kind == 'call':
                mm = re.search(r'::(nest|align|hang|indent)$', t.func.split('::<')[0] if t.func.endswith('>') else t.func)
                meth = t.func.rsplit('::', 1)[-1]
                if meth in ('nest', 'align', 'hang', 'indent') and 'DocBuilder' in t.func:
                    nest_sites.append((fn, t, meth))

    def file_of_fn(fn):
        # the impl location is part of the definition name; free functions: look at closures / header types
        f = src_file(fn.name)
        if f:
            return f
        m = re.search(r'crates/typstyle-core/src/([^:>\s]*)', fn.header)
        if m:
            return m.group(1)
        # free function: find by scanning source for `fn name`
        short = fn.name.split('::')[0]
        import glob
        import os
        from mirsym.session import REPO
        for p in glob.glob(REPO + '/crates/typstyle-core/src/**/*.rs', recursive=True):
            if re.search(r'\bfn %s\b' % re.escape(short), open(p).read()):
                return os.path.relpath(p, REPO + '/crates/typstyle-core/src')
        return '?'

    # callers index for parameter obligations
    def callers_of(target_fn):
        short = target_fn.name.rsplit('::', 1)[-1]
        out = []
        for name, fn in core.fns.items():
            if short not in '\n'.join(fn.raw_lines):
                continue
            fn.ensure_parsed()
            for b, blk in fn.blocks.items():
                t = blk.term
                if t is not None and t.kind == 'call':
                    last = [s for s in split_path(t.func) if not s.startswith('<')]
                    if last and last[-1] == short and S.defs(core).resolve(__import__('mirsym.machine', fromlist=['parse_call_name']).parse_call_name(t.func)) is target_fn:
                        out.append((fn, t))
        return out

    def check_term(term, where, depth=0):
        """discharge `term == T as isize` ; parameters are pushed to the callers"""
        nonlocal solver_time
        rec.obligations += 1
        if term[0] == 'opaque' or depth > 4:
            found.append(('nest-offset-not-derived-from-tab_spaces', dict(site=where, slice=repr(term))))
            return
        # parameters: every caller must pass the unit
        pending = []

        def params(i):
            pending.append(i)
            return z3.BitVec('param%d' % i, 64)
        z = to_z3(term, T, params)
        if z is None:
            found.append(('nest-offset-not-derived-from-tab_spaces', dict(site=where, slice=repr(term))))
            return
        if pending:
            # the offset is (a function of) parameter(s): first check it is the identity on the parameter, then recurse into callers
            if len(set(pending)) != 1:
                found.append(('nest-offset-mixes-parameters', dict(site=where, slice=repr(term))))
                return
            pi = pending[0]
            P = z3.BitVec('param%d' % pi, 64)
            s = z3.Solver()
            s.add(z3.ULT(P, 1 << 31), z != P)
            t1 = time.time()
            r = s.check()
            solver_time += time.time() - t1
            rec.queries += 1
            if r != z3.unsat:
                rec.sat += 1
                found.append(('nest-offset-is-not-the-parameter', dict(site=where, slice=repr(term), model=str(s.model()) if r == z3.sat else 'unknown')))
                return
            rec.unsat += 1
            fn = where_fn[where]
            cs = callers_of(fn)
            if not cs:
                found.append(('nest-offset-parameter-without-callers', dict(site=where)))
                return
            rec.discharged += 1
            for cfn, ct in cs:
                sl = Slice(cfn)
                w2 = '%s -> arg %d of %s' % (cfn.name.rsplit('>::', 1)[-1], pi, fn.name.rsplit('::', 1)[-1])
                where_fn[w2] = cfn
                check_term(sl.eval_operand(ct.args[pi]), w2, depth + 1)
            return
        s = z3.Solver()
        s.add(z3.ULT(T, 1 << 31), z != T)
        t1 = time.time()
        r = s.check()
        solver_time += time.time() - t1
        rec.queries += 1
        if r == z3.unsat:
            rec.unsat += 1
            rec.discharged += 1
            rec.samples.append(dict(site=where, slice=repr(term), verdict='unsat: offset == T for all T < 2^31'))
        else:
            rec.sat += 1
            mdl = s.model() if r == z3.sat else None
            found.append(('nest-offset-differs-from-unit', dict(site=where, slice=repr(term), T=mdl[T].as_long() if mdl is not None and mdl[T] is not None else None,
                                                             offset=mdl.eval(z, model_completion=True).as_long() if mdl is not None else None)))

    where_fn = {}
    exempt = []
    for fn, t, meth in nest_sites:
        f = file_of_fn(fn)
        where = '%s:%s' % (f, fn.name.rsplit('>::', 1)[-1] if '>::' in fn.name else fn.name)
        where_fn[where] = fn
        if meth in ('align', 'hang', 'indent'):
            rec.obligations += 1
            if f.endswith(COMMENT_FILE):
                exempt.append('%s %s()' % (where, meth))
                rec.discharged += 1
            else:
                found.append(('column-alignment-outside-comments', dict(site=where, method=meth)))
            continue
        if any(f.endswith(x) for x in EXEMPT_FILES):
            exempt.append('%s nest(source indentation)' % where)
            continue
        sl = Slice(fn)
        check_term(sl.eval_operand(t.args[1]), where)
        sites.append(where)

    # (ii) every read of tab_spaces flows only into nest offsets / indent parameters
    readers = []
    for name, fn in core.fns.items():
        body_text = '\n'.join(fn.raw_lines)
        if 'Config).0: usize' not in body_text and not ('.0: usize)' in body_text and re.search(r'(^|[ (&])(config::)?Config\b', fn.header + body_text)):
            continue
        short = name.rsplit('::', 1)[-1]
        if short in ('clone', 'fmt', 'eq', 'hash', 'default', 'with_tab_spaces', 'new', 'ne', 'assert_fields_are_eq') and ('config.rs' in name or 'lib.rs' in name):
            continue
        fn.ensure_parsed()
        sl = Slice(fn)
        # locals that carry the unit
        carriers = set()
        changed = True
        while changed:
            changed = False
            for n, rvs in sl.assigns.items():
                for rv in rvs:
                    src = None
                    if rv.kind == 'use' and rv.a.kind != 'const':
                        src = rv.a.place
                    elif rv.kind == 'cast' and rv.a.kind != 'const':
                        src = rv.a.place
                    elif rv.kind == 'binop':
                        for o in (rv.b, rv.c):
                            if o.kind != 'const' and ((not o.place.proj and o.place.local in carriers) or sl.is_tab_read(o.place)):
                                src = o.place
                    if src is not None and (sl.is_tab_read(src) or (not src.proj and src.local in carriers)):
                        if n not in carriers:
                            carriers.add(n)
                            changed = True
        rec.obligations += 1
        bad = []
        if 0 in carriers:
            bad.append('returned from the function (the caller may decide anything by it)')
        for b, blk in fn.blocks.items():
            for st in blk.stmts:
                if st.kind == 'assign' and st.place.proj and st.rv.kind in ('use', 'cast') and st.rv.a.kind != 'const':
                    sp = st.rv.a.place
                    if sl.is_tab_read(sp) or (not sp.proj and sp.local in carriers):
                        bad.append('stored into a field (%r)' % (st.place,))
            t = blk.term
            if t is None:
                continue
            ops = []
            if t.kind == 'call':
                ops = list(enumerate(t.args))
            elif t.kind == 'switch':
                ops = [(-1, t.op)]
            elif t.kind == 'assert':
                ops = [(-2, t.cond)]
            for i, o in ops:
                if o.kind == 'const':
                    continue
                carries = sl.is_tab_read(o.place) or (not o.place.proj and o.place.local in carriers)
                if not carries:
                    continue
                if t.kind == 'call':
                    meth = t.func.rsplit('::', 1)[-1]
                    if meth == 'nest' and i == 1:
                        continue
                    tgt = S.defs(core).resolve(__import__('mirsym.machine', fromlist=['parse_call_name']).parse_call_name(t.func))
                    if tgt is not None and indent_only_param(tgt, i):
                        continue
                    bad.append('passed to %s (arg %d)' % (t.func[:60], i))
                elif t.kind == 'assert' and 'overflow' in (t.msg or ''):
                    continue
                else:
                    bad.append('decides a branch (%s)' % t.kind)
        readers.append(name.rsplit('>::', 1)[-1])
        if bad:
            found.append(('tab_spaces-influences-more-than-indentation', dict(function=name, uses=bad)))
        else:
            rec.discharged += 1

    # (iii) no store into PrettyPrinter::config after construction
    rec.obligations += 1
    stores = []
    for name, fn in core.fns.items():
        for l in fn.raw_lines:
            mm = re.match(r'^\s+\(+\*?_\d+.*config::Config\)\.\d+: [a-z]+\) = ', l)
            if mm and 'PrettyPrinter' in l:
                stores.append((name, l.strip()[:120]))
    if stores:
        found.append(('printer-config-mutated-after-construction', dict(stores=stores)))
    else:
        rec.discharged += 1

    # (iv) CLI: --tab-width -> tab_spaces (real MIR of to_config, symbolic execution)
    from . import cli
    from mirsym import explore as ex_

    def body_cli(ctx):
        C = cli.contracts()
        m = S.machine(S.bin, C, ctx)
        tw = z3.BitVec('tab_width', 64)
        style = Agg('StyleArgs', None, (z3.BitVec('column', 64), tw, z3.Bool('reorder')), ('column', 'tab_width', 'reorder_import_items'))
        c = m.call_fn(S.find_fn(S.bin, 'StyleArgs::to_config'), [m.heap.alloc(style)])
        S.absorb(m)
        ctx.must_hold(i_eq(c.get('tab_spaces'), tw), 'cli-tab-width-not-mapped-to-tab_spaces', lambda mdl: dict(tab_width=model_int(mdl, tw)))
    ob2, ex2 = S.explore('indent.cli', 'StyleArgs::to_config maps --tab-width to Config::tab_spaces for all 64-bit values', body_cli)
    for lab, mdl, info in ex2.violations:
        found.append((lab, info))

    rec.status = 'held' if not found else 'counterexample'
    rec.solver_s = round(solver_time, 3)
    rec.wall_s = round(time.time() - t0, 3)
    rec.paths = len(sites)
    rec.witnesses = {'nest sites': len(sites), 'exempt': exempt, 'readers of tab_spaces': readers}
    S.log('indent.dataflow: %s sites=%d exempt=%d readers=%d queries=%d solver=%.2fs' % (rec.status, len(sites), len(exempt), len(readers), rec.queries, solver_time))
    if len(sites) < 5:
        S.inconclusive.append('vacuity: only %d nest() sites found in the dump (expected the nesting constructs of markup/list/chain/paren/call/math/table)' % len(sites))
    for f, h in core.fns.items():
        pass
    for where in sites:
        S.fns_used[where_fn[where].name] = where_fn[where].sha

    # ---- the real printer, nothing opaque: every nest() of every document built equals the (symbolic) indent unit --------------
    from . import conserve, deep
    from mirsym import models_typst as MT
    MT.KT = MT.KindTable(S.driver, S.adts)
    fdeep, covd = conserve.explore(S, want=('C12',), per_kind=40 if S.tier == 'quick' else 600, max_nodes=18 if S.tier == 'quick' else 50, deep=True)
    fdocs, covdocs = deep.explore(S, deep.DOCS + ['$ mat(a, // c\n b; c) $\n', '$ mat(\n  a, b; // c\n  c, d\n) $\n', '$ f(a; // c\n b) $\n', '#f(a, // c\n b)\n', '#(a, // c\n b,\n\n c)\n', '$ mat(a, /* c\n d */ b; c) $\n', '#let s = "a\n  b"\n#f(s,\n  1)\n',
                                                      '#(a://\n//\n1)\n', '#{\n  if x {} // c\n  // d\n  else {}\n}\n', '#f(x => // c\n// d\n1)\n', '#let v = // c\n// d\n 1\n', '#(- // c\n// d\n a)\n', '$ a / // c\n// d\n b $\n',
                                                      '#{\n  for x // c\n  // d\n  in y {}\n}\n', '#set // c\n// d\n text(red)\n' if False else '#f(k: // c\n// d\n v)\n'], want=('C12',))
    for lab, info in fdeep + fdocs:
        found.append((lab.split(':', 1)[1], dict(info, site=info.get('kind') or 'document', function='deep')))
    und = sum(c['shapes'] - c['decided'] for c in covd.values())
    if und * 20 > sum(c['shapes'] for c in covd.values()):
        S.inconclusive.append('deep indent check: %d shapes could not be executed (encoder gaps, see evidence)' % und)

    # ---- replay: leading blanks under different units ------------------------------------------------------------
    if found:
        w = native_confirm(S)
        for lab in sorted({l for l, _ in found}):
            info = [i for l, i in found if l == lab][0]
            if w:
                S.violation('C12:' + lab, 'C12:%s at %s: %s' % (lab, info.get('site') or info.get('function'), w['what']), dict(api=w, model=info))
            else:
                S.inconclusive.append('C12:%s (%r): no reproduction over the native corpus' % (lab, info))
    else:
        w = native_confirm(S)
        S.validation['native_corpus'] = 'clean (%d sources x units 1..8)' % len(CORPUS) if not w else w['what']
        if w:
            S.inconclusive.append('C12: the native corpus shows a deviation the solver-decided data flow does not explain: %s' % w['what'])
    known_defect_docs(S)
    S.assumptions += [
        'pretty renders nest(n) as n additional blanks after each line break inside it (documented semantics); align/hang only in comment.rs',
        'MIR temporaries in the slices are single-assignment; slices through calls or multiple assignments are reported, not guessed',
    ]
    return S.finish(level='other', explanation=EXPLANATION, trusted=['MIR dump of rustc nightly', 'z3', 'pretty nest semantics'])


def indent_only_param(fn, i):
    """parameter i of fn is used only as (a cast to) a nest offset"""
    fn.ensure_parsed()
    if i >= len(fn.params):
        return False
    sl = Slice(fn)
    p = fn.params[i][0]
    carriers = {p}
    changed = True
    while changed:
        changed = False
        for n, rvs in sl.assigns.items():
            for rv in rvs:
                src = None
                if rv.kind in ('use', 'cast') and rv.a.kind != 'const':
                    src = rv.a.place
                if src is not None and not src.proj and src.local in carriers and n not in carriers:
                    carriers.add(n)
                    changed = True
    for b, blk in fn.blocks.items():
        t = blk.term
        if t is None:
            continue
        if t.kind == 'call':
            for j, o in enumerate(t.args):
                if o.kind != 'const' and not o.place.proj and o.place.local in carriers:
                    if not (t.func.rsplit('::', 1)[-1] == 'nest' and j == 1):
                        return False
        elif t.kind == 'switch' and t.op.kind != 'const' and not t.op.place.proj and t.op.place.local in carriers:
            return False
    return True


CORPUS = [
    '#let f(x) = {\n  if x {\n    (1,\n     2)\n  } else [\n    text\n    - a\n      - b\n  ]\n}\n',
    '#f(\n  a,\n  g(\n    b,\n  ),\n)[\n  content\n]\n',
    '$\n  a + (\n    b\n  ) \\\n  c\n$\n',
    '#let x = a\n  .b()\n  .c(\n    1,\n  )\n',
    '#table(\n  columns: 2,\n  [a], [b],\n  [c], [d],\n)\n',
    '- a\n  - b\n    + c\n/ T: d\n  e\n= H\n',
    '#import "a.typ": (\n  x,\n  y,\n)\n#show: it => {\n  it\n}\n#let v = (\n  1\n    + 2\n)\n',
    '#let v = a // c\n  + b\n', '#{\n  let v = aaa and // c\n    bbb\n}\n', '#let v = a + f(\n  1,\n) + (\n  2,\n)\n', '#f(a // c\n  + b)\n',
    '#let w = a.b // c\n  .c()\n', '$ f(a, // c\n  b) $\n', '#let g = (x /* c */, // d\n  y) => x\n', '#{\n  x = a // c\n    * b\n}\n',
    '$ [ a +\nb +\nc ] $\n', '$ f(x) = ( a\n+ b ) $\n', '$ { a\n  b } $\n', '$ (\n  a\n) $\n', '$ vec(\n  a,\n  b,\n) $\n', '$\n  a \\\n  b\n$\n',
    '$ mat(a, // c\n b; c) $\n', '#(a://\n//\n1)\n', '#{\n  if x {} // c\n  // d\n  else {}\n}\n', '#f(x => // c\n// d\n1)\n', '#f(k: // c\n// d\n v)\n', '$ mat(\n  a, b; // c\n  c, d\n) $\n', '$ f(a; // c\n b) $\n', '#f(a, // c\n b)\n', '#(a, // c\n b,\n\n c)\n',
    '#a.bb.c(\n1,\n2)\n', '#{\n  aaaaaaaa.bbbbbbbb.cccc(\n    x,\n    y,\n  )\n}\n', '#let v = aaaa.bbbb.cccc(1, 2).dddd\n', '#f(aaaa.bbbb.cccc(\n  x,\n))\n',
    '#{\n  let v = aaaaaa.bbbbbb.cccccc(\n    // c\n    x,\n  )\n}\n', '#aaaaaaaaaaaa.bbbbbbbbbbbb.cccccccc(\n  1,\n  2,\n)\n',
    '#let long = aaaaaaaaaaaaaaaaaaaaaaaaaaaaaa + bbbbbbbbbbbbbbbbbbbbbbbbbbbbbbbbbbbb + cccccccccccccccccccccccccccccccccccccc + dddddddddddddddddddddddddddddd\n',
]


KNOWN_DOCS = {
    '$ mat(a,\n // c\n b) $\n': 'line-comment-on-its-own-line-in-math-arguments',
    '-\n  // c\n  a\n': 'line-comment-on-its-own-line-in-a-list-item',
}


def known_defect_docs(S):
    """documents of open known findings: the stray blank in front of a line comment that follows a line break pushed by a flow producer"""
    for src, kid in KNOWN_DOCS.items():
        outs = {}
        for t in (1, 2, 4):
            r = S.driver.call('format', hexs(src), 1000000, t, 0)
            if r[0] == 'ok':
                outs[t] = unhexs(r[1])
        bad = None
        for t, o in outs.items():
            for l in o.split('\n'):
                ind = len(l) - len(l.lstrip(' '))
                if l.strip() and ind % t:
                    bad = (t, l, ind)
        if bad:
            S.violation('C12:native:indentation-not-a-multiple-of-the-unit:document:' + kid,
                        'with tab_spaces = %d the line %s of the formatted %s is indented by %d blanks' % (bad[0], show(bad[1]), show(src), bad[2]),
                        dict(api=dict(api='Typstyle::format_content', source=src, tab=bad[0])))


def native_confirm(S):
    """outputs for different units must differ only in leading blanks, by exactly the ratio of the units"""
    for src in CORPUS:
        outs = {}
        for t in (1, 2, 3, 4, 5, 6, 7, 8):
            for w in (1000000, 40):
                r = S.driver.call('format', hexs(src), w, t, 0)
                if r[0] != 'ok':
                    continue
                outs[(t, w)] = unhexs(r[1])
        for w in (1000000,):
            base = outs.get((1, w))
            if base is None:
                continue
            bl = base.split('\n')
            for t in (2, 3, 4, 5, 6, 7, 8):
                o = outs.get((t, w))
                if o is None:
                    continue
                ol = o.split('\n')
                if len(ol) != len(bl):
                    return dict(api='Typstyle::format_content', source=src, what='line structure depends on the indent unit (tab %d vs 1) for %s' % (t, show(src)))
                for a, b in zip(bl, ol):
                    ia = len(a) - len(a.lstrip(' '))
                    ib = len(b) - len(b.lstrip(' '))
                    if a.lstrip(' ') != b.lstrip(' ') or ib != ia * t:
                        return dict(api='Typstyle::format_content', source=src, tab=t, line_unit1=a, line_unitT=b,
                                    what='with tab_spaces=%d line %s is indented by %d blanks, but by %d with tab_spaces=1 (expected ratio %d) for %s' % (t, show(b), ib, ia, t, show(src)))
    # finite widths: when the layout chosen for unit 1, re-indented by the unit t, still fits the width, no line needs wrapping for unit t
    # either, and the output for unit t must be exactly that re-indented text
    for src in CORPUS:
        if any(ord(c) > 127 for c in src) or '/*' in src:
            continue
        for w in (12, 16, 20, 24, 30, 40, 60, 80):
            r1 = S.driver.call('format', hexs(src), w, 1, 0)
            if r1[0] != 'ok':
                continue
            base = unhexs(r1[1]).split('\n')
            for t in (2, 3, 4, 6, 8):
                scaled = [' ' * ((len(a) - len(a.lstrip(' '))) * t) + a.lstrip(' ') for a in base]
                if max(len(x) for x in scaled) > w:
                    continue
                rt = S.driver.call('format', hexs(src), w, t, 0)
                if rt[0] != 'ok':
                    continue
                got = unhexs(rt[1]).split('\n')
                if got != scaled:
                    return dict(api='Typstyle::format_content', source=src, tab=t, width=w,
                                what='at width %d the layout for tab_spaces=1, re-indented by %d, fits every line, but tab_spaces=%d gives another layout for %s: %s instead of %s' % (
                                    w, t, t, show(src), show('\n'.join(got)), show('\n'.join(scaled))))
    return None
