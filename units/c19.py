"""C19 — import items are reordered only on request, and then only permuted."""
import z3

from mirsym.values import *
from mirsym.explore import Panic
from mirsym import models_typst as T
from mirsym import models_doc as D
from mirsym.models_std import STD, Str, Vec, str_lt, str_eq, valid_scalar, drain, get_iter
from mirsym.models_typst import Node
from mirsym.session import hexs, unhexs
from . import pp, cli
from .common import *

EXPLANATION = (
    "Bounded symbolic execution (MIR->SMT, z3) of PrettyPrinter::convert_import_items (+ its closures) and "
    "check_import_name_duplication with the list stylist opaque but recording the node sequence it receives. Inputs: every sequence "
    "of up to K nodes, each a plain import item (path of 1-2 identifiers), a renamed item, or any other node kind (comma, space, "
    "comments, ...; kind symbolic), identifier texts symbolic 1-character strings, the reorder flag symbolic. z3 decides: flag off => "
    "the sequence passed on is the input sequence; flag on => it is a permutation of the input, equal to the input whenever a comment "
    "is present or two items bind the same name, and otherwise non-decreasing in the items' text. Config::default().reorder_import_items "
    "is false and StyleArgs::to_config passes the CLI flag through (real MIR). That nothing else in the output depends on the flag is "
    "the structural fact, checked in the same dump, that reorder_import_items is read only in convert_import_items. Session 3: the library skeleton - Typstyle::new keeps the configuration it is given (all four fields, every value).")


def run(S):
    kt = T.KT = T.KindTable(S.driver, S.adts)
    core = S.core
    K = 3 if S.tier == 'quick' else 4
    fn = S.find_fn(core, 'PrettyPrinter::convert_import_items')
    fn.ensure_parsed()
    K_PATH, K_REN, K_ID = kt.k('ImportItemPath'), kt.k('RenamedImportItem'), kt.k('Ident')
    K_LC, K_BC = kt.k('LineComment'), kt.k('BlockComment')
    found = []

    def ident(ctx, name):
        c = z3.BitVec(name, 32)
        ctx.assume(z3.And(z3.UGE(c, ord('a')), z3.ULE(c, ord('e'))))   # identifier characters: a small alphabet suffices for order/equality
        return Node(K_ID, text=Str((c,)))

    def path(ctx, name, two):
        kids = [ident(ctx, name + '_p0')]
        if two:
            kids += [Node(kt.k('Dot'), text=Str.lit('.')), ident(ctx, name + '_p1')]
        return Node(K_PATH, children=kids)

    def make_node(ctx, i, which):
        if which == 0:
            return path(ctx, 'n%d' % i, False), 'path1'
        if which == 1:
            return path(ctx, 'n%d' % i, True), 'path2'
        if which == 2:
            p = path(ctx, 'n%d' % i, False)
            return Node(K_REN, children=[p, Node(kt.k('Space'), text=Str.lit(' ')), Node(kt.k('As'), text=Str.lit('as')),
                                         Node(kt.k('Space'), text=Str.lit(' ')), ident(ctx, 'n%d_new' % i)]), 'renamed'
        k = z3.BitVec('kind%d' % i, 8)
        ctx.assume(z3.ULT(k, kt.n))
        ctx.assume(z3.And(k != K_PATH, k != K_REN))
        c = z3.BitVec('n%d_txt' % i, 32)
        ctx.assume(valid_scalar(c))
        return Node(k, text=Str((c,))), 'other'

    def bound_name(node, tag):
        if tag in ('path1', 'path2'):
            return [c for c in node.children if c.kind == K_ID][-1].text
        if tag == 'renamed':
            return node.children[-1].text
        return None

    import itertools
    for k in range(0, K + 1):
        for combo in itertools.product(range(4), repeat=k):
            def body(ctx, combo=combo):
                rec = {}

                def process(m, a, ci):
                    rec['seq'] = drain(m, get_iter(m, a[2]))
                    return Opaque('stylist', ())

                def print_doc(m, a, ci):
                    return D.opaque_doc('import-items')

                def stylist_new(m, a, ci):
                    return Opaque('stylist0', ())
                m = S.machine(core, STD, ctx, overrides={'process_iterable_impl': process, 'print_doc': print_doc, 'ListStylist::<\'_>::new': stylist_new, 'with_fold_style': (lambda mm, a, ci: a[0])})
                nodes = []
                tags = []
                for i, w in enumerate(combo):
                    nd, tag = make_node(ctx, i, w)
                    nodes.append(nd)
                    tags.append(tag)
                pr, cfg = pp.printer(m)
                reorder = cfg.get('reorder_import_items')
                # newer signature: the caller (convert_import) passes whether the import is free of comments
                gated_by_caller = len(fn.params) >= 4
                allow = z3.Bool('can_reorder') if gated_by_caller else None
                extra = [allow] if gated_by_caller else []

                def describe(mdl):
                    return dict(reorder=model_bool(mdl, reorder), **({'can_reorder': model_bool(mdl, allow)} if gated_by_caller else {}),
                                items=[dict(tag=t, text=n.into_text().concrete(mdl),
                                            kind=kt.names[model_int(mdl, n.kind)] if is_sym(n.kind) else kt.names[n.kind]) for n, t in zip(nodes, tags)],
                                passed=[n.into_text().concrete(mdl) for n in rec.get('seq', [])])
                try:
                    m.call_fn(fn, [pr, pp.context(), Vec(nodes)] + extra)
                except Panic as p:
                    S.absorb(m)
                    ctx.must_hold(False, 'panic', lambda mdl: dict(describe(mdl), panic=p.msg))
                    return
                S.absorb(m)
                seq = [m.load(x) if isinstance(x, Ref) else x for x in rec.get('seq', [])]
                same = len(seq) == len(nodes) and all(a is b for a, b in zip(seq, nodes))
                perm = sorted(n.nid for n in seq) == sorted(n.nid for n in nodes)
                ctx.must_hold(perm, 'not-a-permutation', describe)
                ctx.must_hold(b_implies(b_not(reorder), same), 'reordered-without-request', describe)
                has_comment = b_or(*[T.kind_in(n.kind, {K_LC, K_BC}) for n in nodes])
                if gated_by_caller:
                    # the comment test is the caller's (decided in import.gate through convert_import); here: not allowed => unchanged
                    has_comment = b_not(allow)
                names = [bound_name(n, t) for n, t in zip(nodes, tags)]
                names = [x for x in names if x is not None]
                dup = b_or(*[str_eq(names[i], names[j]) for i in range(len(names)) for j in range(i + 1, len(names))])
                ctx.must_hold(b_implies(b_or(has_comment, dup), same), 'reordered-despite-comment-or-duplicate', describe)
                # "sorted": the resulting order is canonical, i.e. it does not depend on the order in the source.  (Which key is
                # used is the implementation's choice; demanding a particular key would ask for more than the property states.)
                texts = [n.into_text() for n in seq]
                if len(nodes) >= 2:
                    for perm in (list(reversed(range(len(nodes)))), list(range(1, len(nodes))) + [0]):
                        rec2 = {}

                        def process2(m2, a, ci):
                            rec2['seq'] = drain(m2, get_iter(m2, a[2]))
                            return Opaque('stylist', ())
                        m2 = S.machine(core, STD, ctx, overrides={'process_iterable_impl': process2, 'print_doc': print_doc, 'ListStylist::<\'_>::new': stylist_new, 'with_fold_style': (lambda mm, a, ci: a[0])})
                        pr2 = m2.heap.alloc(m.load(pr))
                        try:
                            m2.call_fn(fn, [pr2, pp.context(), Vec([nodes[j] for j in perm])] + extra)
                        except Panic:
                            continue
                        seq2 = [m2.load(x) if isinstance(x, Ref) else x for x in rec2.get('seq', [])]
                        # only the import items themselves count; separators and blanks are dropped by the list stylist
                        item_ids = {n.nid for n, t in zip(nodes, tags) if t != 'other'}
                        t1 = [n.into_text() for n in seq if n.nid in item_ids]
                        t2 = [n.into_text() for n in seq2 if n.nid in item_ids]
                        same_texts = len(t2) == len(t1) and b_and(*[(False if len(x) != len(y) else str_eq(x, y)) for x, y in zip(t1, t2)])
                        ctx.must_hold(b_implies(b_and(reorder, b_not(has_comment), b_not(dup)), same_texts), 'not-sorted-when-requested',
                                      lambda mdl, perm=perm, seq2=seq2: dict(describe(mdl), other_input_order=perm, other_result=[n.into_text().concrete(mdl) for n in seq2]))
                if not same:
                    ctx.witness('actually reordered')
                ctx.witness('flag on but kept (comment)', b_and(reorder, has_comment, True))
                if gated_by_caller and not same:
                    ctx.must_hold(allow, 'reordered-although-the-caller-forbids-it', describe)
                ctx.witness('flag on but kept (duplicate)', b_and(reorder, dup))
            ob, ex = S.explore('import.items[%s]' % ''.join('pPro'[c] for c in combo),
                               'convert_import_items on %d nodes of shapes %s' % (k, [('path', 'a.b path', 'renamed', 'other (symbolic kind)')[c] for c in combo]),
                               body, bounds=dict(items=k, ident_chars='1 symbolic char in a..e per identifier'))
            for lab, mdl, info in ex.violations:
                found.append((lab, info))
            if ob.status.startswith('inconclusive'):
                break
    if not found:
        allw = set()
        for o in S.obls:
            allw |= set(o.witnesses)
        for w in ('actually reordered', 'flag on but kept (comment)', 'flag on but kept (duplicate)'):
            if w not in allw:
                S.inconclusive.append('vacuity: `%s` never reachable' % w)

    # ---- default off, CLI pass-through (real MIR) -----------------------------------------------------
    def body_default(ctx):
        m = S.machine(core, STD, ctx)
        d = m.call_fn(S.find_fn(core, '<Config as Default>::default'), [])
        S.absorb(m)
        ctx.must_hold(d.get('reorder_import_items') is False, 'default-is-not-off')
    ob, ex = S.explore('import.default', 'Config::default().reorder_import_items == false', body_default)
    for lab, mdl, info in ex.violations:
        found.append((lab, dict(items=[], reorder=False, passed=[])))

    def body_cli(ctx):
        C = cli.contracts()
        m = S.machine(S.bin, C, ctx)
        fl = z3.Bool('flag')
        style = Agg('StyleArgs', None, (z3.BitVec('column', 64), z3.BitVec('tab_width', 64), fl), ('column', 'tab_width', 'reorder_import_items'))
        c = m.call_fn(S.find_fn(S.bin, 'StyleArgs::to_config'), [m.heap.alloc(style)])
        S.absorb(m)
        ctx.must_hold(i_eq(c.get('reorder_import_items'), fl), 'cli-flag-not-passed-through')
    ob, ex = S.explore('import.cli-flag', 'StyleArgs::to_config passes --reorder-import-items through', body_cli)
    for lab, mdl, info in ex.violations:
        found.append((lab, dict(items=[], reorder=True, passed=[])))

    # ---- structural: the option is read nowhere else -----------------------------------------------------
    readers = []
    for name, f in core.fns.items():
        for l in f.raw_lines:
            if 'config::Config).3: bool' in l or ('Config).3: bool' in l):
                if 'clone' in name or 'fmt' in name.rsplit('::', 1)[-1] or '::eq' in name or 'hash' in name:
                    continue
                readers.append(name)
    readers = sorted(set(readers))
    extra = [r for r in readers if 'convert_import_items' not in r]
    if extra:
        S.inconclusive.append('reorder_import_items is read outside convert_import_items: %r (the claim that nothing else depends on it no longer follows)' % extra)
    S.validation['readers_of_reorder_import_items'] = readers

    # ---- gating through convert_import: a comment anywhere in the import pins the order --------------------------------
    g_found = explore_gate(S)
    for pos in sorted({i['comment_position'] for l, i in g_found}):
        infos = [i for l, i in g_found if i['comment_position'] == pos]
        w = None
        for info in infos[:6]:
            w = confirm_gate(S, info)
            if w:
                S.violation('import-reordered-despite-comment:' + pos, 'import reordering: %s' % w['what'], dict(api=w, model=info))
                break
        if not w:
            S.inconclusive.append('import: no solver model for `reordered-despite-comment:%s` reproduced natively (%r)' % (pos, infos[0]))

    # ---- "sorted" means one order of the printed items: it must not depend on blanks that printing normalises ------------
    sp_found = explore_spacing(S, 2 if S.tier == 'quick' else 3)
    for info in [i for l, i in sp_found][:8]:
        w = confirm_spacing(S, info)
        if w:
            S.violation('import-order-depends-on-source-spacing', 'import reordering: the printed items are not in one sorted order: %s' % w['what'], dict(api=w, model=info))
            break
    else:
        if sp_found:
            S.inconclusive.append('import: no solver model for `order-depends-on-source-spacing` reproduced natively (%r)' % (sp_found[0][1],))

    # ---- replay ---------------------------------------------------------------------------------------------------
    seen = set()
    for lab, info in found:
        if lab in seen:
            continue
        w = native_confirm(S, lab, info)
        if w:
            seen.add(lab)
            S.violation('import-' + lab, 'import reordering: %s: %s' % (lab, w['what']), dict(api=w, model=info))
    for lab in {l for l, _ in found} - seen:
        S.inconclusive.append('import: no solver model for `%s` reproduced natively' % lab)
    S.assumptions += [
        'the list stylist (process_iterable_impl / print_doc) is opaque; it receives the node sequence and is assumed to print items in the order received',
        'identifier texts range over 1-character strings from a..e: enough for every order / equality pattern among <= K items',
        'HashSet<&str>::insert returns false iff an equal string was inserted before; sort_by_key is a stable sort by the key (contracts)',
    ]
    # the library skeleton: every entry point builds its formatter through Typstyle::new, which must keep the configuration (the reorder flag among it),
    # and returns exactly strip(render(..)) - nothing is done to the text (and so to the literals in it) after the post-processing
    from . import libskel as _ls
    _ls.run(S, want_witness=False)
    return S.finish(level='other', explanation=EXPLANATION, trusted=['mirsym encoder', 'typst-syntax accessor contracts (ImportItemPath::name, RenamedImportItem::new_name)'])


def render_item(it):
    t = it['tag']
    txt = it['text']
    if t == 'other':
        k = it['kind']
        if k == 'LineComment':
            return None  # a line comment needs a line break; handled by block comment analogue
        if k == 'BlockComment':
            return '/* c */'
        return None
    return txt.replace(' as ', ' as ')


def native_confirm(S, lab, info):
    """rebuild import statements from the model, run the real formatter with the flag on and off, compare item orders"""
    items = []
    comment = False
    for it in info.get('items', []):
        if it['tag'] == 'other':
            if it['kind'] in ('BlockComment', 'LineComment'):
                comment = True
            continue
        items.append(it['text'])
    if lab in ('default-is-not-off', 'cli-flag-not-passed-through') or not items:
        items = ['c', 'a', 'b']
    cands = []
    for sep in (', ', ',', ' , '):
        for wrap in (('', ''), ('(', ')')):
            for trail in ('', ','):
                for cpos in ([None] if not comment else [0, 1, len(items)]):
                    parts = list(items)
                    if cpos is not None:
                        parts.insert(min(cpos, len(parts)), None)
                    body = ''
                    for i, p in enumerate(parts):
                        if p is None:
                            body += ' /* c */ '
                        else:
                            body += p
                            if any(x is not None for x in parts[i + 1:]):
                                body += sep
                    cands.append('#import "m.typ": ' + wrap[0] + body + trail + wrap[1] + '\n')
    # a few fixed shapes as well
    cands += ['#import "m.typ": c, a, b\n', '#import "m.typ": b, a as b\n', '#import "m.typ": b, /* c */ a\n', '#import "m.typ": b.c, a.d, a\n']

    def order(out):
        t = out.split(':', 1)[1] if ':' in out else ''
        t = t.replace('/* c */', ' ').replace('(', ' ').replace(')', ' ')
        return [' '.join(x.split()) for x in t.replace('\n', ' ').split(',') if x.strip()]
    for src in cands:
        if S.driver.call('erroneous', hexs(src))[1] == '1':
            continue
        src_items = order(src)
        off = S.driver.call('format', hexs(src), 80, 2, 0)
        on = S.driver.call('format', hexs(src), 80, 2, 1)
        if 'panic' in (off[0], on[0]) or 'abort' in (off[0], on[0]):
            return dict(api='Typstyle::format_content', source=src, what='panic on %s' % show(src))
        if off[0] != 'ok' or on[0] != 'ok':
            continue
        o_off, o_on = order(unhexs(off[1])), order(unhexs(on[1]))
        names = [x.split(' as ')[-1].split('.')[-1] for x in src_items]
        dup = len(set(names)) != len(names)
        has_c = '/*' in src
        if o_off != src_items:
            return dict(api='Typstyle::format_content', source=src, reorder=0, output=unhexs(off[1]), what='items reordered with the option off: %s -> %r' % (show(src), o_off))
        if sorted(o_on) != sorted(src_items):
            return dict(api='Typstyle::format_content', source=src, reorder=1, output=unhexs(on[1]), what='items are not a permutation: %s -> %r' % (show(src), o_on))
        if (has_c or dup) and o_on != src_items:
            return dict(api='Typstyle::format_content', source=src, reorder=1, output=unhexs(on[1]), what='reordered despite comment/duplicate: %s -> %r' % (show(src), o_on))
        if not has_c and not dup and o_on != sorted(src_items):
            return dict(api='Typstyle::format_content', source=src, reorder=1, output=unhexs(on[1]), what='not sorted with the option on: %s -> %r' % (show(src), o_on))
        d = S.driver.call('format_with_width', hexs(src), 80)
        if d[0] == 'ok' and order(unhexs(d[1])) != src_items:
            return dict(api='format_with_width', source=src, what='default configuration reorders import items: %s' % show(src))
    return None


COMMENT_POSITIONS = ['before-colon', 'after-colon', 'in-parens-before-items', 'between-items', 'inside-renamed-item', 'inside-item-path', 'after-items']


def explore_gate(S):
    """convert_import with the real convert_import_items: with the option on, an import that holds a comment anywhere keeps its order"""
    kt = T.KT
    core = S.core
    fn = S.find_fn(core, 'PrettyPrinter::convert_import')
    found = []
    import itertools
    sp = lambda t=' ': Node(kt.k('Space'), text=Str.lit(t))
    for pos, line, paren in itertools.product(COMMENT_POSITIONS, (False, True), (False, True)):
        if pos in ('in-parens-before-items', 'after-items') and not paren:
            continue
        if line and not paren and pos in ('between-items', 'inside-renamed-item', 'inside-item-path'):
            continue            # a line break inside bare items ends the statement

        def body(ctx, pos=pos, line=line, paren=paren):
            rec = {}

            def process(m, a, ci):
                rec['seq'] = drain(m, get_iter(m, a[2]))
                return Opaque('stylist', ())
            m = S.machine(core, STD, ctx, overrides={'process_iterable_impl': process, 'print_doc': (lambda mm, a, ci: D.opaque_doc('items')),
                                                      "ListStylist::<'_>::new": (lambda mm, a, ci: Opaque('stylist0', ())), 'with_fold_style': (lambda mm, a, ci: a[0]),
                                                      'convert_expr': (lambda mm, a, ci: D.opaque_doc('source'))})
            cm = Node(kt.k('LineComment'), text=Str.lit('//c')) if line else Node(kt.k('BlockComment'), text=Str.lit('/*c*/'))
            after = sp('\n') if line else sp()

            def ident(name):
                c = z3.BitVec(name, 32)
                ctx.assume(z3.And(z3.UGE(c, ord('a')), z3.ULE(c, ord('e'))))
                return Node(kt.k('Ident'), text=Str((c,)))
            # first item: renamed `x as y` (a comment may sit inside it); second: a path `p.q` (a comment may sit inside it)
            i1_kids = [Node(kt.k('ImportItemPath'), children=[ident('n0')]), sp()]
            if pos == 'inside-renamed-item':
                i1_kids += [cm, after]
            i1_kids += [Node(kt.k('As'), text=Str.lit('as')), sp(), ident('n0_new')]
            item1 = Node(kt.k('RenamedImportItem'), children=i1_kids)
            i2_kids = [ident('n1')]
            if pos == 'inside-item-path':
                i2_kids += [sp(), cm, after]
            i2_kids += [Node(kt.k('Dot'), text=Str.lit('.')), ident('n1_b')]
            item2 = Node(kt.k('ImportItemPath'), children=i2_kids)
            between = [Node(kt.k('Comma'), text=Str.lit(',')), sp()]
            if pos == 'between-items':
                between += [cm, after]
            items = Node(kt.k('ImportItems'), children=[item1] + between + [item2])
            kids = [Node(kt.k('Import'), text=Str.lit('import')), sp(), Node(kt.k('Str'), text=Str.lit('"m"'))]
            if pos == 'before-colon':
                kids += [sp(), cm, after]
            kids += [Node(kt.k('Colon'), text=Str.lit(':')), sp()]
            if pos == 'after-colon':
                kids += [cm, after]
            if paren:
                kids.append(Node(kt.k('LeftParen'), text=Str.lit('(')))
                if pos == 'in-parens-before-items':
                    kids += [cm, after]
            kids.append(items)
            if paren:
                if pos == 'after-items':
                    kids += [sp(), cm, after]
                kids.append(Node(kt.k('RightParen'), text=Str.lit(')')))
            node = Node(kt.k('ModuleImport'), children=kids)
            pr, cfg = pp.printer(m)
            reorder = cfg.get('reorder_import_items')

            def describe(mdl):
                return dict(comment_position=pos, line_comment=line, parenthesised=paren, reorder=model_bool(mdl, reorder),
                            item1='%s as %s' % (item1.children[0].into_text().concrete(mdl), item1.children[-1].text.concrete(mdl)),
                            item2='%s.%s' % (i2_kids[0].text.concrete(mdl), i2_kids[-1].text.concrete(mdl)))
            try:
                m.call_fn(fn, [pr, pp.context(), T.Ast('ModuleImport', node)])
            except Panic as p:
                S.absorb(m)
                ctx.must_hold(False, 'gate-panic', lambda mdl: dict(describe(mdl), panic=p.msg))
                return
            S.absorb(m)
            seq = [m.load(x) if isinstance(x, Ref) else x for x in rec.get('seq', [])]
            order = [n for n in seq if n is item1 or n is item2]
            ctx.must_hold(order == [item1, item2], 'reordered-despite-comment', describe)
            ctx.witness('import with comment converted')
        ob, ex = S.explore('import.gate[%s,%s,%s]' % (pos, 'line' if line else 'block', 'paren' if paren else 'bare'),
                           'convert_import (real convert_import_items) on `import "m": x as y, p.q` with a %s comment %s%s: the items keep their order for '
                           'every identifier text and both settings of the option' % ('line' if line else 'block', pos, ', parenthesised' if paren else ''), body)
        for lab, mdl, info in ex.violations:
            found.append((lab, info))
    return found


def confirm_gate(S, info):
    cm = '// c\n' if info['line_comment'] else '/* c */ '
    pos = info['comment_position']
    a, b = info['item1'].split(' as ')
    i1 = '%s %sas %s' % (a, cm if pos == 'inside-renamed-item' else '', b)
    p, q = info['item2'].split('.')
    i2 = '%s%s.%s' % (p, (' ' + cm) if pos == 'inside-item-path' else '', q)
    items = i1 + ', ' + (cm if pos == 'between-items' else '') + i2
    if info['parenthesised']:
        items = '(' + (cm if pos == 'in-parens-before-items' else '') + items + ((' ' + cm) if pos == 'after-items' else '') + ')'
    src = '#import "m.typ"' + ((' ' + cm) if pos == 'before-colon' else '') + ': ' + (cm if pos == 'after-colon' else '') + items + '\n'
    if S.driver.call('erroneous', hexs(src))[1] == '1':
        return None
    r = S.driver.call('format', hexs(src), 80, 2, 1)
    if r[0] != 'ok':
        return None
    out = unhexs(r[1])
    ia, ib = out.find(a + ' '), out.find(p + '.')
    if ia < 0 or ib < 0:
        ia, ib = out.find(a), out.rfind(p)
    if ia > ib:
        return dict(api='Typstyle::format_content with reorder_import_items', source=src, output=out,
                    what='an import holding a comment (%s) is reordered: %s -> %s' % (pos, show(src), show(out)))
    return None


def explore_spacing(S, K):
    """C03 mechanism: with reordering on, the order chosen must not depend on the source's spacing inside items,
    otherwise the formatted text (normalised spacing) is sorted differently by a second pass.
    Source spacing: every blank inside an item is an arbitrary White_Space scalar (tab, NBSP, line break, ...), formatted
    spacing is what the printer emits (one space around `as`, none around dots). Leading identifiers have one or two
    characters, the second from [-_0-9a-z] so that it can sort on either side of a blank."""
    from mirsym.models_std import is_ws
    kt = T.KT
    core = S.core
    fn = S.find_fn(core, 'PrettyPrinter::convert_import_items')
    fn.ensure_parsed()
    K_PATH, K_REN, K_ID = kt.k('ImportItemPath'), kt.k('RenamedImportItem'), kt.k('Ident')
    found = []
    import itertools

    def ident(ctx, name):
        c = z3.BitVec(name, 32)
        ctx.assume(z3.And(z3.UGE(c, ord('a')), z3.ULE(c, ord('c'))))
        return c

    def cont(ctx, name):
        c = z3.BitVec(name, 32)
        ctx.assume(z3.Or(c == ord('-'), c == ord('_'), z3.And(z3.UGE(c, ord('0')), z3.ULE(c, ord('9'))), z3.And(z3.UGE(c, ord('a')), z3.ULE(c, ord('z')))))
        return c

    def blank(ctx, name):
        c = z3.BitVec(name, 32)
        ctx.assume(is_ws(c))
        return c

    def build(chars, shape, wide, long, ws):
        """item node from identifier characters; `wide`: source spacing vs formatted spacing"""
        head = Str((chars[0], chars[2])) if long else Str((chars[0],))
        if shape == 'path1':
            return Node(K_PATH, children=[Node(K_ID, text=head)])
        if shape == 'path2':
            kids = [Node(K_ID, text=head)]
            if wide:
                kids.append(Node(kt.k('Space'), text=Str((ws[0],))))
            kids.append(Node(kt.k('Dot'), text=Str.lit('.')))
            if wide:
                kids.append(Node(kt.k('Space'), text=Str((ws[1],))))
            kids.append(Node(K_ID, text=Str((chars[1],))))
            return Node(K_PATH, children=kids)
        p = Node(K_PATH, children=[Node(K_ID, text=head)])
        sp1 = Str((ws[0],)) if wide else Str.lit(' ')
        sp2 = Str((ws[1],)) if wide else Str.lit(' ')
        return Node(K_REN, children=[p, Node(kt.k('Space'), text=sp1), Node(kt.k('As'), text=Str.lit('as')), Node(kt.k('Space'), text=sp2), Node(K_ID, text=Str((chars[1],)))])

    for k in range(2, K + 1):
        for shapes in itertools.product(('path1', 'path2', 'renamed'), repeat=k):
            if all(s == 'path1' for s in shapes):
                continue
            def body(ctx, shapes=shapes):
                chars = [(ident(ctx, 'n%d_a' % i), ident(ctx, 'n%d_b' % i), cont(ctx, 'n%d_c' % i)) for i in range(len(shapes))]
                blanks = [(blank(ctx, 'ws%d_0' % i), blank(ctx, 'ws%d_1' % i)) for i in range(len(shapes))]
                # each item independently has source spacing or formatted spacing in the first pass, and a short or long head
                wides = [ctx.branch(z3.Bool('wide%d' % i)) if shapes[i] != 'path1' else False for i in range(len(shapes))]
                longs = [ctx.branch(z3.Bool('long%d' % i)) for i in range(len(shapes))]
                orders = []
                for first_pass in (True, False):
                    rec = {}

                    def process(m, a, ci):
                        rec['seq'] = drain(m, get_iter(m, a[2]))
                        return Opaque('stylist', ())
                    m = S.machine(core, STD, ctx, overrides={'process_iterable_impl': process, 'print_doc': (lambda mm, a, ci: D.opaque_doc('x')),
                                                              "ListStylist::<'_>::new": (lambda mm, a, ci: Opaque('stylist0', ())), 'with_fold_style': (lambda mm, a, ci: a[0])})
                    nodes = [build(chars[i], shapes[i], wides[i] and first_pass, longs[i], blanks[i]) for i in range(len(shapes))]
                    pr, cfg = pp.printer(m, cfg=Agg('Config', None, (2, 80, 2, True), pp.CFG_NAMES))
                    m.call_fn(fn, [pr, pp.context(), Vec(nodes)] + ([True] if len(fn.params) >= 4 else []))
                    S.absorb(m)
                    seq = [m.load(x) if isinstance(x, Ref) else x for x in rec['seq']]
                    orders.append([nodes.index(n) for n in seq])

                def describe(mdl):
                    return dict(shapes=list(shapes), wide=list(wides), long=list(longs),
                                names=[(chr(model_int(mdl, a)), chr(model_int(mdl, b)), chr(model_int(mdl, c))) for a, b, c in chars],
                                blanks=[(model_int(mdl, x), model_int(mdl, y)) for x, y in blanks],
                                order_source_spacing=orders[0], order_formatted_spacing=orders[1])
                ctx.must_hold(orders[0] == orders[1], 'C03:import-order-depends-on-source-spacing', describe)
                if orders[0] != list(range(len(shapes))):
                    ctx.witness('reordered')
            ob, ex = S.explore('import.spacing[%s]' % ','.join(shapes), 'order of reordered import items is the same for source spacing and formatted spacing (%r)' % (shapes,),
                               body, bounds=dict(items=k))
            for lab, mdl, info in ex.violations:
                found.append((lab, info))
    return found


def confirm_spacing(S, info):
    n = len(info['shapes'])
    items = []
    wides = info.get('wide') or [True] * n
    longs = info.get('long') or [False] * n
    blanks = info.get('blanks') or [(0x20, 0x20)] * n
    for shape, nm, wide, long, ws in zip(info['shapes'], info['names'], wides, longs, blanks):
        a, b = nm[0], nm[1]
        head = a + (nm[2] if long and len(nm) > 2 else '')
        w0, w1 = (chr(ws[0]), chr(ws[1])) if wide else ('', '')
        if shape == 'path1':
            items.append(head)
        elif shape == 'path2':
            items.append('%s%s.%s%s' % (head, w0, w1, b))
        else:
            items.append('%s%sas%s%s' % (head, w0 or ' ', w1 or ' ', b))
    # items in parentheses: blanks may be line breaks there
    for src in ('#import "m.typ": ' + ', '.join(items) + '\n', '#import "m.typ": (' + ', '.join(items) + ')\n'):
        if S.driver.call('erroneous', hexs(src))[1] == '1':
            continue
        a = S.driver.call('format', hexs(src), 80, 2, 1)
        if a[0] != 'ok':
            continue
        b = S.driver.call('format', a[1], 80, 2, 1)
        if b[0] != 'ok' or b[1] != a[1]:
            return dict(api='format(format(x)) with reorder_import_items', source=src, first=unhexs(a[1]), second=unhexs(b[1]) if b[0] == 'ok' else b[0],
                        what='with import reordering on, %s formats to %s and a second pass gives %s' % (show(src), show(unhexs(a[1])), show(unhexs(b[1]) if b[0] == 'ok' else b[0])))
    return None
