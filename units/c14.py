"""C14 — check mode is read-only and its exit status is truthful."""
from . import cli, clinative

EXPLANATION = (
    "Bounded symbolic execution (MIR->SMT, z3) of the real CLI code - main, execute, format_one, format_many (+closure), format_all "
    "(+closures), format_debug, get_input, write_back, is_hidden, num_files, to_config, FormatStatus::bitor_assign, "
    "CliResults::report - against a symbolic file-system world: every flag combination clap admits, stdin / file lists of up to K "
    "files / format-all over every directory tree of up to K entries, each entry file/dir/other, hidden or not, any extension, "
    "readable or not, well-formed or erroneous, formatted or not, write failing or not. z3 decides on every path that with --check "
    "nothing is written, no source or formatted text reaches stdout and the exit status is 1 exactly when an eligible readable "
    "well-formed input differs from its formatted form or an eligible input cannot be read. The formatter itself is the "
    "uninterpreted function F(content) with Err iff erroneous(content).")


def run(S):
    K = 2 if S.tier == 'quick' else 3
    walkK = 3 if S.tier == 'quick' else 4
    st = cli.structural(S)
    found = cli.explore(S, ('C14',), K, walkK)
    for k, v in st.items():
        if not k.startswith('_') and not v:
            S.inconclusive.append('structural obligation failed: %s %r' % (k, st.get('_mutators')))
    cli.require(S, ['C14 check mode with a changed file', 'C14 check mode clean', 'C14 check mode io error', 'walk: hidden root directory', 'walk: eligible unreadable file'], found)
    cli.report(S, 'C14', found)
    # the property stated on the real binary for a fixed family of worlds (contents as real text: byte order mark, CR LF, bystander files)
    clinative.report(S, 'C14')
    S.assumptions += cli.ASSUMPTIONS
    return S.finish(level='other', explanation=EXPLANATION, trusted=cli.TRUSTED)
