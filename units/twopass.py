"""Two-pass fixed point of list constructs (C03 mechanism), nothing opaque.

A call `f( .. )` / an array `( .. )` with identifier items, commas, block comments and whitespace tokens whose characters are symbolic
(any blank or line break) is converted by the real printer (AttrStore::new + convert_expr, every converter from its MIR).  The atoms of
the result in one of the two extreme layouts (every group broken = width 0; flat wherever possible = unlimited width) are tokens 1-1, so
they are read back as the child sequence a second pass would see, and converted again.  Both passes must give the same token / blank /
line-break sequence: the layout decisions that depend on the source's own layout (multiline flavour, kept blank lines, attached comments)
must be reproduced by the output they generate.
"""
import itertools
import re
import z3

from mirsym.values import *
from mirsym.explore import Panic
from mirsym import models_typst as T
from mirsym import models_doc as D
from mirsym.models_std import STD, Str, is_ws, valid_scalar
from mirsym.models_typst import Node, Ast
from mirsym.session import hexs, unhexs
from . import pp
from .common import *
from .lists import render, show_atoms

GAPS = [(), ('sp',), ('blk',), ('sp', 'blk'), ('blk', 'sp'), ('sp', 'blk', 'sp')]
WS_ALTS = [' ', '\n', '\n\n', '\n\n\n\n']


def sequences(n_items, trailing_comma_options=(False, True), GAPS=GAPS, last_kinds=('item',)):
    """token categories between the delimiters: items separated by commas, a gap (blanks / block comment) at every position"""
    if n_items == 0:
        for g in GAPS:
            yield list(g)
        return
    npos = 2 * n_items            # before each item, before each comma / the close
    for tc in trailing_comma_options:
        for gaps in itertools.product(GAPS, repeat=npos + (1 if tc else 0)):
            seq = []
            gi = 0
            for i in range(n_items):
                seq += list(gaps[gi]); gi += 1
                seq.append('item')
                seq += list(gaps[gi]); gi += 1
                if i + 1 < n_items:
                    seq.append('comma')
                elif tc:
                    seq.append('comma')
                    seq += list(gaps[gi]); gi += 1
            # whitespace tokens are never adjacent
            if any(a in ('sp', 'nlsp') and b in ('sp', 'nlsp') for a, b in zip(seq, seq[1:])):
                continue
            last = max(q for q, c in enumerate(seq) if c == 'item')
            for lk in last_kinds:
                yield seq[:last] + [lk] + seq[last + 1:]


def text_of(at):
    """atoms -> list of tokens: ('w', word) / ('s',) one blank / ('nl',)"""
    out = []
    for a in at:
        if a == ('nl',):
            out.append(('nl',))
        elif a[0] == 't':
            if not a[1].is_concrete():
                return None
            s = a[1].concrete()
            for part in re.findall(r'//[^\n]*|/\*.*?\*/|[A-Za-z_][A-Za-z0-9_]*| |.', s, flags=re.S):
                out.append(('s',) if part == ' ' else ('w', part))
        else:
            return None
    return out


def show_tokens(toks):
    return ''.join('\n' if t == ('nl',) else ' ' if t == ('s',) else t[1] for t in toks)


CONSTRUCTS = {
    # name: (text before the list, text after it, kind of the list node)
    'call': ('f', '', 'Args'),
    'array': ('', '', 'Array'),
    'dict': ('', '', 'Dict'),
    'params': ('', ' => x', 'Params'),
    'destruct': ('let ', ' = x', 'Destructuring'),
}


def wrap(kt, construct, list_kids):
    """the expression node of a construct around the children of its list node"""
    lst = Node(kt.k(CONSTRUCTS[construct][2]), children=list_kids)
    sp = lambda: Node(kt.k('Space'), text=Str.lit(' '))
    if construct == 'call':
        return Node(kt.k('FuncCall'), children=[Node(kt.k('Ident'), text=Str.lit('f')), lst])
    if construct == 'params':
        return Node(kt.k('Closure'), children=[lst, sp(), Node(kt.k('Arrow'), text=Str.lit('=>')), sp(), Node(kt.k('Ident'), text=Str.lit('x'))])
    if construct == 'destruct':
        return Node(kt.k('LetBinding'), children=[Node(kt.k('Let'), text=Str.lit('let')), sp(), lst, sp(), Node(kt.k('Eq'), text=Str.lit('=')), sp(),
                                                  Node(kt.k('Ident'), text=Str.lit('x'))])
    return lst


def cblock_node(kt, names, one_line=True, semi=True, edge=' '):
    """`{ a; b }` as the parser builds it"""
    sp = lambda t: Node(kt.k('Space'), text=Str.lit(t))
    code = []
    for q, nm in enumerate(names):
        if q:
            if semi:
                code.append(Node(kt.k('Semicolon'), text=Str.lit(';')))
            code.append(sp(' ' if one_line else '\n'))
        code.append(Node(kt.k('Ident'), text=Str.lit(nm)))
    return Node(kt.k('CodeBlock'), children=[Node(kt.k('LeftBrace'), text=Str.lit('{')), sp(edge), Node(kt.k('Code'), children=code), sp(edge),
                                             Node(kt.k('RightBrace'), text=Str.lit('}'))])


def item_node(kt, construct, i):
    if construct == 'dict':
        return Node(kt.k('Named'), children=[Node(kt.k('Ident'), text=Str.lit('k%d' % i)), Node(kt.k('Colon'), text=Str.lit(':')),
                                             Node(kt.k('Space'), text=Str.lit(' ')), Node(kt.k('Ident'), text=Str.lit('v%d' % i))])
    return Node(kt.k('Ident'), text=Str.lit('i%d' % i))


def relex(toks, kt, construct):
    """tokens of the printed construct -> the tree a second pass would parse (None: the text around the list is not the expected one)"""
    pre, post, _ = CONSTRUCTS[construct]
    words = list(toks)
    opens = [q for q, t in enumerate(words) if t == ('w', '(')]
    closes = [q for q, t in enumerate(words) if t == ('w', ')')]
    if opens and closes:
        a, b = opens[0], closes[-1]
        if show_tokens(words[:a]) != pre or show_tokens(words[b + 1:]) != post:
            return None
        inner = words[a + 1:b]
        delim = True
    else:
        # delimiters omitted (a single closure parameter)
        text = show_tokens(words)
        if not (text.startswith(pre) and text.endswith(post)) or construct != 'params':
            return None
        inner = words[:len(words) - len(text_of_str(post))]
        delim = False
    kids = [Node(kt.k('LeftParen'), text=Str.lit('('))] if delim else []
    ws = ''
    q = 0
    while q < len(inner):
        t = inner[q]
        q += 1
        if t in (('s',), ('nl',)):
            ws += ' ' if t == ('s',) else '\n'
            continue
        if ws:
            kids.append(Node(kt.k('Space'), text=Str.lit(ws)))
            ws = ''
        w = t[1]
        if w == ',':
            kids.append(Node(kt.k('Comma'), text=Str.lit(',')))
        elif w.startswith('/*'):
            kids.append(Node(kt.k('BlockComment'), text=Str.lit(w)))
        elif w.startswith('//'):
            kids.append(Node(kt.k('LineComment'), text=Str.lit(w)))
        elif construct == 'dict' and re.match(r'^k\d+$', w):
            # `kN: vN`
            named = [Node(kt.k('Ident'), text=Str.lit(w))]
            ws2 = ''
            state = 'colon'
            while q < len(inner):
                t2 = inner[q]
                q += 1
                if t2 in (('s',), ('nl',)):
                    ws2 += ' ' if t2 == ('s',) else '\n'
                    continue
                if ws2:
                    named.append(Node(kt.k('Space'), text=Str.lit(ws2)))
                    ws2 = ''
                if state == 'colon' and t2 == ('w', ':'):
                    named.append(Node(kt.k('Colon'), text=Str.lit(':')))
                    state = 'value'
                elif state == 'value' and re.match(r'^v\d+$', t2[1]):
                    named.append(Node(kt.k('Ident'), text=Str.lit(t2[1])))
                    state = 'done'
                    break
                elif t2[1].startswith('/*'):
                    named.append(Node(kt.k('BlockComment'), text=Str.lit(t2[1])))
                else:
                    return None
            if state != 'done':
                return None
            kids.append(Node(kt.k('Named'), children=named))
        elif w == '{':
            # a code block: `{` [ws] stmt ((`;` | ws) stmt)* [ws] `}`
            blk = [Node(kt.k('LeftBrace'), text=Str.lit('{'))]
            code = []
            ws2 = ''
            closed = False
            while q < len(inner):
                t2 = inner[q]
                q += 1
                if t2 in (('s',), ('nl',)):
                    ws2 += ' ' if t2 == ('s',) else '\n'
                    continue
                if t2 == ('w', '}'):
                    closed = True
                    break
                if ws2:
                    (code if code else blk).append(Node(kt.k('Space'), text=Str.lit(ws2)))
                    ws2 = ''
                if t2 == ('w', ';'):
                    code.append(Node(kt.k('Semicolon'), text=Str.lit(';')))
                elif re.match(r'^[A-Za-z_]', t2[1]):
                    code.append(Node(kt.k('Ident'), text=Str.lit(t2[1])))
                else:
                    return None
            if not closed or not code:
                return None
            blk.append(Node(kt.k('Code'), children=code))
            if ws2:
                blk.append(Node(kt.k('Space'), text=Str.lit(ws2)))
            blk.append(Node(kt.k('RightBrace'), text=Str.lit('}')))
            kids.append(Node(kt.k('CodeBlock'), children=blk))
        elif re.match(r'^[A-Za-z_]', w):
            node = Node(kt.k('Ident'), text=Str.lit(w))
            # a chain of binary operators: operand (gap op gap operand)*, comments between them belong to the Binary node
            while True:
                r = q
                while r < len(inner) and is_gap(inner[r]):
                    r += 1
                if r < len(inner) and inner[r] == ('w', '.'):
                    # field access / method call: target gap `.` gap name [`(` `)`]
                    g1 = inner[q:r]
                    r += 1
                    r2 = r
                    while r2 < len(inner) and is_gap(inner[r2]):
                        r2 += 1
                    if not (r2 < len(inner) and inner[r2][0] == 'w' and re.match(r'^[A-Za-z_]', inner[r2][1])):
                        return None
                    g2 = inner[r:r2]
                    node = Node(kt.k('FieldAccess'), children=[node] + gap_nodes(kt, g1) + [Node(kt.k('Dot'), text=Str.lit('.'))] + gap_nodes(kt, g2) +
                                [Node(kt.k('Ident'), text=Str.lit(inner[r2][1]))])
                    q = r2 + 1
                    if q + 1 < len(inner) + 0 and inner[q] == ('w', '(') and q + 1 < len(inner) and inner[q + 1] == ('w', ')'):
                        node = Node(kt.k('FuncCall'), children=[node, Node(kt.k('Args'), children=[Node(kt.k('LeftParen'), text=Str.lit('(')),
                                                                                                    Node(kt.k('RightParen'), text=Str.lit(')'))])])
                        q += 2
                    continue
                if not (r < len(inner) and inner[r] in (('w', '+'), ('w', '-'))):
                    break
                g1 = inner[q:r]
                op = inner[r][1]
                r += 1
                r2 = r
                while r2 < len(inner) and is_gap(inner[r2]):
                    r2 += 1
                if not (r2 < len(inner) and inner[r2][0] == 'w' and re.match(r'^[A-Za-z_]', inner[r2][1])):
                    return None
                g2 = inner[r:r2]
                rhs = Node(kt.k('Ident'), text=Str.lit(inner[r2][1]))
                node = Node(kt.k('Binary'), children=[node] + gap_nodes(kt, g1) + [Node(kt.k('Plus' if op == '+' else 'Minus'), text=Str.lit(op))] + gap_nodes(kt, g2) + [rhs])
                q = r2 + 1
            kids.append(node)
        else:
            return None
    if ws:
        kids.append(Node(kt.k('Space'), text=Str.lit(ws)))
    if delim:
        kids.append(Node(kt.k('RightParen'), text=Str.lit(')')))
    return wrap(kt, construct, kids)


def is_gap(t):
    return t in (('s',), ('nl',)) or (t[0] == 'w' and t[1].startswith('/*'))


def gap_nodes(kt, toks):
    out = []
    ws = ''
    for t in toks:
        if t in (('s',), ('nl',)):
            ws += ' ' if t == ('s',) else '\n'
            continue
        if ws:
            out.append(Node(kt.k('Space'), text=Str.lit(ws)))
            ws = ''
        out.append(Node(kt.k('BlockComment'), text=Str.lit(t[1])))
    if ws:
        out.append(Node(kt.k('Space'), text=Str.lit(ws)))
    return out


def text_of_str(s):
    return [('s',) if part == ' ' else ('w', part) for part in re.findall(r'[A-Za-z_][A-Za-z0-9_]*| |.', s)]


def explore(S, max_items=2, constructs=('call', 'array'), gaps=GAPS, ws_alts=WS_ALTS, max_spaces=6, min_items=0, last_kinds=('item',)):
    kt = T.KT
    core = S.core
    f_attr = S.find_fn(core, 'AttrStore::new')
    f_expr = S.find_fn(core, 'PrettyPrinter::convert_expr')
    found = []
    tasks = []
    for construct in constructs:
        for n in range(min_items, max_items + 1):
            for seq in sequences(n, GAPS=gaps, last_kinds=last_kinds if construct in ('call', 'array') else ('item',)):
                if seq.count('sp') + seq.count('nlsp') > max_spaces:
                    continue
                if construct in ('array', 'destruct') and n == 1 and seq.count('comma') == 0:
                    continue            # `(a)` is a parenthesised expression / pattern, not a list
                if construct in ('array', 'dict') and n == 0:
                    continue            # `()` is an empty array; an empty dictionary is `(:)`

                def body(ctx, seq=seq, construct=construct):
                    m = S.machine(core, STD, ctx)
                    m.max_depth = 200
                    kids = [Node(kt.k('LeftParen'), text=Str.lit('('))]
                    spaces = []
                    for i, c in enumerate(seq):
                        if c == 'item':
                            kids.append(item_node(kt, construct, i))
                        elif c == 'cblock2':
                            kids.append(cblock_node(kt, ['a%d' % i, 'b%d' % i]))
                        elif c == 'cblock1':
                            kids.append(cblock_node(kt, ['a%d' % i]))
                        elif c == 'comma':
                            kids.append(Node(kt.k('Comma'), text=Str.lit(',')))
                        elif c == 'blk':
                            kids.append(Node(kt.k('BlockComment'), text=Str.lit('/*c%d*/' % i)))
                        elif c == 'lc':
                            kids.append(Node(kt.k('LineComment'), text=Str.lit('//c%d' % i)))
                        elif c == 'nlsp':
                            # the whitespace that ends a line comment: starts with a line break
                            nl_alts = [a for a in ws_alts if a.startswith('\n')] or ['\n']
                            sel = z3.Int('ws%d' % i)
                            alt = nl_alts[ctx.choose([sel == q for q in range(len(nl_alts))])]
                            nd = Node(kt.k('Space'), text=Str.lit(alt))
                            spaces.append((i, nd))
                            kids.append(nd)
                        else:
                            # a blank, or 1 / 2 / 4 line feeds (the classes the printer distinguishes: no break, break, blank lines below /
                            # above the cap); one path per alternative.  Other blank characters are decided in the C08 / C09 units.
                            sel = z3.Int('ws%d' % i)
                            alt = ws_alts[ctx.choose([sel == q for q in range(len(ws_alts))])]
                            nd = Node(kt.k('Space'), text=Str.lit(alt))
                            spaces.append((i, nd))
                            kids.append(nd)
                    kids.append(Node(kt.k('RightParen'), text=Str.lit(')')))
                    root = wrap(kt, construct, kids)
                    cfg = Agg('Config', None, (2, z3.BitVec('cfg_width', 64), 2, False), pp.CFG_NAMES)
                    c0_ = pp.context(mode=1)        # code mode (embedded after a hash); break suppression symbolic

                    def describe(mdl):
                        return dict(construct=construct, tokens=list(seq), spaces={str(i): nd.text.concrete() for i, nd in spaces},
                                    suppressed=model_bool(mdl, c0_.get('break_suppressed')))

                    def convert(node):
                        attrs = m.call_fn(f_attr, [node])
                        pr, _ = pp.printer(m, cfg=cfg, attrs=attrs)
                        return m.call_fn(f_expr, [pr, c0_, T.make_cast(m, node, 'Expr')])
                    try:
                        d1 = convert(root)
                    except Panic as p:
                        S.absorb(m)
                        ctx.must_hold(False, 'C05:list-construct-panic', lambda mdl: dict(describe(mdl), panic=p.msg))
                        return
                    for mode, pf in (('broken', False), ('flat-where-possible', True)):
                        render.prefer_flat = pf
                        at1 = []
                        render(d1, False, at1)
                        t1 = text_of(at1)
                        if t1 is None:
                            continue
                        root2 = relex(t1, kt, construct)
                        if root2 is None:
                            ctx.witness('output not read back (%s)' % mode)     # text around the list laid out differently: not decided here
                            continue
                        try:
                            d2 = convert(root2)
                        except Panic as p:
                            ctx.must_hold(False, 'C05:list-construct-panic', lambda mdl, t1=t1: dict(describe(mdl), second_pass_input=show_tokens(t1), panic=p.msg))
                            continue
                        render.prefer_flat = pf
                        at2 = []
                        render(d2, False, at2)
                        t2 = text_of(at2)
                        ctx.must_hold(t2 == t1, 'C03:list-construct-layout-is-not-a-fixed-point',
                                      lambda mdl, t1=t1, t2=t2, mode=mode: dict(describe(mdl), layout=mode, first_pass=show_tokens(t1), second_pass=show_tokens(t2 or [])))
                        ctx.witness('second pass run (%s)' % mode)
                    S.absorb(m)
                tasks.append(('twopass.%s[%s]' % (construct, ','.join(seq)), 'two passes of the real printer over %s with children %r, blanks / line breaks symbolic' % (
                    '`%s(..)%s`' % CONSTRUCTS[construct][:2], seq), body, dict(items=n)))
    for ob, viol in S.explore_batch(tasks):
        for lab, mdl, info in viol:
            found.append((lab, info))
    return found


def source_of(info):
    s = ''
    for i, c in enumerate(info['tokens']):
        if c == 'item':
            s += ('k%d: v%d' % (i, i)) if info['construct'] == 'dict' else 'i%d' % i
        elif c == 'cblock2':
            s += '{ a%d; b%d }' % (i, i)
        elif c == 'cblock1':
            s += '{ a%d }' % i
        elif c == 'comma':
            s += ','
        elif c == 'blk':
            s += '/*c%d*/' % i
        elif c == 'lc':
            s += '//c%d' % i
        else:
            s += info['spaces'].get(str(i), ' ')
    pre, post, _ = CONSTRUCTS[info['construct']]
    body = pre + '(' + s + ')' + post
    return '#' + body if info['construct'] not in ('params',) else '#(' + body + ')'


def confirm(S, info):
    body = (content_source(info) if info.get('construct') == 'content' else codeblock_source(info) if info.get('construct') == 'codeblock' else binary_source(info) if info.get('binary')
            else equation_source(info) if info.get('construct') == 'equation' else dot_source(info) if info.get('dotchain') else source_of(info))
    for src in ([body + '\n'] if not info.get('suppressed') else ['text ' + body + ' more\n']):
        if S.driver.call('erroneous', hexs(src))[1] == '1':
            continue
        for w in ((0,) if info.get('layout') == 'broken' else (1000000,)) + (80, 20):
            a = S.driver.call('format', hexs(src), w, 2, 0)
            if a[0] != 'ok':
                continue
            b = S.driver.call('format', a[1], w, 2, 0)
            if b[0] != 'ok' or b[1] != a[1]:
                return dict(api='format(format(x))', source=src, width=w, first=unhexs(a[1]), second=unhexs(b[1]) if b[0] == 'ok' else b[0],
                            what='format is not idempotent on %s (width %d): %s then %s' % (show(src), w, show(unhexs(a[1])), show(unhexs(b[1]) if b[0] == 'ok' else b[0])))
    return None


def role_of(info):
    """class of a fixed-point finding, by what differs between the passes"""
    a, b = info.get('first_pass', ''), info.get('second_pass', '')
    if a.count('\n\n') != b.count('\n\n'):
        return 'blank-lines'
    if a.count('\n') != b.count('\n'):
        return 'line-breaks'
    if a.replace(' ', '') == b.replace(' ', ''):
        return 'blanks-around-comment' if '/*' in a else 'blanks'
    return 'tokens'


def report(S, prop, found):
    groups = {}
    for lab, info in found:
        if lab.startswith(prop + ':'):
            groups.setdefault((lab, role_of(info)), []).append(info)
    for (lab, role), infos in sorted(groups.items()):
        hit = None
        for info in sorted(infos, key=lambda i: len(i.get('tokens', i.get('atoms', []))))[:10]:
            w = confirm(S, info)
            if w:
                hit = (info, w)
                break
        key = '%s:%s' % (lab, role)
        if hit:
            S.violation(key, '%s: %s' % (key, hit[1]['what']), dict(api=hit[1], model=hit[0]))
        else:
            S.inconclusive.append('%s: no solver model reproduced natively (%r)' % (key, infos[0]))


# ---------------------------------------------------------------------------------------------------------------
# content blocks: `f[ .. ]` with words, embedded code and blanks / line breaks / paragraph breaks

M_ATOMS = ['w', 'hx', 'hb']          # a word, `#x`, `#{a; b}`
M_GAPS = ['', ' ', '\n', '\n\n']     # nothing, blank, line break, paragraph break


def markup_sequences(n_atoms, atoms=M_ATOMS, gaps=M_GAPS):
    """atoms separated by gaps, with a gap at both ends; lexically sane (no two words / `#x` + word glued together)"""
    for ats in itertools.product(atoms, repeat=n_atoms):
        for gs in itertools.product(gaps, repeat=n_atoms + 1):
            ok = True
            for i in range(1, n_atoms):
                if gs[i] == '' and ats[i] == 'w' and ats[i - 1] in ('w', 'hx'):
                    ok = False           # `ab` is one word, `#xw` one identifier
                if gs[i] == '' and ats[i - 1] == 'hx' and ats[i] in ('hx', 'hb'):
                    pass                 # `#x#y` is fine
            if gs[0] == '\n\n' or gs[-1] == '\n\n':
                ok = False               # a paragraph break at the edge is a plain line break for the boundary rules; keep the space small
            if ok:
                yield list(ats), list(gs)


def markup_nodes(kt, ats, gs):
    kids = []

    def gap(g):
        if g == '\n\n':
            kids.append(Node(kt.k('Parbreak'), text=Str.lit(g)))
        elif g:
            kids.append(Node(kt.k('Space'), text=Str.lit(g)))
    gap(gs[0])
    for i, a in enumerate(ats):
        if a == 'w':
            kids.append(Node(kt.k('Text'), text=Str.lit('w%d' % i)))
        elif a == 'hx':
            kids += [Node(kt.k('Hash'), text=Str.lit('#')), Node(kt.k('Ident'), text=Str.lit('x%d' % i))]
        else:
            kids += [Node(kt.k('Hash'), text=Str.lit('#')), cblock_node(kt, ['a%d' % i, 'b%d' % i])]
        gap(gs[i + 1])
    return kids


def content_call(kt, kids):
    cb = Node(kt.k('ContentBlock'), children=[Node(kt.k('LeftBracket'), text=Str.lit('[')), Node(kt.k('Markup'), children=kids),
                                              Node(kt.k('RightBracket'), text=Str.lit(']'))])
    return Node(kt.k('FuncCall'), children=[Node(kt.k('Ident'), text=Str.lit('f')), Node(kt.k('Args'), children=[cb])])


def relex_content(toks, kt):
    """tokens of `f[ .. ]` -> tree of the second pass"""
    if len(toks) < 3 or toks[0] != ('w', 'f') or toks[1] != ('w', '[') or toks[-1] != ('w', ']'):
        return None
    inner = toks[2:-1]
    kids = []
    ws = ''
    q = 0

    def flush():
        nonlocal ws
        if ws:
            nls = ws.count('\n')
            if nls >= 2:
                kids.append(Node(kt.k('Parbreak'), text=Str.lit(ws)))
            else:
                kids.append(Node(kt.k('Space'), text=Str.lit(ws)))
            ws = ''
    while q < len(inner):
        t = inner[q]
        q += 1
        if t in (('s',), ('nl',)):
            ws += ' ' if t == ('s',) else '\n'
            continue
        flush()
        w = t[1]
        if w == '#':
            kids.append(Node(kt.k('Hash'), text=Str.lit('#')))
            if q >= len(inner):
                return None
            t2 = inner[q]
            q += 1
            if t2 == ('w', '{'):
                names = []
                semi = False
                one_line = True
                closed = False
                while q < len(inner):
                    t3 = inner[q]
                    q += 1
                    if t3 == ('w', '}'):
                        closed = True
                        break
                    if t3 == ('nl',):
                        one_line = False
                    elif t3 == ('w', ';'):
                        semi = True
                    elif t3 != ('s',):
                        names.append(t3[1])
                if not closed or not names:
                    return None
                # `{` NL stmts NL `}`: the blanks next to the braces are line breaks as well
                kids.append(cblock_node(kt, names, one_line=one_line, semi=semi, edge=' ' if one_line else '\n'))
            elif t2[0] == 'w' and re.match(r'^[A-Za-z_]', t2[1]):
                kids.append(Node(kt.k('Ident'), text=Str.lit(t2[1])))
            else:
                return None
        elif re.match(r'^[A-Za-z_]', w):
            kids.append(Node(kt.k('Text'), text=Str.lit(w)))
        else:
            return None
    flush()
    return content_call(kt, kids)


def explore_content(S, max_atoms=2, atoms=M_ATOMS, gaps=M_GAPS):
    kt = T.KT
    core = S.core
    f_attr = S.find_fn(core, 'AttrStore::new')
    f_expr = S.find_fn(core, 'PrettyPrinter::convert_expr')
    found = []
    tasks = []
    for n in range(1, max_atoms + 1):
        for ats, gs in markup_sequences(n, atoms, gaps):
            def body(ctx, ats=ats, gs=gs):
                m = S.machine(core, STD, ctx)
                m.max_depth = 200
                root = content_call(kt, markup_nodes(kt, ats, gs))
                cfg = Agg('Config', None, (2, z3.BitVec('cfg_width', 64), 2, False), pp.CFG_NAMES)
                c0_ = pp.context(mode=0)        # the call follows a hash in markup; break suppression symbolic (a text line or not)

                def describe(mdl):
                    return dict(construct='content', atoms=list(ats), gaps=list(gs), suppressed=model_bool(mdl, c0_.get('break_suppressed')))

                def convert(node):
                    attrs = m.call_fn(f_attr, [node])
                    pr, _ = pp.printer(m, cfg=cfg, attrs=attrs)
                    return m.call_fn(f_expr, [pr, c0_, T.make_cast(m, node, 'Expr')])
                try:
                    d1 = convert(root)
                except Panic as p:
                    S.absorb(m)
                    ctx.must_hold(False, 'C05:list-construct-panic', lambda mdl: dict(describe(mdl), panic=p.msg))
                    return
                for mode, pf in (('broken', False), ('flat-where-possible', True)):
                    render.prefer_flat = pf
                    at1 = []
                    render(d1, False, at1)
                    t1 = text_of(at1)
                    if t1 is None:
                        continue
                    root2 = relex_content(t1, kt)
                    if root2 is None:
                        ctx.witness('output not read back (%s)' % mode)
                        continue
                    try:
                        d2 = convert(root2)
                    except Panic as p:
                        ctx.must_hold(False, 'C05:list-construct-panic', lambda mdl, t1=t1: dict(describe(mdl), second_pass_input=show_tokens(t1), panic=p.msg))
                        continue
                    render.prefer_flat = pf
                    at2 = []
                    render(d2, False, at2)
                    t2 = text_of(at2)
                    ctx.must_hold(t2 == t1, 'C03:content-block-layout-is-not-a-fixed-point',
                                  lambda mdl, t1=t1, t2=t2, mode=mode: dict(describe(mdl), layout=mode, first_pass=show_tokens(t1), second_pass=show_tokens(t2 or [])))
                    ctx.witness('second pass run (%s)' % mode)
                S.absorb(m)
            name = 'twopass.content[%s]' % show(''.join(g + {'w': 'w', 'hx': '#x', 'hb': '#{a;b}'}[a] for g, a in zip(gs, ats)) + gs[-1])
            tasks.append((name, 'two passes of the real printer over `f[..]` with markup %r / gaps %r' % (ats, gs), body, dict(atoms=n)))
    for ob, viol in S.explore_batch(tasks):
        for lab, mdl, info in viol:
            found.append((lab, info))
    return found


def content_source(info):
    s = info['gaps'][0]
    for i, a in enumerate(info['atoms']):
        s += {'w': 'w%d' % i, 'hx': '#x%d' % i, 'hb': '#{a%d; b%d}' % (i, i)}[a] + info['gaps'][i + 1]
    return '#f[' + s + ']'


# ---------------------------------------------------------------------------------------------------------------
# chains of binary operators inside a list: `f(a + b - c)`

B_GAPS = ['', ' ', '\n', ' /*c*/ ', '\n/*c*/\n', '/*c*/']


def gap_tokens(g):
    out = []
    for part in re.findall(r'/\*.*?\*/| |\n', g):
        out.append(('s',) if part == ' ' else ('nl',) if part == '\n' else ('w', part))
    return out


def explore_binary(S, operands=2, gaps=B_GAPS, constructs=('call', 'array')):
    kt = T.KT
    core = S.core
    f_attr = S.find_fn(core, 'AttrStore::new')
    f_expr = S.find_fn(core, 'PrettyPrinter::convert_expr')
    found = []
    tasks = []
    for construct in constructs:
        for n in range(2, operands + 1):
            for gs in itertools.product(gaps, repeat=2 * (n - 1)):
                for ops in itertools.product('+-', repeat=n - 1):
                    if n > 2 and ops[0] != '+':
                        continue

                    def body(ctx, gs=gs, ops=ops, construct=construct, n=n):
                        m = S.machine(core, STD, ctx)
                        m.max_depth = 200
                        node = Node(kt.k('Ident'), text=Str.lit('i0'))
                        for k in range(1, n):
                            node = Node(kt.k('Binary'), children=[node] + gap_nodes(kt, gap_tokens(gs[2 * k - 2])) +
                                        [Node(kt.k('Plus' if ops[k - 1] == '+' else 'Minus'), text=Str.lit(ops[k - 1]))] +
                                        gap_nodes(kt, gap_tokens(gs[2 * k - 1])) + [Node(kt.k('Ident'), text=Str.lit('i%d' % k))])
                        kids = [Node(kt.k('LeftParen'), text=Str.lit('(')), node]
                        if construct == 'array':
                            kids.append(Node(kt.k('Comma'), text=Str.lit(',')))
                        kids.append(Node(kt.k('RightParen'), text=Str.lit(')')))
                        root = wrap(kt, construct, kids)
                        cfg = Agg('Config', None, (2, z3.BitVec('cfg_width', 64), 2, False), pp.CFG_NAMES)
                        c0_ = pp.context(mode=1)

                        def describe(mdl):
                            return dict(construct=construct, binary=True, gaps=list(gs), ops=list(ops), suppressed=model_bool(mdl, c0_.get('break_suppressed')))

                        def convert(x):
                            attrs = m.call_fn(f_attr, [x])
                            pr, _ = pp.printer(m, cfg=cfg, attrs=attrs)
                            return m.call_fn(f_expr, [pr, c0_, T.make_cast(m, x, 'Expr')])
                        try:
                            d1 = convert(root)
                        except Panic as p:
                            S.absorb(m)
                            ctx.must_hold(False, 'C05:list-construct-panic', lambda mdl: dict(describe(mdl), panic=p.msg))
                            return
                        for mode, pf in (('broken', False), ('flat-where-possible', True)):
                            render.prefer_flat = pf
                            at1 = []
                            render(d1, False, at1)
                            t1 = text_of(at1)
                            if t1 is None:
                                continue
                            root2 = relex(t1, kt, construct)
                            if root2 is None:
                                ctx.witness('output not read back (%s)' % mode)
                                continue
                            try:
                                d2 = convert(root2)
                            except Panic as p:
                                ctx.must_hold(False, 'C05:list-construct-panic', lambda mdl, t1=t1: dict(describe(mdl), second_pass_input=show_tokens(t1), panic=p.msg))
                                continue
                            render.prefer_flat = pf
                            at2 = []
                            render(d2, False, at2)
                            t2 = text_of(at2)
                            ctx.must_hold(t2 == t1, 'C03:binary-chain-layout-is-not-a-fixed-point',
                                          lambda mdl, t1=t1, t2=t2, mode=mode: dict(describe(mdl), layout=mode, first_pass=show_tokens(t1), second_pass=show_tokens(t2 or [])))
                            ctx.witness('second pass run (%s)' % mode)
                        S.absorb(m)
                    src = 'i0' + ''.join(gs[2 * k - 2] + ops[k - 1] + gs[2 * k - 1] + 'i%d' % k for k in range(1, n))
                    tasks.append(('twopass.binary.%s[%s]' % (construct, show(src)), 'two passes of the real printer over %s holding the chain %s' % (construct, show(src)), body, dict(operands=n)))
    for ob, viol in S.explore_batch(tasks):
        for lab, mdl, info in viol:
            found.append((lab, info))
    return found


def binary_source(info):
    n = len(info['ops']) + 1
    gs, ops = info['gaps'], info['ops']
    src = 'i0' + ''.join(gs[2 * k - 2] + ops[k - 1] + gs[2 * k - 1] + 'i%d' % k for k in range(1, n))
    return '#f(%s)' % src if info['construct'] == 'call' else '#(%s,)' % src


# ---------------------------------------------------------------------------------------------------------------
# equations: `$ .. $` with letters, the line-break backslash, alignment points and blanks / line breaks

E_ATOMS = ['x', 'lb', 'al']
E_GAPS = ['', ' ', '\n']


def equation_sequences(n, atoms=E_ATOMS, gaps=E_GAPS):
    for ats in itertools.product(atoms, repeat=n):
        if 'x' not in ats:
            continue
        for gs in itertools.product(gaps, repeat=n + 1):
            ok = True
            for i in range(n):
                if i > 0 and gs[i] == '' and ats[i] == 'x' and ats[i - 1] == 'x':
                    ok = False          # two letters without a blank are one identifier
                if ats[i] == 'lb' and gs[i + 1] == '':
                    ok = False          # a backslash is a line break only when whitespace follows
            if ok:
                yield list(ats), list(gs)


def equation_node(kt, ats, gs):
    sp = lambda g: [Node(kt.k('Space'), text=Str.lit(g))] if g else []
    inner = []
    for i, a in enumerate(ats):
        if i:
            inner += sp(gs[i])
        if a == 'x':
            inner.append(Node(kt.k('MathText'), text=Str.lit('abcdefgh'[i])))
        elif a == 'lb':
            inner.append(Node(kt.k('Linebreak'), text=Str.lit('\\')))
        else:
            inner.append(Node(kt.k('MathAlignPoint'), text=Str.lit('&')))
    return Node(kt.k('Equation'), children=[Node(kt.k('Dollar'), text=Str.lit('$'))] + sp(gs[0]) + [Node(kt.k('Math'), children=inner)] + sp(gs[-1]) +
                [Node(kt.k('Dollar'), text=Str.lit('$'))])


def relex_equation(toks, kt):
    if len(toks) < 2 or toks[0] != ('w', '$') or toks[-1] != ('w', '$'):
        return None
    inner = toks[1:-1]
    # edge whitespace lies outside the Math node
    lead = []
    while inner and inner[0] in (('s',), ('nl',)):
        lead.append(inner.pop(0))
    trail = []
    while inner and inner[-1] in (('s',), ('nl',)):
        trail.insert(0, inner.pop())
    kids = []
    ws = ''
    for t in inner:
        if t in (('s',), ('nl',)):
            ws += ' ' if t == ('s',) else '\n'
            continue
        if ws:
            kids.append(Node(kt.k('Space'), text=Str.lit(ws)))
            ws = ''
        w = t[1]
        if w == '\\':
            kids.append(Node(kt.k('Linebreak'), text=Str.lit('\\')))
        elif w == '&':
            kids.append(Node(kt.k('MathAlignPoint'), text=Str.lit('&')))
        elif re.match(r'^[a-z]$', w):
            kids.append(Node(kt.k('MathText'), text=Str.lit(w)))
        else:
            return None
    if not kids:
        return None
    # a backslash directly before the closing dollar (its blank was trimmed) is an escape, not a line break: not the same tree any more
    if kids[-1].kind == kt.k('Linebreak') and not trail:
        return None
    g = lambda ts: [Node(kt.k('Space'), text=Str.lit(''.join(' ' if t == ('s',) else '\n' for t in ts)))] if ts else []
    return Node(kt.k('Equation'), children=[Node(kt.k('Dollar'), text=Str.lit('$'))] + g(lead) + [Node(kt.k('Math'), children=kids)] + g(trail) +
                [Node(kt.k('Dollar'), text=Str.lit('$'))])


def explore_equation(S, max_atoms=3):
    kt = T.KT
    core = S.core
    f_attr = S.find_fn(core, 'AttrStore::new')
    f_expr = S.find_fn(core, 'PrettyPrinter::convert_expr')
    found = []
    tasks = []
    for n in range(1, max_atoms + 1):
        for ats, gs in equation_sequences(n):
            def body(ctx, ats=ats, gs=gs):
                m = S.machine(core, STD, ctx)
                m.max_depth = 200
                root = equation_node(kt, ats, gs)
                cfg = Agg('Config', None, (2, z3.BitVec('cfg_width', 64), 2, False), pp.CFG_NAMES)
                c0_ = pp.context(mode=0)

                def describe(mdl):
                    return dict(construct='equation', atoms=list(ats), gaps=list(gs), suppressed=model_bool(mdl, c0_.get('break_suppressed')))

                def convert(node):
                    attrs = m.call_fn(f_attr, [node])
                    pr, _ = pp.printer(m, cfg=cfg, attrs=attrs)
                    return m.call_fn(f_expr, [pr, c0_, T.make_cast(m, node, 'Expr')])
                try:
                    d1 = convert(root)
                except Panic as p:
                    S.absorb(m)
                    ctx.must_hold(False, 'C05:list-construct-panic', lambda mdl: dict(describe(mdl), panic=p.msg))
                    return
                for mode, pf in (('broken', False), ('flat-where-possible', True)):
                    render.prefer_flat = pf
                    at1 = []
                    render(d1, False, at1)
                    t1 = text_of(at1)
                    if t1 is None:
                        continue
                    root2 = relex_equation(t1, kt)
                    if root2 is None:
                        ctx.witness('output not read back (%s)' % mode)
                        continue
                    try:
                        d2 = convert(root2)
                    except Panic as p:
                        ctx.must_hold(False, 'C05:list-construct-panic', lambda mdl, t1=t1: dict(describe(mdl), second_pass_input=show_tokens(t1), panic=p.msg))
                        continue
                    render.prefer_flat = pf
                    at2 = []
                    render(d2, False, at2)
                    t2 = text_of(at2)
                    ctx.must_hold(t2 == t1, 'C03:equation-layout-is-not-a-fixed-point',
                                  lambda mdl, t1=t1, t2=t2, mode=mode: dict(describe(mdl), layout=mode, first_pass=show_tokens(t1), second_pass=show_tokens(t2 or [])))
                    ctx.witness('second pass run (%s)' % mode)
                S.absorb(m)
            tasks.append(('twopass.equation[%s]' % show(equation_source(dict(atoms=ats, gaps=gs))), 'two passes of the real printer over the equation %s' % show(equation_source(dict(atoms=ats, gaps=gs))),
                          body, dict(atoms=n)))
    for ob, viol in S.explore_batch(tasks):
        for lab, mdl, info in viol:
            found.append((lab, info))
    return found


def equation_source(info):
    s = '$' + info['gaps'][0]
    for i, a in enumerate(info['atoms']):
        if i:
            s += info['gaps'][i]
        s += {'x': 'abcdefgh'[i], 'lb': '\\', 'al': '&'}[a]
    return s + info['gaps'][-1] + '$'


# ---------------------------------------------------------------------------------------------------------------
# dot chains inside a list: `f(a.b().c)`


def explore_dotchain(S, links=2, gaps=B_GAPS, constructs=('call',)):
    kt = T.KT
    core = S.core
    f_attr = S.find_fn(core, 'AttrStore::new')
    f_expr = S.find_fn(core, 'PrettyPrinter::convert_expr')
    found = []
    tasks = []
    for construct in constructs:
        for n in range(1, links + 1):
            for gs in itertools.product(gaps, repeat=2 * n):
                for calls in itertools.product((False, True), repeat=n):
                    if n > 1 and not calls[0]:
                        continue        # keep the space small: the first link is a call when there are several

                    def body(ctx, gs=gs, calls=calls, construct=construct, n=n):
                        m = S.machine(core, STD, ctx)
                        m.max_depth = 200
                        node = Node(kt.k('Ident'), text=Str.lit('i0'))
                        for k in range(1, n + 1):
                            node = Node(kt.k('FieldAccess'), children=[node] + gap_nodes(kt, gap_tokens(gs[2 * k - 2])) + [Node(kt.k('Dot'), text=Str.lit('.'))] +
                                        gap_nodes(kt, gap_tokens(gs[2 * k - 1])) + [Node(kt.k('Ident'), text=Str.lit('m%d' % k))])
                            if calls[k - 1]:
                                node = Node(kt.k('FuncCall'), children=[node, Node(kt.k('Args'), children=[Node(kt.k('LeftParen'), text=Str.lit('(')),
                                                                                                            Node(kt.k('RightParen'), text=Str.lit(')'))])])
                        kids = [Node(kt.k('LeftParen'), text=Str.lit('(')), node]
                        if construct == 'array':
                            kids.append(Node(kt.k('Comma'), text=Str.lit(',')))
                        kids.append(Node(kt.k('RightParen'), text=Str.lit(')')))
                        root = wrap(kt, construct, kids)
                        cfg = Agg('Config', None, (2, z3.BitVec('cfg_width', 64), 2, False), pp.CFG_NAMES)
                        c0_ = pp.context(mode=1)

                        def describe(mdl):
                            return dict(construct=construct, dotchain=True, gaps=list(gs), calls=list(calls), suppressed=model_bool(mdl, c0_.get('break_suppressed')))

                        def convert(x):
                            attrs = m.call_fn(f_attr, [x])
                            pr, _ = pp.printer(m, cfg=cfg, attrs=attrs)
                            return m.call_fn(f_expr, [pr, c0_, T.make_cast(m, x, 'Expr')])
                        try:
                            d1 = convert(root)
                        except Panic as p:
                            S.absorb(m)
                            ctx.must_hold(False, 'C05:list-construct-panic', lambda mdl: dict(describe(mdl), panic=p.msg))
                            return
                        for mode, pf in (('broken', False), ('flat-where-possible', True)):
                            render.prefer_flat = pf
                            at1 = []
                            render(d1, False, at1)
                            t1 = text_of(at1)
                            if t1 is None:
                                continue
                            root2 = relex(t1, kt, construct)
                            if root2 is None:
                                ctx.witness('output not read back (%s)' % mode)
                                continue
                            try:
                                d2 = convert(root2)
                            except Panic as p:
                                ctx.must_hold(False, 'C05:list-construct-panic', lambda mdl, t1=t1: dict(describe(mdl), second_pass_input=show_tokens(t1), panic=p.msg))
                                continue
                            render.prefer_flat = pf
                            at2 = []
                            render(d2, False, at2)
                            t2 = text_of(at2)
                            ctx.must_hold(t2 == t1, 'C03:dot-chain-layout-is-not-a-fixed-point',
                                          lambda mdl, t1=t1, t2=t2, mode=mode: dict(describe(mdl), layout=mode, first_pass=show_tokens(t1), second_pass=show_tokens(t2 or [])))
                            ctx.witness('second pass run (%s)' % mode)
                        S.absorb(m)
                    src = dot_source(dict(gaps=gs, calls=calls, construct=construct))
                    tasks.append(('twopass.dot[%s]' % show(src), 'two passes of the real printer over %s' % show(src), body, dict(links=n)))
    for ob, viol in S.explore_batch(tasks):
        for lab, mdl, info in viol:
            found.append((lab, info))
    return found


def dot_source(info):
    gs, calls = info['gaps'], info['calls']
    src = 'i0' + ''.join(gs[2 * k - 2] + '.' + gs[2 * k - 1] + 'm%d' % k + ('()' if calls[k - 1] else '') for k in range(1, len(calls) + 1))
    return '#f(%s)' % src if info['construct'] == 'call' else '#(%s,)' % src


# ---------------------------------------------------------------------------------------------------------------
# code blocks: `{ a; b }` with blanks, line breaks, blank lines, semicolons and comments between the statements

CB_EDGE = ['', ' ', '\n', '\n\n\n', ' /*c*/ ', '\n/*c*/\n', ' //c\n']
CB_BETWEEN = ['\n', '\n\n', '\n\n\n\n', ';', '; ', ';\n', ' /*c*/\n', '\n/*c*/\n', ' //c\n', '\n//c\n', '; /*c*/ ']


def trivia_nodes(kt, g, counter):
    """nodes of a gap string: whitespace runs, `;`, /*c*/ and //c comments (comment texts made unique by the counter)"""
    out = []
    for part in re.findall(r'//c|/\*c\*/|;|[ \n]+', g):
        if part == ';':
            out.append(Node(kt.k('Semicolon'), text=Str.lit(';')))
        elif part == '//c':
            counter[0] += 1
            out.append(Node(kt.k('LineComment'), text=Str.lit('//c%d' % counter[0])))
        elif part == '/*c*/':
            counter[0] += 1
            out.append(Node(kt.k('BlockComment'), text=Str.lit('/*c%d*/' % counter[0])))
        else:
            out.append(Node(kt.k('Space'), text=Str.lit(part)))
    return out


def codeblock_node(kt, names, gaps):
    """`{` g0 s0 g1 s1 .. gn `}`: trivia before the first / behind the last statement are children of the block, the rest of its Code"""
    counter = [0]
    lead = trivia_nodes(kt, gaps[0], counter)
    code = []
    for i, nm in enumerate(names):
        if i:
            code += trivia_nodes(kt, gaps[i], counter)
        code.append(Node(kt.k('Ident'), text=Str.lit(nm)))
    trail = trivia_nodes(kt, gaps[-1], counter)
    return Node(kt.k('CodeBlock'), children=[Node(kt.k('LeftBrace'), text=Str.lit('{'))] + lead + [Node(kt.k('Code'), children=code)] + trail +
                [Node(kt.k('RightBrace'), text=Str.lit('}'))])


def relex_codeblock(toks, kt):
    if len(toks) < 2 or toks[0] != ('w', '{') or toks[-1] != ('w', '}'):
        return None
    inner = toks[1:-1]
    nodes = []
    ws = ''
    for t in inner:
        if t in (('s',), ('nl',)):
            ws += ' ' if t == ('s',) else '\n'
            continue
        if ws:
            nodes.append(Node(kt.k('Space'), text=Str.lit(ws)))
            ws = ''
        w = t[1]
        if w == ';':
            nodes.append(Node(kt.k('Semicolon'), text=Str.lit(';')))
        elif w.startswith('//'):
            nodes.append(Node(kt.k('LineComment'), text=Str.lit(w)))
        elif w.startswith('/*'):
            nodes.append(Node(kt.k('BlockComment'), text=Str.lit(w)))
        elif re.match(r'^[A-Za-z_]', w):
            nodes.append(Node(kt.k('Ident'), text=Str.lit(w)))
        else:
            return None
    if ws:
        nodes.append(Node(kt.k('Space'), text=Str.lit(ws)))
    idx = [i for i, n in enumerate(nodes) if n.kind == kt.k('Ident')]
    if not idx:
        return None
    lead, code, trail = nodes[:idx[0]], nodes[idx[0]:idx[-1] + 1], nodes[idx[-1] + 1:]
    # a line comment must be followed by a line break, statements must be separated: otherwise the text is not the same program
    return Node(kt.k('CodeBlock'), children=[Node(kt.k('LeftBrace'), text=Str.lit('{'))] + lead + [Node(kt.k('Code'), children=code)] + trail +
                [Node(kt.k('RightBrace'), text=Str.lit('}'))])


def explore_codeblock(S, max_stmts=2, edge=CB_EDGE, between=CB_BETWEEN):
    kt = T.KT
    core = S.core
    f_attr = S.find_fn(core, 'AttrStore::new')
    f_expr = S.find_fn(core, 'PrettyPrinter::convert_expr')
    found = []
    tasks = []
    for n in range(1, max_stmts + 1):
        for gaps in itertools.product(edge, *([between] * (n - 1)), edge):
            def body(ctx, gaps=gaps, n=n):
                m = S.machine(core, STD, ctx)
                m.max_depth = 200
                root = codeblock_node(kt, ['s%d' % i for i in range(n)], gaps)
                cfg = Agg('Config', None, (2, z3.BitVec('cfg_width', 64), 2, False), pp.CFG_NAMES)
                c0_ = pp.context(mode=0)         # `#{..}` in markup; break suppression symbolic

                def describe(mdl):
                    return dict(construct='codeblock', gaps=list(gaps), suppressed=model_bool(mdl, c0_.get('break_suppressed')))

                def convert(node):
                    attrs = m.call_fn(f_attr, [node])
                    pr, _ = pp.printer(m, cfg=cfg, attrs=attrs)
                    return m.call_fn(f_expr, [pr, c0_, T.make_cast(m, node, 'Expr')])
                try:
                    d1 = convert(root)
                except Panic as p:
                    S.absorb(m)
                    ctx.must_hold(False, 'C05:list-construct-panic', lambda mdl: dict(describe(mdl), panic=p.msg))
                    return
                for mode, pf in (('broken', False), ('flat-where-possible', True)):
                    render.prefer_flat = pf
                    at1 = []
                    render(d1, False, at1)
                    t1 = text_of(at1)
                    if t1 is None:
                        continue
                    root2 = relex_codeblock(t1, kt)
                    if root2 is None:
                        ctx.witness('output not read back (%s)' % mode)
                        continue
                    try:
                        d2 = convert(root2)
                    except Panic as p:
                        ctx.must_hold(False, 'C05:list-construct-panic', lambda mdl, t1=t1: dict(describe(mdl), second_pass_input=show_tokens(t1), panic=p.msg))
                        continue
                    render.prefer_flat = pf
                    at2 = []
                    render(d2, False, at2)
                    t2 = text_of(at2)
                    ctx.must_hold(t2 == t1, 'C03:code-block-layout-is-not-a-fixed-point',
                                  lambda mdl, t1=t1, t2=t2, mode=mode: dict(describe(mdl), layout=mode, first_pass=show_tokens(t1), second_pass=show_tokens(t2 or [])))
                    ctx.witness('second pass run (%s)' % mode)
                S.absorb(m)
            src = codeblock_source(dict(gaps=gaps))
            tasks.append(('twopass.codeblock[%s]' % show(src), 'two passes of the real printer over the code block %s' % show(src), body, dict(statements=n)))
    for ob, viol in S.explore_batch(tasks):
        for lab, mdl, info in viol:
            found.append((lab, info))
    return found


def codeblock_source(info):
    gaps = info['gaps']
    n = len(gaps) - 1
    s = '#{' + gaps[0]
    for i in range(n):
        if i:
            s += gaps[i]
        s += 's%d' % i
    return s + gaps[-1] + '}'
