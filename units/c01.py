"""C01 — syntax tree preserved: token conservation per construct (mechanism level; the end-to-end tree comparison is not claimed)."""
import json
import os

from mirsym import models_typst as T
from . import conserve, deep

EXPLANATION = (
    "Bounded symbolic execution (MIR->SMT, z3), mechanism level: NOT the end-to-end statement (that needs the Typst parser as oracle on "
    "whole outputs). For every expression kind, concrete node shapes are taken from real parses (all fixture files of the repository "
    "plus a hand-written file of tricky constructs; every shape of the latter and the smallest distinct shapes per kind of the former), "
    "rebuilt as abstract trees, and PrettyPrinter::convert_expr is executed from MIR on each with the real attribute pass, nested "
    "expression / pattern / markup conversions opaque, and the context (mode, break suppression), indent unit, width and chain width "
    "symbolic (import reordering off; C19 decides that option). z3 decides on every path and in both observed layouts that the non-layout character stream of the produced "
    "document (everything except blanks, commas, semicolons, parentheses and braces) equals that of the node's source text: no token "
    "is added, dropped, duplicated or reordered by the construct's own converter. Constructs that the encoder cannot execute are listed "
    "in the evidence and not claimed; the constructs in units/conserve_expected.json must stay decidable or the run is inconclusive. "
    "The same obligation is then decided with NOTHING opaque: every shape again with all nested converters executed from their MIR "
    "(`deep`; quick: the same shapes, thorough: up to 2000 shapes per kind of up to 60 nodes, about 9000 shapes), and a list of small "
    "whole documents through AttrStore::new + convert_markup with the blanks of every whitespace token symbolic. Tokens and comments are "
    "compared separately (a comment may move across a token of its own construct; the order of comments is kept). "
    "Statement boundaries, operator grouping by parentheses, indentation-derived nesting and everything that depends on the renderer's "
    "width decisions are outside the claim. Session 3: delimiters that belong to a construct keep their place relative to the tokens; whole documents (hand-written families plus ~4000 generated ones: construct x spelling x context x comment position; quick tier: a sample of 300 that depends on VERIF_SEED) through the real printer, pretty's layout algorithm interpreted at representative widths and the REAL parser: the syntax tree of the output equals that of the source modulo layout.")


def run(S):
    T.KT = T.KindTable(S.driver, S.adts)
    per_kind = 40 if S.tier == 'quick' else 150
    found, cov = conserve.explore(S, want=('C01',), per_kind=per_kind, max_nodes=18 if S.tier == 'quick' else 26)
    conserve.report(S, 'C01', found)
    # nothing opaque: nested converters real
    found2, cov2 = conserve.explore(S, want=('C01',), per_kind=40 if S.tier == 'quick' else 2000, max_nodes=18 if S.tier == 'quick' else 60, deep=True)
    conserve.report(S, 'C01', found2)
    undecided = sum(c['shapes'] - c['decided'] for c in cov2.values())
    if undecided * 20 > sum(c['shapes'] for c in cov2.values()):
        S.inconclusive.append('deep conservation: %d shapes could not be executed with nested converters real (encoder gaps, see evidence)' % undecided)
    found3, cov3 = deep.explore(S, deep.DOCS + deep.CODE_DOCS + deep.EMBED_DOCS, want=('C01',))
    deep.report(S, 'C01', found3)
    if cov3['decided'] < cov3['docs']:
        S.inconclusive.append('deep documents: %r' % (cov3['gaps'][:3],))
    decided = sum(c['decided'] for c in cov.values())
    if decided < 100:
        S.inconclusive.append('vacuity: only %d construct shapes were decided' % decided)
    S.assumptions += [
        'node shapes are real parser output for the corpus files (sampled shapes: the solver quantifies over contexts and configuration, not over shapes)',
        'nested expression / pattern / markup conversions are opaque and stand for the source text of their node',
        'layout characters (blanks, commas, semicolons, parentheses, braces) are ignored on both sides: optional separators and redundant grouping are allowed by the property',
    ]
    # the real printer, the renderer interpreted at representative widths, and the REAL parser on the text that comes out: whole documents, blanks symbolic
    from . import reparse as _rp, deep as _dp
    _docs = _rp.TABLE_DOCS + _rp.NORMALISE_DOCS + _rp.BLOCK_DOCS + _rp.MISC_DOCS + _dp.DOCS + _dp.PROSE + _dp.CODE_DOCS + _dp.EMBED_DOCS + _rp.corpus_docs(S) + _rp.in_contexts(_rp.COMMENT_DOCS) + _rp.PROSE_LINE_DOCS + _rp.EVAL_DOCS + ['$ mat(a, // c\n b; c) $\n', '* - a\nb *\n', 'text #box[- a\n           b]\n']      # (documents of open known findings, keyed by document)
    if S.tier != 'quick':
        _docs += _dp.OFF_DOCS
    _fr, _covr = _rp.explore(S, _docs, tabs=(2,) if S.tier == 'quick' else (2, 4), widths=(0, 40, 1 << 30) if S.tier == 'quick' else (0, 20, 40, 80, 120, 1 << 30), prop='C01')
    _rp.report(S, 'C01', _fr)
    # generated families (construct x spelling x context x comment position, ~4000 well-formed documents): a sample that depends on VERIF_SEED in the
    # quick tier, all of them in the thorough tier
    from . import reparse as _rpf
    _fam = _rpf.families(S, seed=S.seed, limit=600 if S.tier == 'quick' else None)
    if 'C01' == 'C09':
        _fam = [d_ for d_ in _fam if '$' in d_]
    _ff, _covf = _rpf.explore(S, _fam, tabs=(2,), widths=(0, 1 << 30) if S.tier == 'quick' else (0, 20, 40, 80, 1 << 30), prop='C01')
    _rpf.report(S, 'C01', _ff)
    return S.finish(level='other', explanation=EXPLANATION, trusted=['mirsym encoder', 'typst-syntax contracts (kind tables, accessors, operators)', 'pretty Doc algebra'])
