#!/bin/bash
# tools/xcheck_all.sh [period] [ids...]: run the quick checks sequentially with every <period>-th solver query decided again by cvc5 and the system z3;
# evidence of these runs goes to .cache/evidence-xcheck (never to /verif/evidence); prints one line per check
cd /verif
P=${1:-300}; shift
IDS=${@:-C01 C03 C04 C05 C06 C07 C08 C09 C10 C11 C12 C13 C14 C15 C16 C18 C19}
for c in $IDS; do
  VERIF_XCHECK=$P VERIF_WORKERS=1 VERIF_EVIDENCE_DIR=/verif/.cache/evidence-xcheck ./check $c --tier quick > /tmp/xcheck.$c.log 2>&1; code=$?
  python3 - "$c" "$code" <<'PY'
import json, sys
c, code = sys.argv[1], sys.argv[2]
try:
    d = json.load(open('/verif/.cache/evidence-xcheck/%s.json' % c))
    v = d.get('validation', {}).get('second_solver_sampling') or d.get('second_solver_sampling')
    if v is None:
        # search nested
        def find(x):
            if isinstance(x, dict):
                if 'second_solver_sampling' in x: return x['second_solver_sampling']
                for y in x.values():
                    r = find(y)
                    if r: return r
            return None
        v = find(d)
    print(c, 'exit', code, 'sampled', v['queries_sampled'], 'agree', v['verdicts_agreeing'], 'inconclusive', v['verdicts_inconclusive'], 'disagree', len(v['disagreements']))
except Exception as e:
    print(c, 'exit', code, 'no sampling record', e)
PY
done
