#!/bin/bash
# tools/run_all.sh <tier> [ids...] : run checks sequentially, print one summary line each
T=${1:-quick}; shift
IDS=${@:-C01 C02 C03 C04 C05 C06 C07 C08 C09 C10 C11 C12 C13 C14 C15 C16 C17 C18 C19}
for c in $IDS; do
  s=$(date +%s)
  ./check $c --tier $T > /tmp/runall.$c.log 2>&1; code=$?
  e=$(date +%s)
  echo "$c tier=$T exit=$code wall=$((e-s))s :: $(grep -E '^(OK|VIOLATION|INCONCLUSIVE|KNOWN)' /tmp/runall.$c.log | head -3 | cut -c1-200 | tr '\n' '|')"
done
