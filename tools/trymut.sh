#!/bin/bash
# usage: tools/trymut.sh <patchfile|-> <check ids...>   (patch from stdin when '-'); applies to /repo, runs checks, reverts
P=$1; shift
if [ "$P" = "-" ]; then P=/tmp/trymut.$$.diff; cat > $P; fi
git -C /repo apply $P || { echo "PATCH DOES NOT APPLY"; exit 9; }
for c in "$@"; do
  /verif/check $c --tier quick > /tmp/trymut.$c.log 2>&1; code=$?
  echo "== $c exit=$code"; grep -E '^(VIOLATION|KNOWN-FINDING|INCONCLUSIVE|OK|  what)' /tmp/trymut.$c.log | cut -c1-400
done
git -C /repo checkout -- .
