#!/bin/bash
# usage: tools/trymut.sh <patchfile|-> <check ids...>   applies the patch to the scratch checkout /tmp/wt_f (never /repo), runs the checks against it
P=$1; shift
W=${VERIF_SCRATCH:-/tmp/wt_f}
if [ "$P" = "-" ]; then P=/tmp/trymut.$$.diff; cat > $P; fi
git -C $W checkout -q -- . ; git -C $W reset -q --hard $(git -C /repo rev-parse HEAD) >/dev/null
git -C $W apply $P || { echo "PATCH DOES NOT APPLY"; exit 9; }
for c in "$@"; do
  VERIF_REPO=$W /verif/check $c --tier ${TIER:-quick} > /tmp/trymut.$c.log 2>&1; code=$?
  echo "== $c exit=$code"; grep -E '^(VIOLATION|KNOWN-FINDING|INCONCLUSIVE|OK|  what)' /tmp/trymut.$c.log | cut -c1-400
done
git -C $W checkout -q -- .
