#!/bin/bash
# tools/seed_regress.sh [ids...]: every kept seeded change must make the check of the property it breaks exit 1 (run against the scratch checkout, never /repo)
cd /verif
IDS=${@:-$(ls seeded)}
for id in $IDS; do
  prop=$(python3 -c "import json;print(json.load(open('seeded/$id/meta.json'))['breaks_property'].split(',')[0].strip())")
  out=$(tools/trymut.sh /verif/seeded/$id/patch.diff $prop 2>&1 | head -2 | tr '\n' ' ' | cut -c1-160)
  echo "$id -> $out"
done
