#!/usr/bin/env python3
"""Regenerate MANIFEST.json from the table below (keeps it schema-valid)."""
import json, os
HERE = os.path.dirname(os.path.dirname(os.path.abspath(__file__)))

TECH = "bounded symbolic execution of rustc MIR (own MIR->SMT encoder 'mirsym'), z3 decides every path obligation; counterexamples replayed natively"

CHECKS = {
    'C11': dict(
        text="Solver-decided within bounds, not a proof: strip_trailing_whitespace (real MIR) is executed symbolically over every UTF-8 string of up to N code points (N=5 quick, 7 thorough; each code point an arbitrary Unicode scalar) and z3 shows the result is non-empty, ends in LF and no line ends in White_Space; the library entry points (real MIR, printer opaque) are shown to return exactly strip(render(..)). Longer strings and the renderer itself are outside the claim.",
        note="Trusted: mirsym encoder; contracts for str::{lines,trim_end,..} and String (validated natively each run: White_Space table over all scalars, differential runs); pretty's renderer output is treated as an arbitrary string; parser fact root=Markup.",
        ref="DESIGN.md §5 C11"),
    'C13': dict(
        text="Solver-decided within bounds, not a proof. (A) Typstyle::format_source_range with its real callees trim_range, count_spaces_after_last_newline and the cover search is executed from MIR over every text of up to N code points (4 quick / 6 thorough) and every (start,end) with start on a char boundary and end on a boundary or anywhere beyond the text: z3 shows no panic, that the cover search receives exactly the blank-trimmed range and that nest() receives the spaces after the last LF. (B) the cover search and converter dispatch are executed over abstract trees (root Markup, up to 4/6 nodes, symbolic kinds, leaf lengths, error flags) for any trimmed range inside the text: an Ok result names a non-erroneous Markup/Expr/Pattern node whose range contains the trimmed request, converted in the mode of its nearest Markup/CodeBlock/Equation ancestor; a refusal implies a syntax error in the tree. That splicing the result re-parses to an equivalent tree needs the parser as oracle and is NOT claimed.",
        note="Trusted: mirsym encoder; std string contracts; typst-syntax node/LinkedNode contracts with kind tables extracted from the real crate; abstract trees over-approximate parser output; converters, AttrStore::new and the renderer opaque; assume-guarantee split between (A) and (B).",
        ref="DESIGN.md §5 C13"),
    'C14': dict(
        text="Solver-decided over bounded worlds, not a proof. The real MIR of main, execute, format_one, format_many, format_all (+closures), format_debug, get_input, write_back, is_hidden, to_config, bitor_assign and report is executed against a symbolic file-system world: stdin, file lists of up to K files (2 quick / 3 thorough) and format-all over every directory tree of up to 2-3 (quick) / 4 (thorough) entries, every entry file/dir/other, hidden or not, any extension, readable or not, erroneous or not, changed or not; every flag combination clap admits and all 64-bit option values. z3 decides on every path that with --check nothing is written, no source/formatted text reaches stdout, and exit status is 1 iff an eligible readable well-formed input differs from F(input) or an eligible input cannot be read. Counterexamples are rebuilt as real directory trees and replayed on the real binary.",
        note="Trusted: mirsym encoder; environment contracts for fs::read_to_string/fs::write/walkdir/stdin/print/log/anyhow/clap (models_env.py); formatter = uninterpreted F with Err iff erroneous; directory-listing errors, symlink loops, larger trees, -v/-q in quick tier and --ast/--pretty-doc are outside the claim; mtime follows from W=empty under the structural fact (checked in the same MIR dump) that fs::write is the only mutator called.",
        ref="DESIGN.md §5 C14"),
    'C15': dict(
        text="Solver-decided over bounded worlds, not a proof. Same units and worlds as C14 with check=false, `-i` lists and format-all, write failures symbolic: z3 decides on every path that the set of files written is exactly {eligible & readable & well-formed & changed}, each once, with exactly F(content) for the mapped options; every eligible input is attempted whatever happened to earlier ones; any read/write failure gives a non-zero exit status and no failure gives 0. Eligibility for format-all: regular file, extension typ, not hidden, no hidden directory strictly between it and the given directory; the directory's own name is irrelevant.",
        note="Trusted: as C14. 'A second run is a no-op' follows from the write-set obligation on the post-world under F(F(c))=F(c) (C03, assumed). Write failures cannot be replayed natively as root; such models are reported inconclusive if nothing else reproduces.",
        ref="DESIGN.md §5 C15"),
    'C16': dict(
        text="Solver-decided over bounded worlds, not a proof. CLI MIR as C14/C15: every library call receives Config{max_width: column, tab_spaces: tab_width, reorder_import_items: flag, blank_lines_upper_bound: 2} for all 64-bit values; in stdout mode the stdout writes are exactly print!(\"{}\", F(c_i)) (c_i itself if erroneous) for readable inputs in argument order and nothing else; in-place/format-all write F(c_i). Library MIR: format_with_width(c,w) = F(c, Config{max_width:w, defaults}) or c if erroneous; format_content/format_source funnel into format_source_inspect. Counterexamples replayed by comparing the real binary's output with the library's output (native driver) for the same options.",
        note="Trusted: as C14; F uninterpreted - that all front-ends compute the same F rests on the structural fact that they all call Typstyle::format_source_inspect/format_content (checked in the dump).",
        ref="DESIGN.md §5 C16"),
    'C19': dict(
        text="Solver-decided within bounds, not a proof. convert_import_items (+closures) and check_import_name_duplication are executed from MIR over every sequence of up to K nodes (3 quick / 4 thorough), each a plain item (1-2 identifier path), a renamed item, or any other node kind (symbolic), identifier texts symbolic; the list stylist is opaque but records the sequence it receives. z3 decides: flag off => sequence unchanged; flag on => a permutation, unchanged whenever a comment is present or two items bind the same name, otherwise sorted by item text. Config::default has the flag off and StyleArgs::to_config passes the CLI flag through (real MIR); the option is read nowhere else (structural, same dump).",
        note="Trusted: mirsym encoder; contracts for sort_by_key (stable sort by key), HashSet insert, typst-syntax accessors; the list stylist prints items in the order received (not decided here). Longer imports and identifier texts longer than 1 character are outside the bound.",
        ref="DESIGN.md §5 C19"),
    'C08': dict(
        text="Solver-decided within bounds, not a proof; mechanism level. convert_space / convert_parbreak / convert_text with has_linebreak / count_linebreaks / repeat_n are executed from MIR over every whitespace token of up to N code points (3 quick / 4 thorough; each any White_Space scalar, so all newline characters Typst recognises): a Space token becomes a hard line break iff it holds a Typst newline, else one blank; a Parbreak with k newlines (CR LF once) becomes exactly k hard line breaks; Text is verbatim. Counterexamples are replayed as markup `a<ws>b` through format_content. Composition through nested markup, the parser and the renderer is not covered.",
        note="Trusted: mirsym encoder; lexer facts about whitespace tokens (stated in assumptions); Doc algebra contracts; typst_syntax::is_newline contract (validated natively at setup).",
        ref="DESIGN.md §5 C08"),
}

NOT_APPLICABLE = {
    'C01': "oracle is the Typst parser over whole formatter output and the subject is the whole printer; Kani ICEs on the parser, CBMC cannot execute the printer even on concrete 3-token inputs; no encoder within reach (DESIGN §2, §8)",
    'C02': "needs the Typst compiler, layout engine and renderer (floating point, fonts, ~10^5 lines): far outside any symbolic encoder available here",
    'C17': "quantifies over thread interleavings and processes; neither the MIR encoder nor Kani models concurrency, and the relevant state (hash seeds, allocator, typst's global interner) lies outside typstyle's MIR",
    'C18': "asymptotic cost over unbounded nesting depth of the whole printer; bounded symbolic execution of single units says nothing about it and the whole printer is not encodable",
}

PENDING = "check under construction in this session (not yet claimed)"

def main():
    props = [json.loads(l) for l in open(os.path.join(HERE, 'properties.jsonl'))]
    checks = []
    na = []
    for p in props:
        pid = p['id']
        if pid in CHECKS:
            c = CHECKS[pid]
            checks.append(dict(
                property_id=pid,
                quick_cmd="./check %s --tier quick" % pid,
                thorough_cmd="./check %s --tier thorough" % pid,
                evidence_file="/verif/evidence/%s.json" % pid,
                replay_cmd_template="./check replay {path}",
                engine="mirsym",
                level_claimed=dict(category="other", text=c['text'], design_ref=c['ref']),
                level_note=c['note'],
                technique=TECH,
            ))
        elif pid in NOT_APPLICABLE:
            na.append(dict(property_id=pid, reason=NOT_APPLICABLE[pid]))
        else:
            na.append(dict(property_id=pid, reason=PENDING))
    man = dict(
        version=1,
        setup_cmd="./check setup",
        hooks=dict(
            guard="cargo feature `verif-hooks` of typstyle-core (off by default)",
            enable="the native replay driver /verif/replay depends on typstyle-core with features=[\"verif-hooks\"]; the MIR dumps use the default feature set (hooks off)",
            baseline_off_cmd="cd /repo && cargo nextest run --workspace --no-fail-fast --test-threads 8 --offline || cargo test --workspace --no-fail-fast --offline",
            source_commits=SOURCE_COMMITS,
            add_only=True,
        ),
        engines=[dict(name="mirsym", path="/verif/mirsym", serves_properties=sorted(CHECKS),
                      kind_free_text="bounded MIR->SMT symbolic executor (python, z3): regenerates MIR from /repo on every run, inlines in-crate callees, models foreign calls by natively validated contracts, forks paths with an incremental solver, replays counterexamples through a native driver")],
        checks=checks,
        not_applicable=na,
        notes="Exit codes: 0 held within bounds; 1 reproduced violation (VIOLATION line); 2 inconclusive (encoder gap / cap hit / non-reproducing model) - never reported as success.",
    )
    json.dump(man, open(os.path.join(HERE, 'MANIFEST.json'), 'w'), indent=1)

SOURCE_COMMITS = ["f901964"]  # hooks only; fix: commits are listed in known_findings.json

if __name__ == '__main__':
    main()
