#!/usr/bin/env python3
"""Regenerate MANIFEST.json from the table below (keeps it schema-valid)."""
import json, os
HERE = os.path.dirname(os.path.dirname(os.path.abspath(__file__)))

TECH = "bounded symbolic execution of rustc MIR (own MIR->SMT encoder 'mirsym'), z3 decides every path obligation; counterexamples replayed natively"

CHECKS = {
    'C01': dict(
        text="Solver-decided within bounds, mechanism level, not a proof and NOT the end-to-end statement (the tree comparison needs the Typst parser on whole outputs). Token conservation per construct: for every expression kind, concrete node shapes from real parses (all repository fixtures + a hand-written file of tricky constructs; ~900 shapes quick, ~2500 thorough) are rebuilt as abstract trees and PrettyPrinter::convert_expr is executed from MIR on each with the real attribute pass, nested expression/pattern/markup conversions opaque, and context (mode, break suppression), indent unit, width and chain width symbolic. z3 decides on every path and in both observed layouts that the non-layout character stream of the produced document (everything except blanks, commas, semicolons, parentheses, braces) equals that of the source text of the node. Found a genuine defect (`a not in b == c` lost `not`), fixed.",
        note="Trusted: mirsym encoder; typst-syntax contracts (kind tables, accessors, operator tables extracted from the real crate); Doc algebra. Shapes are sampled from real parses (the solver quantifies over contexts/configuration, not over shapes); statement boundaries, parenthesis grouping, indentation-derived nesting, width-dependent layout and import reordering (C19) are outside. Constructs in units/conserve_expected.json must stay decidable or the run is inconclusive.",
        ref="DESIGN.md §5 C01"),
    'C11': dict(
        text="Solver-decided within bounds, not a proof: strip_trailing_whitespace (real MIR) is executed symbolically over every UTF-8 string of up to N code points (N=5 quick, 7 thorough; each code point an arbitrary Unicode scalar) and z3 shows the result is non-empty, ends in LF and no line ends in White_Space; the library entry points (real MIR, printer opaque) are shown to return exactly strip(render(..)). Longer strings and the renderer itself are outside the claim.",
        note="Trusted: mirsym encoder; contracts for str::{lines,trim_end,..} and String (validated natively each run: White_Space table over all scalars, differential runs); pretty's renderer output is treated as an arbitrary string; parser fact root=Markup.",
        ref="DESIGN.md §5 C11"),
    'C13': dict(
        text="Solver-decided within bounds, not a proof. (A) Typstyle::format_source_range with its real callees trim_range, count_spaces_after_last_newline and the cover search is executed from MIR over every text of up to N code points (4 quick / 6 thorough) and every (start,end) with start on a char boundary and end on a boundary or anywhere beyond the text: z3 shows no panic, that the cover search receives exactly the blank-trimmed range and that nest() receives the spaces after the last LF. (B) the cover search and converter dispatch are executed over abstract trees (root Markup, up to 4/6 nodes, symbolic kinds, leaf lengths, error flags) for any trimmed range inside the text: an Ok result names a non-erroneous Markup/Expr/Pattern node whose range contains the trimmed request, converted in the mode of its nearest Markup/CodeBlock/Equation ancestor; a refusal implies a syntax error in the tree. That splicing the result re-parses to an equivalent tree needs the parser as oracle and is NOT claimed.",
        note="Trusted: mirsym encoder; std string contracts; typst-syntax node/LinkedNode contracts with kind tables extracted from the real crate; abstract trees over-approximate parser output; converters, AttrStore::new and the renderer opaque; assume-guarantee split between (A) and (B).",
        ref="DESIGN.md §5 C13"),
    'C14': dict(
        text="Solver-decided over bounded worlds, not a proof. The real MIR of main, execute, format_one, format_many, format_all (+closures), format_debug, get_input, write_back, is_hidden, to_config, bitor_assign and report is executed against a symbolic file-system world: stdin, file lists of up to K files (2 quick / 3 thorough) and format-all over every directory tree of up to 2-3 (quick) / 4 (thorough) entries, every entry file/dir/other, hidden or not, any extension, readable or not, erroneous or not, changed or not; every flag combination clap admits and all 64-bit option values. z3 decides on every path that with --check nothing is written, no source/formatted text reaches stdout, and exit status is 1 iff an eligible readable well-formed input differs from F(input) or an eligible input cannot be read. Counterexamples are rebuilt as real directory trees and replayed on the real binary.",
        note="Trusted: mirsym encoder; environment contracts for fs::read_to_string/fs::write/walkdir/stdin/print/log/anyhow/clap (models_env.py); formatter = uninterpreted F with Err iff erroneous; directory-listing errors, symlink loops, larger trees, -v/-q in quick tier and --ast/--pretty-doc are outside the claim; mtime follows from W=empty under the structural fact (checked in the same MIR dump) that fs::write is the only mutator called.",
        ref="DESIGN.md §5 C14"),
    'C15': dict(
        text="Solver-decided over bounded worlds, not a proof. Same units and worlds as C14 with check=false, `-i` lists and format-all, write failures symbolic: z3 decides on every path that the set of files written is exactly {eligible & readable & well-formed & changed}, each once, with exactly F(content) for the mapped options; every eligible input is attempted whatever happened to earlier ones; any read/write failure gives a non-zero exit status and no failure gives 0. Eligibility for format-all: regular file, extension typ, not hidden, no hidden directory strictly between it and the given directory; the directory's own name is irrelevant.",
        note="Trusted: as C14. 'A second run is a no-op' follows from the write-set obligation on the post-world under F(F(c))=F(c) (C03, assumed). Write failures cannot be replayed natively as root; such models are reported inconclusive if nothing else reproduces.",
        ref="DESIGN.md §5 C15"),
    'C16': dict(
        text="Solver-decided over bounded worlds, not a proof. CLI MIR as C14/C15: every library call receives Config{max_width: column, tab_spaces: tab_width, reorder_import_items: flag, blank_lines_upper_bound: 2} for all 64-bit values; in stdout mode the stdout writes are exactly print!(\"{}\", F(c_i)) (c_i itself if erroneous) for readable inputs in argument order and nothing else; in-place/format-all write F(c_i). Library MIR: format_with_width(c,w) = F(c, Config{max_width:w, defaults}) or c if erroneous; format_content/format_source funnel into format_source_inspect. Counterexamples replayed by comparing the real binary's output with the library's output (native driver) for the same options.",
        note="Trusted: as C14; F uninterpreted - that all front-ends compute the same F rests on the structural fact that they all call Typstyle::format_source_inspect/format_content (checked in the dump).",
        ref="DESIGN.md §5 C16"),
    'C19': dict(
        text="Solver-decided within bounds, not a proof. convert_import_items (+closures) and check_import_name_duplication are executed from MIR over every sequence of up to K nodes (3 quick / 4 thorough), each a plain item (1-2 identifier path), a renamed item, or any other node kind (symbolic), identifier texts symbolic; the list stylist is opaque but records the sequence it receives. z3 decides: flag off => sequence unchanged; flag on => a permutation, unchanged whenever a comment is present or two items bind the same name, otherwise canonical (the resulting item order does not depend on the order in the source; which key is used is left to the implementation). Config::default has the flag off and StyleArgs::to_config passes the CLI flag through (real MIR); the option is read nowhere else (structural, same dump).",
        note="Trusted: mirsym encoder; contracts for sort_by_key (stable sort by key), HashSet insert, typst-syntax accessors; the list stylist prints items in the order received (not decided here). Longer imports and identifier texts longer than 1 character are outside the bound.",
        ref="DESIGN.md §5 C19"),
    'C08': dict(
        text="Solver-decided within bounds, not a proof; mechanism level. convert_space / convert_parbreak / convert_text with has_linebreak / count_linebreaks / repeat_n are executed from MIR over every whitespace token of up to N code points (3 quick / 4 thorough; each any White_Space scalar, so all newline characters Typst recognises): a Space token becomes a hard line break iff it holds a Typst newline, else one blank; a Parbreak with k newlines (CR LF once) becomes exactly k hard line breaks; Text is verbatim. Markup loop: collect_markup_repr + convert_markup_impl over child sequences of up to K nodes (3 quick / 4 thorough) from {text, space, parbreak, expression, strong, comments, hash, list item}, every scope / context / multiline flag, converters opaque: interior whitespace maps 1-1 in order, children conserved in order, expressions on a line holding text are converted with breaks suppressed. Counterexamples are replayed as real markup through format_content. Composition through nested markup, the parser and the renderer is not covered.",
        note="Trusted: mirsym encoder; lexer facts about whitespace tokens (stated in assumptions); Doc algebra contracts; typst_syntax::is_newline contract (validated natively at setup).",
        ref="DESIGN.md §5 C08"),
    'C03': dict(
        text="Solver-decided within bounds, mechanism level, not a proof and NOT the end-to-end statement (format o format through parser and renderer is out of reach). (1) strip(strip(s)) = strip(s) for every UTF-8 string of up to N code points (5 quick / 7 thorough). (2) comment.rs: for every block comment '/*' + up to M code points (5/7) + '*/' and each start column in {0,2}/{0,1,2,5}, the comment as laid out by align()/hang(1) and post-processed is mapped by a second block_comment pass to the same text and style. This obligation found a genuine defect (tab-only comment lines), fixed in /repo. (3) ListStylist with every ListStyle the crate builds: a list laid out on one line holds no doubled blank (found and fixed: kept blank lines). (4) convert_import_items with reordering on chooses the same order for source spacing and formatted spacing (found and fixed: raw-text sort key).",
        note="Trusted: mirsym encoder; std string contracts; pretty's align/hang semantics (indent = column of comment start, +1 for hang). Outside: multiline-flavour / attach-detach / boundary reproduction, which need the parser on formatter output.",
        ref="DESIGN.md §5 C03"),
    'C04': dict(
        text="Solver-decided within bounds, mechanism level, not a proof; the oracle 'output re-parses' needs the Typst parser and is NOT claimed end to end. Real MIR of ListStylist (all methods) with every ListStyle the crate builds (extracted from this run's MIR, dynamic fields symbolic, correlated fields tied), every fold style/option, child sequences <= K (2 quick / 3 thorough) of {item, line/block comment, comma, whitespace with symbolic text, hash}; convert_flow_like_iter + FlowStylist over sequences <= 3/4 with arbitrary producer results; optional_paren / convert_expr_with_optional_paren (all expression kinds) / parenthesize_if_necessary. z3 decides in the all-broken and flat-where-possible layouts: a line comment is always followed by a hard line break; delimiters balanced; a delimiter-less list holds no line break; single-element trailing separator kept; a blank exactly where both flow neighbours allow it; optional delimiters exactly in the broken layout, matching, nested by tab_spaces. Found three genuine defects (fixed). Counterexamples confirmed on a native corpus (format, re-parse).",
        note="Trusted: mirsym encoder; typst-syntax kind tables; pretty Doc algebra and group semantics (two global layouts observed); lexer facts about line comments / whitespace tokens; item converters opaque. Which expression kinds need parentheses, chains, math and markup composition are outside.",
        ref="DESIGN.md §5 C04"),
    'C05': dict(
        text="Solver-decided within bounds, not a proof. Refusal logic decided fully for the library entry points (real MIR, printer opaque): Err iff root erroneous, nothing converted before refusing, format_with_width returns the input itself on refusal. Panic freedom (overflow, slice bounds, char boundaries, unwrap, unreachable!) of strip_trailing_whitespace, has_linebreak, count_linebreaks (strings <= N code points), the comment kernels (<= M interior code points), convert_space/convert_parbreak, ListStylist and convert_flow_like_iter (child sequences <= K), optional_paren. Parser, renderer and the remaining tree-walking code are outside, as is 'bounded time'.",
        note="Trusted: mirsym encoder; std/typst-syntax/pretty contracts; parser facts stated as assumptions.",
        ref="DESIGN.md §5 C05"),
    'C06': dict(
        text="Solver-decided within bounds, mechanism level, not a proof. comment.rs: every block comment '/*' + up to M code points + '*/' keeps its line count and each line up to leading blanks of continuation lines / trailing blanks; every line comment is emitted byte-identically. Conservation: ListStylist (every ListStyle the crate builds, every fold style/option) and convert_flow_like_iter + FlowStylist over child sequences <= K: comment and item atoms appear exactly once each, in source order, in both observed layouts. Dot chains (convert_field_access, try_convert_dot_chain(_plain), ChainStylist) on a.f0.f1[(..)] with up to two comments at the gaps around the dots, every mode/suppression flag/chain width: comments and links re-emitted once, in order (found and fixed: comment dropped when breaks are suppressed). Binary chains, plain stylist, markup- and math-level placement and 'same neighbouring words' across constructs are outside.",
        note="Trusted: as C04.",
        ref="DESIGN.md §5 C06"),
    'C10': dict(
        text="Solver-decided within bounds, kernel level, not a proof. convert_trivia_untyped / convert_verbatim_untyped / convert_literal emit the token / node text unchanged for every text of up to N code points and any kind. strip_trailing_whitespace versus literal bytes: for s = p.t.q (t any token text with non-blank first/last character) strip(s) contains t with at most the blanks directly before a line feed removed; that t itself survives is false - the KNOWN FINDING (post-processing is literal-blind; two classes, replayed through format_content, listed in known_findings.json) - and any other change of t is reported as a new violation. convert_raw on raw elements with 1 or 3 backticks, optional language tag, 1-2 text lines with symbolic characters and symbolic newline characters: an inline raw spanning lines is copied verbatim, a rebuilt raw re-emits delimiter, tag and text unchanged in order with trimmed whitespace mapped to blank / hard line break (native confirmation through Typst's own Raw::lines).",
        note="Trusted: mirsym encoder; std string contracts; Doc contracts; Raw::block contract. Typst's dedent rule on re-parse and lexing of numbers/identifiers are outside.",
        ref="DESIGN.md §5 C10"),
    'C07': dict(
        text="Solver-decided within bounds, mechanism-complete, not a proof. Marking: compute_no_format_impl over every sequence of up to K children (4 quick / 5 thorough) with symbolic kinds and a symbolic 'contains @typstyle off' per comment: a child is marked iff it is a directive comment or the first sibling after one that is neither comment, whitespace nor hash; has_comment iff some child is a comment; recursion exactly into unmarked non-comment children. Consumption: convert_expr (all expression kinds), convert_pattern, convert_math, convert_code_block with the mark symbolic: marked => exactly text(source text of the node), nothing else converted; unmarked => ordinary conversion. Structural: convert_expr is the only caller of convert_expr_impl.",
        note="Trusted: mirsym encoder; typst-syntax and HashMap contracts. That every syntactic position reaches one of the four entry points and the renderer's handling of multi-line text atoms are outside. Counterexamples confirmed on a native corpus of directive placements.",
        ref="DESIGN.md §5 C07"),
    'C12': dict(
        text="Solver-checked data flow over the real MIR, complete over the nest() sites of this run's dump, not a proof of rendering. Every function calling DocBuilder::nest/align/hang/indent or reading Config::tab_spaces is enumerated from the dump; for each nest() site the backward slice of the offset (copies, casts, constant arithmetic, parameters pushed to all callers) is translated to a bit-vector term and z3 shows offset = T as isize for all T in [0,2^31); align/hang only in comment.rs and the source-indent nest in partial.rs (exempt); values read from tab_spaces flow only into nest offsets; no store into PrettyPrinter::config after construction; --tab-width maps to tab_spaces (to_config MIR).",
        note="Trusted: rustc MIR dump; pretty's nest semantics; literal blanks inside text atoms are not examined. Counterexamples confirmed natively by comparing leading blanks for tab_spaces 1..8.",
        ref="DESIGN.md §5 C12"),
    'C09': dict(
        text="Solver-decided within bounds, mechanism level, not a proof. convert_math over every child sequence of up to K nodes (3 quick / 4 thorough) from {math expression (converter opaque), whitespace token with symbolic text, hash, other token}: output atoms are, per child in order, the expression's document, a hard line break iff the whitespace holds a Typst newline else exactly one blank, '#', or the token text; nothing between children without a token, nothing dropped; expressions converted with breaks suppressed (Code mode after a hash). convert_math_delimited: inner edge whitespace maps to blank / hard line break exactly; body nested by tab_spaces. Math call arguments, attachments/fractions/roots (exempt by the property) and equation delimiters via the list stylist are outside, as is the renderer.",
        note="Trusted: mirsym encoder; typst-syntax contracts; Doc algebra; lexer facts on whitespace tokens. Counterexamples confirmed natively on equations `$ a<ws>b $`.",
        ref="DESIGN.md §5 C09"),
}

NOT_APPLICABLE = {
    'C02': "needs the Typst compiler, layout engine and renderer (floating point, fonts, ~10^5 lines): far outside any symbolic encoder available here",
    'C17': "quantifies over thread interleavings and processes; neither the MIR encoder nor Kani models concurrency, and the relevant state (hash seeds, allocator, typst's global interner) lies outside typstyle's MIR",
    'C18': "asymptotic cost over unbounded nesting depth of the whole printer; bounded symbolic execution of single units says nothing about it and the whole printer is not encodable",
}

PENDING = "check under construction in this session (not yet claimed)"

def main():
    props = [json.loads(l) for l in open(os.path.join(HERE, 'properties.jsonl'))]
    checks = []
    na = []
    for p in props:
        pid = p['id']
        if pid in CHECKS:
            c = CHECKS[pid]
            checks.append(dict(
                property_id=pid,
                quick_cmd="./check %s --tier quick" % pid,
                thorough_cmd="./check %s --tier thorough" % pid,
                evidence_file="/verif/evidence/%s.json" % pid,
                replay_cmd_template="./check replay {path}",
                engine="mirsym",
                level_claimed=dict(category="other", text=c['text'], design_ref=c['ref']),
                level_note=c['note'],
                technique=TECH,
            ))
        elif pid in NOT_APPLICABLE:
            na.append(dict(property_id=pid, reason=NOT_APPLICABLE[pid]))
        else:
            na.append(dict(property_id=pid, reason=PENDING))
    man = dict(
        version=1,
        setup_cmd="./check setup",
        hooks=dict(
            guard="cargo feature `verif-hooks` of typstyle-core (off by default)",
            enable="the native replay driver /verif/replay depends on typstyle-core with features=[\"verif-hooks\"]; the MIR dumps use the default feature set (hooks off)",
            baseline_off_cmd="cd /repo && cargo nextest run --workspace --no-fail-fast --test-threads 8 --offline || cargo test --workspace --no-fail-fast --offline",
            source_commits=SOURCE_COMMITS,
            add_only=True,
        ),
        engines=[dict(name="mirsym", path="/verif/mirsym", serves_properties=sorted(CHECKS),
                      kind_free_text="bounded MIR->SMT symbolic executor (python, z3): regenerates MIR from /repo on every run, inlines in-crate callees, models foreign calls by natively validated contracts, forks paths with an incremental solver, replays counterexamples through a native driver")],
        checks=checks,
        not_applicable=na,
        notes="Exit codes: 0 held within bounds; 1 reproduced violation (VIOLATION line); 2 inconclusive (encoder gap / cap hit / non-reproducing model) - never reported as success.",
    )
    json.dump(man, open(os.path.join(HERE, 'MANIFEST.json'), 'w'), indent=1)

SOURCE_COMMITS = ["f901964"]  # hooks only; fix: commits are listed in known_findings.json

if __name__ == '__main__':
    main()
