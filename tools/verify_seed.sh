#!/bin/bash
# tools/verify_seed.sh <dir with patch.diff + demo> <worktree>: confirm a seeded change: compiles, baseline tests pass, demo fails with / passes without
D=$1; W=${2:-/tmp/wt_f}
export CARGO_TARGET_DIR=$W/target CARGO_NET_OFFLINE=true
cd $W && git checkout -q -- . && git clean -fdq -e target
run_demo() {
  if [ -f $D/demo.sh ]; then bash $D/demo.sh $W/target/debug/typstyle >/tmp/demo.out 2>&1; echo $?;
  elif [ -f $D/demo_test.rs ]; then mkdir -p crates/typstyle-core/tests; cp $D/demo_test.rs crates/typstyle-core/tests/demo_test.rs; cargo test --offline -p typstyle-core --test demo_test >/tmp/demo.out 2>&1; r=$?; rm -f crates/typstyle-core/tests/demo_test.rs; rmdir crates/typstyle-core/tests 2>/dev/null; echo $r;
  else echo "nodemo"; fi
}
cargo build --offline -p typstyle >/dev/null 2>&1
base=$(run_demo)
git apply $D/patch.diff || { echo "PATCH FAILS"; exit 1; }
if ! cargo build --offline -p typstyle >/tmp/build.out 2>&1; then echo "DOES NOT COMPILE"; git checkout -q -- .; exit 1; fi
cargo nextest run --workspace --no-fail-fast --test-threads 8 --offline > /tmp/seed_nextest.log 2>&1
pass=$(grep -E 'Summary' /tmp/seed_nextest.log | sed -E 's/.* ([0-9]+) passed.*/\1/')
nonE2E=$(grep ' FAIL ' /tmp/seed_nextest.log | grep -v 'e2e' | sort -u | wc -l)
mut=$(run_demo)
git checkout -q -- .
echo "demo_unchanged_exit=$base demo_mutated_exit=$mut tests_passed=$pass non_e2e_failures=$nonE2E"
