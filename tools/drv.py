#!/usr/bin/env python3-vt
"""ad-hoc calls of the native driver:  tools/drv.py trees <file> [max_nodes] | fmt <file|-> [width] [tab] [reorder] | cmd <name> <args...>"""
import sys
sys.path.insert(0, '/verif')
from mirsym import session
from mirsym.session import hexs, unhexs

d = session.Driver(session.build_driver(lambda *a: None))
cmd = sys.argv[1]
if cmd == 'trees':
    r = d.call('trees', hexs(sys.argv[2]), int(sys.argv[3]) if len(sys.argv) > 3 else 40)
    for h in r[1:]:
        print(unhexs(h))
elif cmd == 'fmt':
    src = sys.stdin.read() if sys.argv[2] == '-' else open(sys.argv[2]).read()
    a = [int(x) for x in sys.argv[3:]] + [80, 2, 0][len(sys.argv) - 3:]
    r = d.call('format', hexs(src), *a)
    print(r[0], repr(unhexs(r[1])) if len(r) > 1 else '')
else:
    print(d.call(*sys.argv[2:]))
