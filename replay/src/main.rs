//! Native replay / contract-validation driver.  Line protocol on stdin/stdout:
//! `<cmd> <arg>...` with string arguments hex-encoded (UTF-8 bytes); one reply line per command.
use std::io::{BufRead, Write};
use std::panic::{catch_unwind, AssertUnwindSafe};

use pretty::{Arena, DocAllocator};
use typst_syntax::{ast, Source, SyntaxKind, SyntaxNode};
use typstyle_core::{verif_hooks as vh, Config, Typstyle};

fn unhex(s: &str) -> String {
    if s == "-" {
        return String::new();
    }
    let bytes: Vec<u8> = (0..s.len() / 2)
        .map(|i| u8::from_str_radix(&s[2 * i..2 * i + 2], 16).unwrap())
        .collect();
    String::from_utf8(bytes).expect("utf8")
}

fn hex(s: &str) -> String {
    if s.is_empty() {
        return "-".to_string();
    }
    s.bytes().map(|b| format!("{:02x}", b)).collect()
}

fn num(s: &str) -> usize {
    s.parse().unwrap()
}

fn guarded<F: FnOnce() -> String>(f: F) -> String {
    match catch_unwind(AssertUnwindSafe(f)) {
        Ok(s) => s,
        Err(e) => {
            let msg = if let Some(s) = e.downcast_ref::<&str>() {
                s.to_string()
            } else if let Some(s) = e.downcast_ref::<String>() {
                s.clone()
            } else {
                "?".to_string()
            };
            format!("panic {}", hex(&msg))
        }
    }
}

fn config(width: &str, tab: &str, reorder: &str) -> Config {
    let mut c = Config::new().with_width(num(width)).with_tab_spaces(num(tab));
    c.reorder_import_items = reorder == "1";
    c
}

fn kind_from(i: u8) -> SyntaxKind {
    // SyntaxKind is #[repr(u8)] with contiguous discriminants; the caller bounds i by the variant count
    unsafe { std::mem::transmute::<u8, SyntaxKind>(i) }
}

fn handle(parts: &[&str]) -> String {
    match parts[0] {
        "ping" => "ok".into(),
        "strip" => format!("ok {}", hex(&vh::strip_trailing_whitespace(&unhex(parts[1])))),
        "trim_range" => {
            let s = unhex(parts[1]);
            let r = vh::trim_range(&s, num(parts[2])..num(parts[3]));
            format!("ok {} {}", r.start, r.end)
        }
        "count_spaces" => {
            let s = unhex(parts[1]);
            format!("ok {}", vh::count_spaces_after_last_newline(&s, num(parts[2])))
        }
        "lines" => {
            let s = unhex(parts[1]);
            let v: Vec<String> = s.lines().map(hex).collect();
            format!("ok {}", v.join(" "))
        }
        "trim_end" => format!("ok {}", hex(unhex(parts[1]).trim_end())),
        "trim_start" => format!("ok {}", hex(unhex(parts[1]).trim_start())),
        "ws_table" => {
            let mut v = vec![];
            for c in 0..=0x10FFFFu32 {
                if let Some(ch) = char::from_u32(c) {
                    if ch.is_whitespace() {
                        v.push(format!("{:x}", c));
                    }
                }
            }
            format!("ok {}", v.join(" "))
        }
        "comments" => {
            // comment tokens of the parse tree in order; block comment lines are trimmed (indentation may change)
            let s = unhex(parts[1]);
            let src = Source::detached(s);
            let mut out = vec![];
            fn walk(n: &SyntaxNode, out: &mut Vec<String>) {
                match n.kind() {
                    SyntaxKind::LineComment => out.push(hex(n.text().trim_end())),
                    SyntaxKind::BlockComment => {
                        let t: Vec<&str> = n.text().lines().map(|l| l.trim()).collect();
                        out.push(hex(&t.join("\n")))
                    }
                    _ => {}
                }
                for c in n.children() {
                    walk(c, out);
                }
            }
            walk(src.root(), &mut out);
            format!("ok {}", out.join(" "))
        }
        "rawtexts" => {
            // for every raw element of the parse tree: block flag, language and the text lines Typst extracts (after its dedent rule)
            let s = unhex(parts[1]);
            let src = Source::detached(s);
            let mut out = vec![];
            fn walk(n: &SyntaxNode, out: &mut Vec<String>) {
                if let Some(raw) = n.cast::<ast::Raw>() {
                    let mut d = format!("block={};lang={};", raw.block(), raw.lang().map(|l| l.get().to_string()).unwrap_or_default());
                    for l in raw.lines() {
                        d.push_str(l.get().as_str());
                        d.push('\u{1}');
                    }
                    out.push(hex(&d));
                }
                for c in n.children() {
                    walk(c, out);
                }
            }
            walk(src.root(), &mut out);
            format!("ok {}", out.join(" "))
        }
        "leaves" => {
            // the leaf tokens of the parse tree of a source text, in order: Kind:hextext ...  (first word: 1 if the tree holds errors)
            let src = Source::detached(unhex(parts[1]));
            fn walk(n: &SyntaxNode, out: &mut Vec<String>) {
                if n.children().len() == 0 {
                    out.push(format!("{:?}:{}", n.kind(), hex(n.text())));
                }
                for c in n.children() {
                    walk(c, out);
                }
            }
            let mut out = vec![];
            walk(src.root(), &mut out);
            format!("ok {} {}", src.root().erroneous() as u8, out.join(" "))
        }
        "trees" => {
            // every inner node of the parse tree of a source file as a compact s-expression:
            // (Kind child child ...) ; leaves as Kind:hextext.  Only nodes whose subtree has at most `max` nodes are printed.
            let path = unhex(parts[1]);
            let max = num(parts[2]);
            let text = match std::fs::read_to_string(&path) {
                Ok(t) => t,
                Err(_) => return "err".into(),
            };
            let src = Source::detached(text);
            if src.root().erroneous() {
                return "ok".into();
            }
            fn size(n: &SyntaxNode) -> usize {
                1 + n.children().map(size).sum::<usize>()
            }
            fn sexp(n: &SyntaxNode, out: &mut String) {
                if n.children().len() == 0 {
                    out.push_str(&format!("{:?}:{}", n.kind(), hex(n.text())));
                } else {
                    out.push_str(&format!("({:?}", n.kind()));
                    for c in n.children() {
                        out.push(' ');
                        sexp(c, out);
                    }
                    out.push(')');
                }
            }
            fn walk(n: &SyntaxNode, max: usize, out: &mut Vec<String>) {
                if n.children().len() > 0 && size(n) <= max {
                    let mut s = String::new();
                    sexp(n, &mut s);
                    out.push(hex(&s));
                }
                for c in n.children() {
                    walk(c, max, out);
                }
            }
            let mut out = vec![];
            walk(src.root(), max, &mut out);
            format!("ok {}", out.join(" "))
        }
        "binops" => {
            // every BinOp with precedence and text (NotIn has no single kind)
            use ast::BinOp::*;
            let all = [Add, Sub, Mul, Div, And, Or, Eq, Neq, Lt, Leq, Gt, Geq, Assign, In, NotIn, AddAssign, SubAssign, MulAssign, DivAssign];
            let v: Vec<String> = all.iter().map(|op| format!("{:?}/{}/{}", op, op.precedence(), hex(op.as_str()))).collect();
            format!("ok {}", v.join(" "))
        }
        "newline_table" => {
            let mut v = vec![];
            for c in 0..=0x10FFFFu32 {
                if let Some(ch) = char::from_u32(c) {
                    if typst_syntax::is_newline(ch) {
                        v.push(format!("{:x}", c));
                    }
                }
            }
            format!("ok {}", v.join(" "))
        }
        "format" => {
            let s = unhex(parts[1]);
            let mut cfg = config(parts[2], parts[3], parts[4]);
            if parts.len() > 5 {
                // optional: the library-only option (a public field of Config, not reachable from the CLI)
                cfg.blank_lines_upper_bound = num(parts[5]);
            }
            match Typstyle::new(cfg).format_content(s) {
                Ok(r) => format!("ok {}", hex(&r)),
                Err(_) => "err".into(),
            }
        }
        "format_with_width" => {
            let s = unhex(parts[1]);
            format!("ok {}", hex(&typstyle_core::format_with_width(&s, num(parts[2]))))
        }
        "erroneous" => {
            let s = unhex(parts[1]);
            format!("ok {}", Source::detached(s).root().erroneous() as u8)
        }
        "format_range" => {
            let s = unhex(parts[1]);
            let src = Source::detached(s);
            let mut cfg = config(parts[4], parts[5], "0");
            if parts.len() > 6 {
                cfg.blank_lines_upper_bound = num(parts[6]);
            }
            let t = Typstyle::new(cfg);
            match t.format_source_range(&src, num(parts[2])..num(parts[3])) {
                Ok((r, txt)) => format!("ok {} {} {}", r.start, r.end, hex(&txt)),
                Err(_) => "err".into(),
            }
        }
        "comment_style" => format!("ok {}", vh::comment_style_is_bullet(&unhex(parts[1])) as u8),
        "follow_leading" => match vh::get_follow_leading(&unhex(parts[1])) {
            Some(n) => format!("ok {}", n),
            None => "ok none".into(),
        },
        // render `prefix + block_comment(text)` at a huge width: what the comment looks like at column |prefix|
        "block_comment" => {
            let text = unhex(parts[1]);
            let prefix = unhex(parts[2]);
            let node = SyntaxNode::leaf(SyntaxKind::BlockComment, text.as_str());
            let arena = Arena::new();
            let doc = arena.text(prefix) + vh::block_comment(&arena, &node);
            format!("ok {}", hex(&doc.pretty(1 << 30).to_string()))
        }
        "line_comment" => {
            let text = unhex(parts[1]);
            let node = SyntaxNode::leaf(SyntaxKind::LineComment, text.as_str());
            let arena = Arena::new();
            let doc = vh::comment(&arena, &node);
            format!("ok {}", hex(&doc.pretty(1 << 30).to_string()))
        }
        "kinds" => {
            let n = num(parts[1]);
            let mut out = vec![];
            for i in 0..n {
                let k = kind_from(i as u8);
                if k.is_error() {
                    out.push(format!("{:?}:{}:0000001000000:-,-,-,-,-,-,-:-:-", k, i));
                    continue;
                }
                let leaf = SyntaxNode::leaf(k, "x");
                let inner = SyntaxNode::inner(k, vec![]);
                let flags = [
                    k.is_trivia(),
                    k.is_keyword(),
                    k.is_grouping(),
                    k.is_terminator(),
                    k.is_block(),
                    k.is_stmt(),
                    k.is_error(),
                    leaf.cast::<ast::Expr>().is_some() || inner.cast::<ast::Expr>().is_some(),
                    leaf.cast::<ast::Pattern>().is_some() || inner.cast::<ast::Pattern>().is_some(),
                    leaf.cast::<ast::Markup>().is_some() || inner.cast::<ast::Markup>().is_some(),
                    leaf.cast::<ast::Arg>().is_some() || inner.cast::<ast::Arg>().is_some(),
                    ast::BinOp::from_kind(k).is_some(),
                    ast::UnOp::from_kind(k).is_some(),
                ];
                let f: String = flags.iter().map(|b| if *b { '1' } else { '0' }).collect();
                fn vname<T: std::fmt::Debug>(a: Option<T>, b: Option<T>) -> String {
                    match a.or(b) {
                        Some(v) => {
                            let d = format!("{:?}", v);
                            d.split(|c: char| !c.is_alphanumeric()).next().unwrap_or("").to_string()
                        }
                        None => "-".to_string(),
                    }
                }
                let casts = [
                    vname(leaf.cast::<ast::Expr>(), inner.cast::<ast::Expr>()),
                    vname(leaf.cast::<ast::Pattern>(), inner.cast::<ast::Pattern>()),
                    vname(leaf.cast::<ast::Arg>(), inner.cast::<ast::Arg>()),
                    vname(leaf.cast::<ast::Param>(), inner.cast::<ast::Param>()),
                    vname(leaf.cast::<ast::ArrayItem>(), inner.cast::<ast::ArrayItem>()),
                    vname(leaf.cast::<ast::DictItem>(), inner.cast::<ast::DictItem>()),
                    vname(leaf.cast::<ast::DestructuringItem>(), inner.cast::<ast::DestructuringItem>()),
                ];
                let bin = match ast::BinOp::from_kind(k) {
                    Some(op) => format!("{:?}/{}/{}", op, op.precedence(), hex(op.as_str())),
                    None => "-".to_string(),
                };
                let un = match ast::UnOp::from_kind(k) {
                    Some(op) => format!("{:?}/{}/{}", op, op.precedence(), hex(op.as_str())),
                    None => "-".to_string(),
                };
                out.push(format!("{:?}:{}:{}:{}:{}:{}", k, i, f, casts.join(","), bin, un));
            }
            format!("ok {}", out.join(" "))
        }
        // AttrStore marks for the tree parsed from a source: list of (kind, range, disabled, commented) per node
        "attrs" => {
            let s = unhex(parts[1]);
            let src = Source::detached(s);
            let store = typstyle_core::AttrStore::new(src.root());
            let mut out = vec![];
            fn walk(n: &typst_syntax::LinkedNode, store: &typstyle_core::AttrStore, out: &mut Vec<String>) {
                out.push(format!(
                    "{:?}:{}:{}:{}:{}",
                    n.kind(),
                    n.range().start,
                    n.range().end,
                    store.is_format_disabled(n.get()) as u8,
                    store.has_comment(n.get()) as u8
                ));
                for c in n.children() {
                    walk(&c, store, out);
                }
            }
            walk(&typst_syntax::LinkedNode::new(src.root()), &store, &mut out);
            format!("ok {}", out.join(" "))
        }
        "walkdir" => {
            // list what WalkDir + filter_entry(not hidden) yields below a directory: validates the walk contract
            let root = unhex(parts[1]);
            let mut out = vec![];
            for e in walkdir::WalkDir::new(&root)
                .sort_by_file_name()
                .into_iter()
                .filter_entry(|e| !e.file_name().to_str().is_some_and(|s| s.starts_with('.')))
                .filter_map(Result::ok)
            {
                out.push(format!("{}:{}", e.depth(), hex(&e.path().display().to_string())));
            }
            format!("ok {}", out.join(" "))
        }
        "sched" => {
            // C17: run format jobs in a given schedule inside this process.  `sched seq <job>...` runs them in order on this thread;
            // `sched par <threads> <rounds> <job>...` runs every job on every thread (each thread starts at another job) concurrently.
            // job = api:hextext:width:tab:reorder[:lo:hi]   api c = format_content, w = format_with_width, r = format_source_range
            // reply: per job the distinct results observed, `|`-separated, jobs separated by blanks
            let (threads, rounds, jobs) = if parts[1] == "par" {
                (num(parts[2]), num(parts[3]), &parts[4..])
            } else {
                (1, 1, &parts[2..])
            };
            let jobs: Vec<Vec<String>> = jobs.iter().map(|j| j.split(':').map(|x| x.to_string()).collect()).collect();
            let n = jobs.len();
            let results = std::sync::Mutex::new(vec![Vec::<String>::new(); n]);
            std::thread::scope(|sc| {
                let mut hs = vec![];
                for t in 0..threads {
                    let jobs = &jobs;
                    let results = &results;
                    let work = move || {
                        for r in 0..rounds {
                            for k in 0..n {
                                let i = if threads > 1 { (k + t + r) % n } else { k };
                                let out = guarded(|| run_job(&jobs[i]));
                                let mut g = results.lock().unwrap();
                                if !g[i].contains(&out) {
                                    g[i].push(out);
                                }
                            }
                        }
                    };
                    if threads > 1 {
                        hs.push(sc.spawn(work));
                    } else {
                        work();
                    }
                }
                for h in hs {
                    let _ = h.join();
                }
            });
            let g = results.lock().unwrap();
            format!("ok {}", g.iter().map(|v| v.join("|")).collect::<Vec<_>>().join(" "))
        }
        other => format!("unknown {}", other),
    }
}

fn run_job(j: &[String]) -> String {
    let s = unhex(&j[1]);
    match j[0].as_str() {
        "w" => format!("ok:{}", hex(&typstyle_core::format_with_width(&s, num(&j[2])))),
        "r" => {
            let src = Source::detached(s);
            let t = Typstyle::new(config(&j[2], &j[3], &j[4]));
            match t.format_source_range(&src, num(&j[5])..num(&j[6])) {
                Ok((r, txt)) => format!("ok:{}:{}:{}", r.start, r.end, hex(&txt)),
                Err(_) => "err".into(),
            }
        }
        _ => match Typstyle::new(config(&j[2], &j[3], &j[4])).format_content(s) {
            Ok(r) => format!("ok:{}", hex(&r)),
            Err(_) => "err".into(),
        },
    }
}

fn main() {
    std::panic::set_hook(Box::new(|_| {}));
    let stdin = std::io::stdin();
    let stdout = std::io::stdout();
    for line in stdin.lock().lines() {
        let line = line.unwrap();
        let parts: Vec<&str> = line.split_whitespace().collect();
        if parts.is_empty() {
            continue;
        }
        let reply = guarded(|| handle(&parts));
        let mut o = stdout.lock();
        writeln!(o, "{}", reply).unwrap();
        o.flush().unwrap();
    }
}
